#!/usr/bin/env python3
"""Regenerates /verif/MANIFEST.json from the table below (one place to keep it current)."""
import json, os, subprocess

VERIF = os.path.dirname(os.path.abspath(__file__))

# id -> dict(level, technique, text, note, design, engine)   (only properties whose check exists)
CHECKS = {
    "C17": dict(
        level="exploration",
        engine="mc-common",
        technique="exhaustive small-scope input enumeration of the real function (dense lattice + u64 boundaries) against a u128 oracle",
        text="Every (tip, security parameter, step) triple of a dense lattice (quick: tip<=400, sec<=80, step<=95; thorough: tip<=1500, sec<=200, step<=240) and every combination of u64 boundary values is pushed through the real SignedEntityConfig for both block-number entities and through a config rebuilt from its JSON form; margin, monotonicity over all successive tips, whole-step moves, block-range alignment and agreement are checked on every one. The property is a pure function of three integers, so a complete sweep of the small scope plus boundaries is the right level.",
        note="Range length 15 is taken as the protocol constant. Panics caused only by overflow-checks for operands above 2^63 are reported as observations.",
        design="§4 C17",
    ),
}

NOT_YET = "check not built yet (work in progress; see DESIGN.md §8 build order)"

ENGINES = [
    dict(name="mc-core", path="harness/mc-core", serves_properties=[], kind_free_text="shared engine: enumerators, explicit-state explorer by replay (depth BFS + deviation balls, canonical-state dedup, determinism probes), subprocess isolation runner, evidence/known-finding reporting"),
]


def main():
    props = [json.loads(l)["id"] for l in open(os.path.join(VERIF, "properties.jsonl"))]
    checks = []
    for pid in props:
        c = CHECKS.get(pid)
        if not c:
            continue
        checks.append({
            "property_id": pid,
            "quick_cmd": f"./check {pid} quick",
            "thorough_cmd": f"./check {pid} thorough",
            "evidence_file": f"/verif/evidence/{pid}.json",
            "replay_cmd_template": f"./check {pid} quick --replay {{path}}",
            "engine": c["engine"],
            "level_claimed": {"category": c["level"], "text": c["text"], "design_ref": c["design"]},
            "level_note": c["note"],
            "technique": c["technique"],
        })
    na = [{"property_id": p, "reason": NOT_YET} for p in props if p not in CHECKS]
    hooks_commits = []
    hc = os.path.join(VERIF, "hook_commits.txt")
    if os.path.exists(hc):
        hooks_commits = [l.strip() for l in open(hc) if l.strip()]
    man = {
        "version": 1,
        "setup_cmd": "cd /verif/harness && CARGO_NET_OFFLINE=true CARGO_TARGET_DIR=/verif/target cargo build --offline --workspace --bins 2>&1 | tail -n 5",
        "hooks": {
            "guard": "cargo feature `verif_hooks` of mithril-aggregator (off by default)",
            "enable": "harness crate mc-aggregator depends on mithril-aggregator with features=[\"verif_hooks\"]; nothing else enables it",
            "baseline_off_cmd": "cd /repo && cargo nextest run --workspace --no-fail-fast --test-threads 8 --offline || cargo test --workspace --no-fail-fast --offline",
            "source_commits": hooks_commits,
            "add_only": True,
        },
        "engines": ENGINES,
        "checks": checks,
        "not_applicable": na,
        "notes": "All checks are bounded exhaustive enumerations executed on the real code (path dependencies on /repo). ./check exits 2 (no verdict) when the machinery itself fails. See DESIGN.md.",
    }
    json.dump(man, open(os.path.join(VERIF, "MANIFEST.json"), "w"), indent=1)
    try:
        r = subprocess.run(["python3-vt", "-c", "import json,jsonschema;jsonschema.validate(json.load(open('%s/MANIFEST.json')),json.load(open('/root/.vp/MANIFEST.schema.json')));print('manifest valid')" % VERIF])
    except Exception as e:
        print("not validated:", e)


if __name__ == "__main__":
    main()
