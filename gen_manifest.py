#!/usr/bin/env python3
"""Regenerates /verif/MANIFEST.json from the table below (one place to keep it current)."""
import json, os, subprocess

VERIF = os.path.dirname(os.path.abspath(__file__))

# id -> dict(level, technique, text, note, design, engine)   (only properties whose check exists)
CHECKS = {
    "C01": dict(
        level="exploration",
        engine="mc-stm",
        technique="bounded exhaustive input enumeration with structural mutation (d<=1 quick, d<=2 thorough) over three wire encodings, with an independent reference oracle (blst, Blake2b dense mapping, exact interval lottery, set membership)",
        text="Every aggregate and single signature reachable from honest values of a 21/23-configuration lattice (1-4 parties, equal / 1:1000 / 1:2^40 stake splits, three parameter sets, two messages) by <=1 (quick) / <=2 (thorough) structural mutations (index sets and boundary indices m-1, m, m+1, 2^64-1, slot labels, claimed key/stake incl. an adversary key with a genuine signature, sigma substitutions, every batch-path value and index edit, list swap/dup/drop/split), and all ordered pairs/triples of a pool of accepted, rejected and sigma-shifted aggregates, are decoded from JSON, CBOR and the legacy layout and verified by the real code; each acceptance is checked against an independent statement: indices < m, >= k distinct, every (key, stake) in the harness-side registration, every sigma a valid BLS signature of msg||root, every index won under the exact lottery, batch accepted => each member accepted alone.",
        note="Trusted: blst, blake2, num-bigint, the mc-ref lottery. Registration membership is decided from the harness's own list, the root re-derived by an independent tree. Draws within 2^-44 of the threshold are not judged. N<=4, m<=8, batches <=3. Overflow in batch-path index arithmetic panics under the harness's overflow-checks and counts as rejection. Rejected d=2 candidates are judged in JSON form only. snark variants are feature-gated off.",
        design="§4 C01",
    ),
    "C02": dict(
        level="exploration",
        engine="mc-stm",
        technique="exhaustive enumeration of all sequences (every multiset in every order) of single signatures up to a length bound, with a one-insertion monotonicity table, on the real clerk and mithril-common MultiSigner",
        text="All sequences of length <=2/<=3 over the full alphabet (9-22 signatures per configuration: honest, first-half / second-half / single-index restrictions, an index listed twice, signatures on the other message, relabelled to another registered slot, unregistered slot, sigma+G, extra lost index, extra index m) and <=4/<=5 over its 8-element core are aggregated by the real Clerk, and for 4/7 configurations by mithril-common's MultiSigner on certified signers; every produced aggregate is verified after travelling through its encodings. Completeness (valid signatures covering >= k indices => aggregation succeeds and verifies) and one-insertion monotonicity (success(s) => success(s') and verify for every one-element insertion) are decided against a reference single-signature check.",
        note="L<=5, N<=4. Element validity uses blst, blake2 and the exact lottery and the slot->party map from registration. The error kind below quorum is recorded, not judged. The aggregator's MultiSignerImpl::create_multi_signature mapping is exercised by the aggregator checks (C14/C16).",
        design="§4 C02",
    ),
    "C03": dict(
        level="model_checking",
        engine="mc-chaincert",
        technique="bounded exhaustive explicit-state exploration by replay on the real verifiers: every (certificate, provider answer) pair of a finite pool through verify_certificate; every history of <=3 client verify_chain calls with bounded provider deviations over all reachable contents of the real cache",
        text="A pool of four chains (three honest incl. one with identical signers in every epoch and one with per-epoch parameters; one adversarial with its own genesis and STM keys) plus all their structural mutations (re-targeted / dropped / dangling / self links, epoch +-1 kept / rehashed / re-signed, swapped key / parameters / signature / signed statement, altered or removed next-key / next-parameter / epoch commitments in four signing variants): 1152 (quick) / 2582 (thorough) certificates. Every (certificate, answer) pair of the answer sets is executed through mithril-common's verify_certificate, verify_certificate_chain runs from every member, and every history of <=2 (quick) / <=3 (thorough) mithril-client verify_chain calls with <=1-2 provider deviations is executed over the real in-memory cache. Each accepted step, chain and call is judged against an independent field-by-field restatement of C03 (valid link = same epoch & same key/parameters, or p.epoch+1 == c.epoch & committed next key/parameters; valid genesis; acyclic; hash-linked chain valid to genesis).",
        note="Trusted base: certificate hash and protocol-message digest computation (C04), STM aggregate-signature verification (C01), Ed25519. <=5 epochs, one adversarial key set, Concatenation proofs only. Cache states are re-created through the public cache API and validated by replaying the first and last history at each depth. Observation not judged (the property's wording admits it): a genesis certificate's own aggregate_verification_key field is not covered by the genesis signature.",
        design="§4 C03",
    ),
    "C04": dict(
        level="exploration",
        engine="mc-common",
        technique="bounded exhaustive input enumeration (certificate grammar x every single-field change; all protocol messages over <=3 keys; every JSON re-serialisation; every U8F24 rounding boundary of phi_f) on the real hashing, conversion and JSON code",
        text="Every certificate of an explicit grammar (genesis and all five signed entity types, u64 extremes, signer-list shapes, timestamps down to the nanosecond and at both i64 ends, adversarial strings) is paired with every single-field change from per-field alphabets and hashed by the real try_compute_hash; all of them, plus a really signed chain and tamperings of it, are sent through CertificateMessage and eleven JSON re-serialisations back to a certificate, comparing hash, signed message and verify_certificate outcome; all 1e5-1e6 protocol messages over at most 3 keys and an honest value alphabet are bucketed by digest; every U8F24 rounding boundary of phi_f in [0,1) with its f64 neighbours goes through JSON. The verdict is 'no element of this enumerated space violates the oracle'.",
        note="Single-field changes only; one deterministic key/signature set; ancillary data only absent (uninhabited without future_snark); protocol-message values from the honest hex/decimal grammar; phi_f changes required to show only at >= one U8F24 unit independent of rounding convention. Trusted: sha2, chrono, serde_json as parser of the harness emitter, chain-builder fixtures.",
        design="§4 C04",
    ),
    "C05": dict(
        level="exploration",
        engine="mc-decode",
        technique="bounded exhaustive input enumeration (blind short strings, boundary-u64 prefixes, every single structural deviation of honest encodings at every nesting level, pairs of length fields, nesting bombs) in crash-isolating worker subprocesses with a counting allocator",
        text="Every public decoding entry point of the wire types (45 decoder groups: STM from_bytes in CBOR and legacy layouts, their serde forms, bincode and JSON Merkle proofs, ProtocolKey json-hex / bytes-hex / try_from(&str) for every key type, OpCert / KES / ed25519 / DMQ message bytes, and the message-to-entity conversions of certificates, registrations, signatures, stake distributions and proof messages) is executed on the real code over an explicitly enumerated space of 1.7M (quick) / 15.6M (thorough) inputs. Each decode runs in a worker subprocess on an explicit 8 MiB stack with a counting allocator, so a panic, abort, stack overflow, hang (60 s, re-run alone before being reported) or single allocation above max(64 MiB, 1024 x input length) is attributed to its exact input; honest values incl. golden fixtures and u64-extreme fields must round-trip through every form.",
        note="Default cargo features (no future_snark: SNARK decoders are not covered). Overflow-checks on. Legacy honest encodings are written by the harness; the CBOR mirror envelopes are self-checked byte-for-byte against the real to_bytes at start-up. Third-party decoders are exercised only through Mithril entry points. The space is exhaustive inside the stated alphabets and silent beyond them.",
        design="§4 C05",
    ),
    "C06": dict(
        level="exploration",
        engine="mc-avk",
        technique="bounded exhaustive small-scope enumeration of registration sets x all registration orders x four computation routes x transport encodings on the real code, with a differential identity / distinctness oracle",
        text="Every registration set of a small lattice (<= 4 of 5 certified parties, stakes with ties, a stake above 2^53, two keys sharing a 25-bit prefix) is registered in each of its N! orders on four real routes - mithril-stm KeyRegistration/Clerk, the signer node's SignerBuilder path, the aggregator's SignerBuilder::build_multi_signer path, the client's compute_mithril_stake_distribution_message on a distribution parsed from JSON - and through every encoding the nodes use (json-hex, bytes-hex, message-part JSON, entity JSON, epoch-settings JSON). Key bytes, json-hex text, total stake and each member's slot (read from a real signature) must be identical; signatures must be accepted by a MultiSigner that registered in another order; all keys of the whole 5-party lattice (1468 / 7775 sets) must be pairwise distinct.",
        note="The aggregator and signer-node routes are mirrored call-for-call (the binaries and the DB store are not linked in this check). phi_f = 1 so that slots are observable. Keys from a constant-seeded ChaCha RNG, KES material from the repository's fixture. N = 5 is covered by two orders only.",
        design="§4 C06",
    ),
    "C07": dict(
        level="exploration",
        engine="mc-common",
        technique="bounded exhaustive input enumeration on the real registration code: all A/B component splices, radius-1/2 deviation balls around honest registrations, the full signing-evolution x announced-evolution rectangle, judged by a reference written with ed25519-dalek / kes-summed-ed25519 / blake2 / blst only",
        text="Every registration of an explicitly generated finite space is executed on the real mithril-common / mithril-stm registration code (ProtocolKeyRegistration::register, the call sequence of the aggregator's MithrilSignerRegistrationVerifier, SignerBuilder::new) and judged by an independent reference: accepted => opcert signed by the cold key, KES signature over the key under the certified KES key within +-1 of the announced evolution and inside [0,64), valid proof of possession, pool id = blake2b-224(cold key) in the stake distribution, key not yet registered, party id derived from the cold key, recorded stake = the distribution's value; plus completeness on honest and signer-produced registrations. The space holds all splices of 10 components of two pools, all single and pairwise deviations from 10 honest bases for an outsider and for a re-signing pool operator, all 64x79 evolution pairs, 11 stake distributions and registration sequences up to length 3.",
        note="Trusted base: ed25519-dalek non-strict verify, kes-summed-ed25519 at evolutions 0..=63, blake2, blst pairings, own bech32 encoder. Part 1 (mc-common) does not link the aggregator crate: its verifier call sequence is mirrored (stated in the evidence). Part 2 (mc-aggregator, merged into the same evidence file) sends all sequences of <= 2 (thorough: 3) registrations over its kinds (honest, another pool's key under own certificate and KES signature - also with a proof of possession re-encoded by a cofactor-subgroup point, missing / wrong / extreme ANNOUNCED evolution with the KES signature at the chain-derived one, valid registration whose party id field names another / no / an unknown pool), plus all interleavings of two concurrent registrations on the real leader registerer, to the real SignerRegisterer of a running aggregator and inspects the verification-key store after every step (key not already registered by another pool, party id from the cold key, stake from the distribution of the derived pool).",
        design="§4 C07",
    ),
    "C08": dict(
        level="exploration",
        engine="mc-lottery",
        technique="small-scope input enumeration of the real is_lottery_won (working-tree eligibility.rs by source inclusion) and of the public signer/verifier path, against an exact interval-arithmetic oracle with a proved bracket",
        text="Every (phi_f, total, stake, draw) of an explicit lattice (0.43M cases quick, 4.2M thorough: 14-28 phi_f values incl. next to 0 and 1, every stake of totals <= 10-12 plus totals 1000, 45e15, 2^64-1, draws 0, 1, 2^512-1, a uniform grid and T -/+ j*2^s from one unit in the 512th bit out past the band edge around the exact threshold T of every stake) is decided by the working tree's is_lottery_won and compared with an independent fixed-point interval evaluation of 1-(1-phi_f)^(stake/total) whose bracket is below 2^-560; stake-ascending and draw-descending chains are judged on the implementation's own decisions, determinism by re-evaluation, and signer/verifier agreement index by index through the public API. The domain is a continuum, so the claim holds for the lattice, which is concentrated where a wrong bound changes outcomes.",
        note="Trusted: mc-ref::lottery (unit-tested), num-bigint, blake2. Only the num-integer back end is compiled (rug not available offline). Band 2^-44*min(1, 2*max(w, x)), >= 256x the error implied by the f64 ln in the implementation. phi_f = 1 with stake = 0 is contradictory in the property and excluded.",
        design="§4 C08",
    ),
    "C09": dict(
        level="exploration",
        engine="mc-merkle",
        technique="bounded exhaustive input enumeration (all tree sizes x all index subsets x all single and paired structural mutations of every proof component, plus designed forgery families) on the real code, with source inclusion for the crate-private STM tree",
        text="Every tree size up to 12 (quick) / 16 (thorough) and every non-empty index subset is proven by the real generators and checked by the real verifiers for the STM registration tree (working-tree source compiled by inclusion with byte-string leaves, and end-to-end through AggregateSignature::verify with the real leaves), MKTree/MKProof, and nested MKMap/MKMapProof/MkSetProof; every single (thorough: every pair of) mutation of every proof component of the smaller sizes (leaf replaced by member / outsider / padding or inner-node pre-image, every position value, claims dropped / duplicated / swapped, every path node dropped / duplicated / replaced by every tree node, size and root fields, sub-proofs detached / re-keyed / replaced, key||sub-root boundary shifts) plus systematic forgery families is judged by 'accepted => every stated (position/key, item) is literally committed; contains/leaves/MkSetProof::verify on x => x is a committed leaf'. 1.9M (quick) / 44M (thorough) cases.",
        note="Blake2 collision and pre-image resistance assumed; hash material limited to values occurring in the structure. Proof internals are reached via the real bincode and JSON wire formats through mirror structs (a layout change surfaces as a rejected honest proof or a machinery error, not a silent pass). Overflow checks are on. Sizes above 16 are covered by fixed subsets only. Map-level entries count as committed leaves.",
        design="§4 C09",
    ),
    "C10": dict(
        level="exploration",
        engine="mc-dbverify",
        technique="bounded exhaustive input enumeration on the real client proving API: every database of 1-4 trios x every range x allow_missing x every single (thorough: pair of) tampering of the restored directory and of the served digest list, plus hostile-mirror combinations, judged against digests and a root the harness computed itself",
        text="Every database of 1-3 (quick) / 1-4 (thorough) immutable trios, every Full/From/UpTo/Range range, both allow_missing settings, every single structural tampering of the restored directory (each byte flipped, truncations, deletions, every swap and copy between certified files, other spellings of file numbers, files beyond the beacon, extras, a decoy immutable directory, a database directory itself named immutable, a file replaced by a symbolic link or a directory) and of the served digest list (renames incl. names with directory components, drops, duplicates, foreign / swapped digests, every reordering, raw failures), the hostile-mirror combinations of both, and (thorough) all pairs from reduced alphabets are pushed through the public mithril-client API exactly as the CLI calls it (download_and_verify_digests, verify_cardano_database, compute_cardano_database_message, match_message). Accepted => the retained digest sequence equals the signed one, every canonical file of the range is present unless gaps were allowed, and every immutable-named file of the range hashes to the honest digest of that very name; the untampered directory is always accepted. 162k (quick) / 1.7M (thorough) evaluations.",
        note="Trusted: SHA-256 (sha2), MKTree collision freedom (C09), the certificate taken as already validated (C03). The harness's independent digests and root are cross-checked at start-up against the real CardanoImmutableDigester. Directory listing order is that of tmpfs. Files of 4-8 bytes, <=4 trios. The archive download/unpack path is C19's subject.",
        design="§4 C10",
    ),
    "C11": dict(
        level="exploration",
        engine="mc-proofs",
        technique="bounded exhaustive response tampering (small-scope input enumeration) on the real client verification path: every query of <=3 items x three proof formats x every alteration of a ~25-class alphabet (<=1 quick, <=2 thorough), and every edit of every small stake distribution",
        text="Every query of <=3 items (present in 3 ranges, beyond-beacon, absent) over a 45-block / 3-range chain, in all three proof formats (legacy transaction sets, v2 transactions, v2 blocks) and at full and partial beacons, is answered honestly and then with every alteration of a ~25-class alphabet (item field edits incl. '/' inserted and characters moved across adjacent fields, items moved / renamed / added / duplicated / dropped, sub-proofs swapped / re-keyed / detached / taken from another chain, whole ranges grafted from a forged chain, master proof or root or path nodes edited, characters moved between an item's leaf and a neighbouring proof node, latest block number / offset / certificate pointer edited); every Cardano stake distribution of <=3 pools over 7 ids x 5 stakes and 1-3-signer Mithril stake distributions get every edit incl. moving characters across the id/stake boundary. Each case runs through the real verify -> compute_*_message -> match_message path against an independent set-membership oracle: certified => every reported item is in the signed set under the one signed root with the signed block number and offset; verified distribution => equals the certified map; honest answers are certified whole. 435k (quick) / 7.7M (thorough) evaluations.",
        note="Honest proofs mirror the prover's steps (mithril-aggregator is not linked in this check) and every honest proof is asserted byte-equal to the real encoder. The certificate is trusted (C03 / C01). Chain hashes contain no '/'; certified pool ids do not begin with a digit; the Merkle layer itself is C09's subject.",
        design="§4 C11",
    ),
    "C12": dict(
        level="exploration",
        engine="mc-db",
        technique="bounded exhaustive differential enumeration on tmpfs over layouts, creation orders, extra-file placements, single-byte / single-file perturbations and cache histories of the real digester and signable builder",
        text="Every database of a small lattice (1-3 quick / 1-4 thorough trios, file sizes 0/1/5 bytes plus one 8193-byte chunk, first number 0 or 1) is written to tmpfs in every enumerated creation order (all 24 orders of the top-level groups, all permutations of the trio files for 1-2 trios, 1 trio + 3 extras, thorough: all 9! orders of 3 trios) and with 20 extra-file placements (root, immutable/, ledger/, volatile/, siblings, look-alike names, directories named like files), with files beyond the beacon, at every beacon, through three entry points (compute_merkle_tree without cache, CardanoDatabaseSignableBuilder with a memory cache, with the JSON cache) and three handed-in directories; put through every cache history of 3 (quick) / 4 (thorough) steps over {Merkle(b), Range(lo,hi), reset, reopen} with the memory and JSON caches; and perturbed in every single byte and file without cache. Identical covered content must give bit-identical roots; every covered change a different root; every uncovered change the same root. 571k (quick) / 12M (thorough) evaluations.",
        note="The reference is the real code's own cache-less answer on the canonical layout (differential oracle; SHA-256 and MKTree are not re-implemented, the sensitivity clauses guard against vacuity). tmpfs readdir order is a function of creation order; the run counts distinct listings and refuses a verdict if fewer than 720 appear for 6 files. Cache histories are over unchanged files only. Symlinks, a second 'immutable' directory found only by the fallback walk, unpadded or unparsable immutable-extension names are observations, not judged.",
        design="§4 C12",
    ),
    "C13": dict(
        level="model_checking",
        engine="mc-chain",
        technique="explicit-state exploration by replay of the real import stack (depth-bounded BFS with canonical-state de-duplication from four prepared states + deviation balls around a nominal schedule), differential against from-scratch imports",
        text="Every event history within the bound over chain growth (Advance 1/7/16), forks to structurally chosen points (tip-1, range boundaries and their neighbours, first stored block, before the first stored block / origin, and forks armed to happen in the middle of a scan), imports at tip / tip-5 / range-boundary targets, restarts, reconnects and pruning is executed on the real stack CardanoBlockScanner -> ChainReaderBlockStreamer -> CardanoChainDataImporter -> SignerCardanoChainDataRepository -> CardanoTransactionRepository on SQLite plus both transaction signable builders, for three roll-forward batch sizes; only the Cardano node is a double (a chain-sync server). After every import the block, transaction, range-root and legacy range-root tables, and the Merkle roots the builders return for all beacons, are compared with those of fresh nodes that import the canonical chain once. 14.6k histories / 5.3k states (quick), 152k histories / 43k states (thorough).",
        note="Trusted: the chain-sync double (find_intersect moves the read pointer when the point is on the chain, the next answer after an intersect or a fork below the pointer is RollBackward, otherwise RollForward / Await; stated in the evidence), SQLite, synthetic block content. The oracle is differential: a defect common to fresh and incremental import is invisible. Chains <= 50 blocks, targets <= tip, depth <= 3 / 4. States behind a table divergence are not extended. pallas itself is not run.",
        design="§4 C13",
    ),
    "C14": dict(
        level="model_checking",
        engine="mc-aggregator",
        technique="explicit-state exploration by replay of the real aggregator (depth-bounded BFS with canonical-state dedup from 3 prepared states, deviation balls around nominal schedules, one-preemption operation interleavings at cfg-guarded hook points)",
        text="The real aggregator (DependenciesBuilder container, AggregatorRuntime state machine, certifier, signer registerer, warp /register-signatures route, file-backed SQLite) is driven by an event alphabet (tick, epoch +1/+2, new immutable, registrations, honest/late/early-buffered/wrong-message/wrong-label signatures, expiry, restart). All histories up to a depth from three prepared states, all histories within 1 (thorough: also 2 on a core schedule) edit of nominal multi-epoch schedules, and every (hook-point occurrence x other operation) interleaving are replayed on a fresh node; after every event the database is checked: every stored certificate verifies to genesis under mithril-common's client verifier, was sealed on a quorum of valid signatures of the signers the reference offset rule registers for that epoch, carries that epoch's aggregate key and parameters, links to the first certificate of its epoch / of the preceding epoch, no entity is certified twice, and no certificate is sealed for an open message that had already expired when the sealing cycle began. Honest signers sign with the signer lists the aggregator announces (as real signer nodes do) and the stakes of their own chain view; the invariants use the registrations the harness saw accepted (reference offset rule). Every history is followed by closing rounds (signers resubmit, the machine keeps cycling) with the invariants evaluated after every event. A family of 64 (thorough: 256) histories varies who registers in each epoch (all / a subset, with or without a late registration naming the closed round). A second world signs the Mithril and Cardano stake distributions (the entity whose beacon epoch differs from the epoch it is signed in) and is explored in the 1-deviation ball of its nominal schedule.",
        note="Cardano node, digester, uploader are the repository's test doubles; keys from deterministic fixtures; 3 signers whose stakes differ in every epoch (shares constant); MithrilStakeDistribution + CardanoDatabase entity types (second world: MithrilStakeDistribution + CardanoStakeDistribution; third: default configuration with the operator restarting the node with other protocol parameters, checked against a write-once reference model of the epoch settings); interleavings only at declared hook points, whole operations, one preemption; follower mode not explored. STM signature validity itself is C01's subject.",
        design="§4 C14, §5",
    ),
    "C15": dict(
        level="fault_enumeration",
        engine="mc-aggregator",
        technique="exhaustive crash-cut enumeration on the real aggregator: every occurrence of every persistence hook point along a schedule armed once (thorough: 1-deviation schedules and repeated crashes), node dropped and rebuilt on the same SQLite files",
        text="A recording run lists every occurrence of the eight persistence points (single-signature insert, certificate insert, open-message update, end of create_certificate, artifact compute/store/after-store, buffered hand-over). Each is armed once as a crash: the operation parks there, the whole node is dropped and rebuilt on the same database, then two closing environments run (each starts with two cycles before any signer sends again), each on its own copy of the cut: signers that resubmit every cycle, and honest signers that send each signature until it was acknowledged once (acting on the epoch the node serves); a new immutable and a new epoch follow. Every cut is run in two worlds: MithrilStakeDistribution + CardanoDatabase, and the default configuration (MithrilStakeDistribution only, where a lost round is an epoch gap), the latter also on a schedule in which every signature of a round arrives before its open message exists (buffered, then handed over). After every step: every certificate verifies with its chain, at most one artifact per entity, every artifact references a stored certificate of exactly that entity; the restarted node must not panic by itself while resuming (a panic is handled as a further crash and restart); before the closing environment's epoch change the round of the later immutable beacon of the crash epoch, and at the end the rounds of the next epoch, must be certified with artifacts. Thorough adds the 1-deviation ball of the schedule and second crashes after every first one.",
        note="A crash is the loss of everything after an await point between persistence statements; torn pages / power loss are not modelled. An entity certified twice after a crash between certificate insert and open-message update is reported as an observation (C15 does not forbid it).",
        design="§4 C15, §5",
    ),
    "C16": dict(
        level="model_checking",
        engine="mc-aggregator",
        technique="exhaustive enumeration of all submission sequences up to length L over (label x signing key x index-list variant x route) on the real aggregator from two prepared states, database inspected after every step",
        text="From 'open message exists' and 'not yet open (buffered path)', each also with a next-epoch signer set that differs from the current one (two of three parties, fresh keys), all sequences of <= 2 submissions over {party label j} x {signature made by i} x {index variant, incl. a signature made under the next epoch's registration and a genuine signature of the party on another message of the epoch} x {HTTP route, message-queue processor}, and every adversarial submission at every position among the three honest ones (thorough: in every honest order), are replayed on the real aggregator, then the cycles that seal a certificate run. Further worlds and routes: three uncertified parties with textually nested ids (1, 10, 11); the message queue as the aggregator wires it (processor <- SignatureConsumerDmq <- real DmqConsumerClientDeduplicator, all sequences of <= 2 publications). After each step every single_signature row must verify under the key its party registered, a recorded contribution must not lose indexes, a contribution answered 'buffered' must be recorded once the open message exists, no signature may sit under two names, an accepted honest contribution must survive, a mismatching label must be refused by the HTTP route, and the certificate's signer list may name only parties whose own key signed.",
        note="Party keys are the deterministic fixtures; 'verifies under the party's key' uses mithril-stm single-signature verification with that party's key and stake given explicitly (C01 checks that function). The announced won-index list is informational.",
        design="§4 C16",
    ),
    "C17": dict(
        level="exploration",
        engine="mc-common",
        technique="exhaustive small-scope input enumeration of the real function (dense lattice + u64 boundaries) against a u128 oracle",
        text="Every (tip, security parameter, step) triple of a dense lattice (quick: tip<=400, sec<=80, step<=95; thorough: tip<=1500, sec<=200, step<=240) and every combination of u64 boundary values is pushed through the real SignedEntityConfig for both block-number entities and through a config rebuilt from its JSON form; margin, monotonicity over all successive tips, whole-step moves, block-range alignment and agreement are checked on every one. The property is a pure function of three integers, so a complete sweep of the small scope plus boundaries is the right level.",
        note="Range length 15 is taken as the protocol constant. Panics caused only by overflow-checks for operands above 2^63 are reported as observations.",
        design="§4 C17",
    ),
    "C18": dict(
        level="model_checking",
        engine="mc-pool",
        technique="bounded exhaustive history enumeration by replay on the real crate + loom controlled-scheduler exploration (DPOR, preemption bound 2 quick / 3 thorough) of the same source file compiled against loom::sync",
        text="Two complementary bounded-exhaustive parts on the real pool code. Every operation sequence (acquire, the three ways of giving back, the refresher's individual pool calls in the order compute_cache performs them - extracted from prover.rs at build time -, third-party give-back, reset) up to length 7 (quick) / 8-9 (thorough) on pools of size 1-2 / 1-3 is executed on the crate and judged against a reference that tracks the birth generation of every resource (224k / 3.9M histories). Every thread interleaving up to 2 / 3 preemptions of resource_pool.rs compiled against loom::sync (only the Mutex/Condvar import is rewritten, exact-match-or-fail) is executed for proof computations overlapping a refresh, concurrent give-backs, and waiters on an empty pool (48 / 67 scenarios, 58k / 2M executions). Within those bounds no execution serves or re-admits a superseded resource after a refresh completed, overfills the pool, or loses a wake-up.",
        note="Trusted: loom's model of Mutex/Condvar and its bounded search. loom never times out, so the time-out branch is exercised only sequentially, and concurrently a deadlock stands for a lost wake-up. Memory orderings are moot (mutexes only). A resource handed out while a refresh is still in progress may be of the previous generation (weakest reading). One refresher at a time.",
        design="§4 C18",
    ),
    "C19": dict(
        level="fault_enumeration",
        engine="mc-restore",
        technique="bounded exhaustive fault and input enumeration on the real client download_unpack (real file:// HTTP downloader, tar+zstd/gzip unpacker, ancillary verifier, clean-up, marker creation) with complete before/after recursive directory listings",
        text="Every configuration of a small lattice (range x ancillary option x target pre-state x compression x ledger layout; 6 quick / 48 thorough) is combined with every single alteration (thorough: every compatible pair on three configurations) of what a mirror can serve: 42 kinds of extra entries in immutable archives (ledger/, volatile/, root, marker names, nested and ../ and absolute paths, directories, symlinks and hard links, immutable numbers 0..5) at each position, 20 in the ancillary archive, every honest entry removed / tampered / served as a link, 12 manifest alterations (hash changed, entries removed / merged / added, signature removed / altered / by another key, manifest missing / garbage / duplicated), stream cuts after and inside every entry, truncated and missing archives, and a directory or file in the way of each listed ancillary file. Each case runs through the real Client::cardano_database_v2().download_unpack; the verdict compares complete recursive listings of target, an outside victim directory and the mirror before and after against an independently stated allowed set (trios of the requested range, files vouched with matching SHA-256 by the manifest the harness really signed, the two bootstrap markers), never the return value; an honest download must restore everything. 1475 (quick) / 46,834 (thorough) downloads.",
        note="max_parallel_downloads = 1 for altered cases, so the abort race between concurrently unpacking archives is not enumerated; one location per archive (no second-mirror fallback); runs as root (no permission faults); beacon 3, 700-byte files; tar / zstd / flate2 are part of the code under test; bytes of immutable files are C10's business; the manifest key is the harness's (real Ed25519).",
        design="§4 C19",
    ),
    "C20": dict(
        level="model_checking",
        engine="mc-signer",
        technique="explicit-state exploration by replay (depth-bounded BFS with canonical-state de-duplication, edit-distance balls around a nominal multi-epoch schedule, fault / restart differential) of the real signer node against an in-process reference aggregator",
        text="Every transition is a call of the real StateMachine::cycle on the real SignerRunner, services and file-backed SQLite stores, assembled as the repository's StateMachineTester does. All histories over a 17-event alphabet (aggregator one epoch ahead of the node / node catches up, tick, epoch and chain progress, aggregator down / stale settings / registration round closed, partial registration of other signers, lost publish and registration acknowledgements, restart) are run up to depth 3 (quick) / 4 (thorough) from 3 / 4 prepared states, all single deviations of a 4-epoch / 5-epoch nominal schedule, and in thorough all pairs of faults; runs with a restart or a lost acknowledgement at every position, and runs with a one-cycle transient aggregator fault (round closed, aggregator down, stale settings, lost registration acknowledgement; thorough: two cycles, and with a restart inside the fault) at every position, must end with exactly the acknowledged publications of the uninterrupted run. Every published signature is judged on the spot by an independent reference aggregator that applies 'registered in e, recorded for e+1, signs in e+2' with its own constants to keys, stake distribution and parameters (all of which change every epoch) and verifies it with mithril-common's MultiSigner; at most one acknowledged publication per (epoch, entity, beacon); nothing published before keys registered two epochs earlier exist; after faults clear the signer signs again. 3040 replays / 1108 states (quick), 28k replays / 5.7k states (thorough).",
        note="The Cardano node is the repository's test doubles; the aggregator is the harness reference called in process (HTTP client, message adapters and the publisher retry chain are not exercised). The aggregator's clock is the node epoch plus a skew of 0 or 1 (AggAhead / NodeCatchUp events); a publication is judged by the epoch of its entity; liveness is demanded only after the node has caught up and faults are cleared. Epoch changes may happen inside a cycle (after any of its node queries: TickTurn events); new immutable files / blocks and aggregator-side faults happen between cycles; no mid-cycle crashes. Two stake worlds (all stakes change every epoch; own stake constant) - the aggregator-ahead window family runs in the second. Signer keys come from the OS RNG, canonical states abstract key bytes. Only acknowledged publications count for 'once'. Trusted: mithril_common::protocol::SignerBuilder / MultiSigner and mithril-stm for verification (C01 / C16). <= 5 (+3 tail) epochs, 3 signers.",
        design="§4 C20",
    ),
}

NOT_YET = "check not built yet (work in progress; see DESIGN.md §8 build order)"

ENGINES = [
    dict(name="mc-core", path="harness/mc-core", serves_properties=[], kind_free_text="shared engine: enumerators, explicit-state explorer by replay (depth BFS + deviation balls, canonical-state dedup, determinism probes), subprocess isolation runner, evidence/known-finding reporting"),
]


def main():
    props = [json.loads(l)["id"] for l in open(os.path.join(VERIF, "properties.jsonl"))]
    checks = []
    for pid in props:
        c = CHECKS.get(pid)
        if not c:
            continue
        checks.append({
            "property_id": pid,
            "quick_cmd": f"./check {pid} quick",
            "thorough_cmd": f"./check {pid} thorough",
            "evidence_file": f"/verif/evidence/{pid}.json",
            "replay_cmd_template": f"./check {pid} quick --replay {{path}}",
            "engine": c["engine"],
            "level_claimed": {"category": c["level"], "text": c["text"], "design_ref": c["design"]},
            "level_note": c["note"],
            "technique": c["technique"],
        })
    na = [{"property_id": p, "reason": NOT_YET} for p in props if p not in CHECKS]
    hooks_commits = []
    hc = os.path.join(VERIF, "hook_commits.txt")
    if os.path.exists(hc):
        hooks_commits = [l.strip() for l in open(hc) if l.strip()]
    man = {
        "version": 1,
        # one package at a time, exactly as ./check builds them: a --workspace build would unify cargo
        # features across the harness crates (mc-aggregator enables mithril-common's
        # allow_skip_signer_certification for its uncertified-parties world; C07 part 1 must not see it)
        "setup_cmd": "cd /verif/harness && for p in mc-common mc-stm mc-lottery mc-merkle mc-decode mc-chaincert mc-avk mc-dbverify mc-restore mc-proofs mc-db mc-chain mc-pool mc-signer mc-aggregator; do CARGO_NET_OFFLINE=true CARGO_TARGET_DIR=/verif/target cargo build --offline -q -p $p --bin $p 2>&1 | tail -n 3; done",
        "hooks": {
            "guard": "cargo feature `verif_hooks` of mithril-aggregator (off by default)",
            "enable": "harness crate mc-aggregator depends on mithril-aggregator with features=[\"verif_hooks\"]; nothing else enables it",
            "baseline_off_cmd": "cd /repo && cargo nextest run --workspace --no-fail-fast --test-threads 8 --offline || cargo test --workspace --no-fail-fast --offline",
            "source_commits": hooks_commits,
            "add_only": True,
        },
        "engines": ENGINES,
        "checks": checks,
        "not_applicable": na,
        "notes": "All checks are bounded exhaustive enumerations executed on the real code (path dependencies on /repo). ./check exits 2 (no verdict) when the machinery itself fails. See DESIGN.md.",
    }
    json.dump(man, open(os.path.join(VERIF, "MANIFEST.json"), "w"), indent=1)
    try:
        r = subprocess.run(["python3-vt", "-c", "import json,jsonschema;jsonschema.validate(json.load(open('%s/MANIFEST.json')),json.load(open('/root/.vp/MANIFEST.schema.json')));print('manifest valid')" % VERIF])
    except Exception as e:
        print("not validated:", e)


if __name__ == "__main__":
    main()
