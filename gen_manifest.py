#!/usr/bin/env python3
"""Regenerates /verif/MANIFEST.json from the table below (one place to keep it current)."""
import json, os, subprocess

VERIF = os.path.dirname(os.path.abspath(__file__))

# id -> dict(level, technique, text, note, design, engine)   (only properties whose check exists)
CHECKS = {
    "C04": dict(
        level="exploration",
        engine="mc-common",
        technique="bounded exhaustive input enumeration (certificate grammar x every single-field change; all protocol messages over <=3 keys; every JSON re-serialisation; every U8F24 rounding boundary of phi_f) on the real hashing, conversion and JSON code",
        text="Every certificate of an explicit grammar (genesis and all five signed entity types, u64 extremes, signer-list shapes, timestamps down to the nanosecond and at both i64 ends, adversarial strings) is paired with every single-field change from per-field alphabets and hashed by the real try_compute_hash; all of them, plus a really signed chain and tamperings of it, are sent through CertificateMessage and eleven JSON re-serialisations back to a certificate, comparing hash, signed message and verify_certificate outcome; all 1e5-1e6 protocol messages over at most 3 keys and an honest value alphabet are bucketed by digest; every U8F24 rounding boundary of phi_f in [0,1) with its f64 neighbours goes through JSON. The verdict is 'no element of this enumerated space violates the oracle'.",
        note="Single-field changes only; one deterministic key/signature set; ancillary data only absent (uninhabited without future_snark); protocol-message values from the honest hex/decimal grammar; phi_f changes required to show only at >= one U8F24 unit independent of rounding convention. Trusted: sha2, chrono, serde_json as parser of the harness emitter, chain-builder fixtures.",
        design="§4 C04",
    ),
    "C07": dict(
        level="exploration",
        engine="mc-common",
        technique="bounded exhaustive input enumeration on the real registration code: all A/B component splices, radius-1/2 deviation balls around honest registrations, the full signing-evolution x announced-evolution rectangle, judged by a reference written with ed25519-dalek / kes-summed-ed25519 / blake2 / blst only",
        text="Every registration of an explicitly generated finite space is executed on the real mithril-common / mithril-stm registration code (ProtocolKeyRegistration::register, the call sequence of the aggregator's MithrilSignerRegistrationVerifier, SignerBuilder::new) and judged by an independent reference: accepted => opcert signed by the cold key, KES signature over the key under the certified KES key within +-1 of the announced evolution and inside [0,64), valid proof of possession, pool id = blake2b-224(cold key) in the stake distribution, key not yet registered, party id derived from the cold key, recorded stake = the distribution's value; plus completeness on honest and signer-produced registrations. The space holds all splices of 10 components of two pools, all single and pairwise deviations from 10 honest bases for an outsider and for a re-signing pool operator, all 64x79 evolution pairs, 11 stake distributions and registration sequences up to length 3.",
        note="Trusted base: ed25519-dalek non-strict verify, kes-summed-ed25519 at evolutions 0..=63, blake2, blst pairings, own bech32 encoder. The aggregator crate is not linked in this check: its verifier call sequence is mirrored (stated in the evidence); observations about the aggregator route (unverified evolutions stored, duplicate key across pools not refused at acceptance, homomorphic PoP) are reported in the evidence as observations.",
        design="§4 C07",
    ),
    "C08": dict(
        level="exploration",
        engine="mc-lottery",
        technique="small-scope input enumeration of the real is_lottery_won (working-tree eligibility.rs by source inclusion) and of the public signer/verifier path, against an exact interval-arithmetic oracle with a proved bracket",
        text="Every (phi_f, total, stake, draw) of an explicit lattice (0.43M cases quick, 4.2M thorough: 14-28 phi_f values incl. next to 0 and 1, every stake of totals <= 10-12 plus totals 1000, 45e15, 2^64-1, draws 0, 1, 2^512-1, a uniform grid and T -/+ j*2^s from one unit in the 512th bit out past the band edge around the exact threshold T of every stake) is decided by the working tree's is_lottery_won and compared with an independent fixed-point interval evaluation of 1-(1-phi_f)^(stake/total) whose bracket is below 2^-560; stake-ascending and draw-descending chains are judged on the implementation's own decisions, determinism by re-evaluation, and signer/verifier agreement index by index through the public API. The domain is a continuum, so the claim holds for the lattice, which is concentrated where a wrong bound changes outcomes.",
        note="Trusted: mc-ref::lottery (unit-tested), num-bigint, blake2. Only the num-integer back end is compiled (rug not available offline). Band 2^-44*min(1, 2*max(w, x)), >= 256x the error implied by the f64 ln in the implementation. phi_f = 1 with stake = 0 is contradictory in the property and excluded.",
        design="§4 C08",
    ),
    "C14": dict(
        level="model_checking",
        engine="mc-aggregator",
        technique="explicit-state exploration by replay of the real aggregator (depth-bounded BFS with canonical-state dedup from 3 prepared states, deviation balls around nominal schedules, one-preemption operation interleavings at cfg-guarded hook points)",
        text="The real aggregator (DependenciesBuilder container, AggregatorRuntime state machine, certifier, signer registerer, warp /register-signatures route, file-backed SQLite) is driven by an event alphabet (tick, epoch +1/+2, new immutable, registrations, honest/late/early-buffered/wrong-message/wrong-label signatures, expiry, restart). All histories up to a depth from three prepared states, all histories within 1 (thorough: also 2 on a core schedule) edit of nominal multi-epoch schedules, and every (hook-point occurrence x other operation) interleaving are replayed on a fresh node; after every event the database is checked: every stored certificate verifies to genesis under mithril-common's client verifier, was sealed on a quorum of valid signatures of the signers the reference offset rule registers for that epoch, carries that epoch's aggregate key and parameters, links to the first certificate of its epoch / of the preceding epoch, and no entity is certified twice.",
        note="Cardano node, digester, uploader are the repository's test doubles; keys from deterministic fixtures; 3 signers; MithrilStakeDistribution + CardanoDatabase entity types; interleavings only at declared hook points, whole operations, one preemption; follower mode not explored. STM signature validity itself is C01's subject.",
        design="§4 C14, §5",
    ),
    "C15": dict(
        level="fault_enumeration",
        engine="mc-aggregator",
        technique="exhaustive crash-cut enumeration on the real aggregator: every occurrence of every persistence hook point along a schedule armed once (thorough: 1-deviation schedules and repeated crashes), node dropped and rebuilt on the same SQLite files",
        text="A recording run lists every occurrence of the eight persistence points (single-signature insert, certificate insert, open-message update, end of create_certificate, artifact compute/store/after-store, buffered hand-over). Each is armed once as a crash: the operation parks there, the whole node is dropped and rebuilt on the same database, then a fair closing environment (signers resubmit every cycle, a new immutable, a new epoch) runs. After every step: every certificate verifies with its chain, at most one artifact per entity, every artifact references a stored certificate of exactly that entity; at the end the later rounds must be certified with artifacts. Thorough adds the 1-deviation ball of the schedule and second crashes after every first one.",
        note="A crash is the loss of everything after an await point between persistence statements; torn pages / power loss are not modelled. An entity certified twice after a crash between certificate insert and open-message update is reported as an observation (C15 does not forbid it).",
        design="§4 C15, §5",
    ),
    "C16": dict(
        level="model_checking",
        engine="mc-aggregator",
        technique="exhaustive enumeration of all submission sequences up to length L over (label x signing key x index-list variant x route) on the real aggregator from two prepared states, database inspected after every step",
        text="From 'open message exists' and 'not yet open (buffered path)', all sequences of <= 2 submissions over {party label j} x {signature made by i} x {index variant} x {HTTP route, message-queue processor}, and every adversarial submission at every position among the three honest ones (thorough: in every honest order), are replayed on the real aggregator, then the cycles that seal a certificate run. After each step every single_signature row must verify under the key its party registered, no signature may sit under two names, an accepted honest contribution must survive, a mismatching label must be refused by the HTTP route, and the certificate's signer list may name only parties whose own key signed.",
        note="Party keys are the deterministic fixtures; 'verifies under the party's key' uses mithril-stm single-signature verification with that party's key and stake given explicitly (C01 checks that function). The announced won-index list is informational.",
        design="§4 C16",
    ),
    "C17": dict(
        level="exploration",
        engine="mc-common",
        technique="exhaustive small-scope input enumeration of the real function (dense lattice + u64 boundaries) against a u128 oracle",
        text="Every (tip, security parameter, step) triple of a dense lattice (quick: tip<=400, sec<=80, step<=95; thorough: tip<=1500, sec<=200, step<=240) and every combination of u64 boundary values is pushed through the real SignedEntityConfig for both block-number entities and through a config rebuilt from its JSON form; margin, monotonicity over all successive tips, whole-step moves, block-range alignment and agreement are checked on every one. The property is a pure function of three integers, so a complete sweep of the small scope plus boundaries is the right level.",
        note="Range length 15 is taken as the protocol constant. Panics caused only by overflow-checks for operands above 2^63 are reported as observations.",
        design="§4 C17",
    ),
}

NOT_YET = "check not built yet (work in progress; see DESIGN.md §8 build order)"

ENGINES = [
    dict(name="mc-core", path="harness/mc-core", serves_properties=[], kind_free_text="shared engine: enumerators, explicit-state explorer by replay (depth BFS + deviation balls, canonical-state dedup, determinism probes), subprocess isolation runner, evidence/known-finding reporting"),
]


def main():
    props = [json.loads(l)["id"] for l in open(os.path.join(VERIF, "properties.jsonl"))]
    checks = []
    for pid in props:
        c = CHECKS.get(pid)
        if not c:
            continue
        checks.append({
            "property_id": pid,
            "quick_cmd": f"./check {pid} quick",
            "thorough_cmd": f"./check {pid} thorough",
            "evidence_file": f"/verif/evidence/{pid}.json",
            "replay_cmd_template": f"./check {pid} quick --replay {{path}}",
            "engine": c["engine"],
            "level_claimed": {"category": c["level"], "text": c["text"], "design_ref": c["design"]},
            "level_note": c["note"],
            "technique": c["technique"],
        })
    na = [{"property_id": p, "reason": NOT_YET} for p in props if p not in CHECKS]
    hooks_commits = []
    hc = os.path.join(VERIF, "hook_commits.txt")
    if os.path.exists(hc):
        hooks_commits = [l.strip() for l in open(hc) if l.strip()]
    man = {
        "version": 1,
        "setup_cmd": "cd /verif/harness && CARGO_NET_OFFLINE=true CARGO_TARGET_DIR=/verif/target cargo build --offline --workspace --bins 2>&1 | tail -n 5",
        "hooks": {
            "guard": "cargo feature `verif_hooks` of mithril-aggregator (off by default)",
            "enable": "harness crate mc-aggregator depends on mithril-aggregator with features=[\"verif_hooks\"]; nothing else enables it",
            "baseline_off_cmd": "cd /repo && cargo nextest run --workspace --no-fail-fast --test-threads 8 --offline || cargo test --workspace --no-fail-fast --offline",
            "source_commits": hooks_commits,
            "add_only": True,
        },
        "engines": ENGINES,
        "checks": checks,
        "not_applicable": na,
        "notes": "All checks are bounded exhaustive enumerations executed on the real code (path dependencies on /repo). ./check exits 2 (no verdict) when the machinery itself fails. See DESIGN.md.",
    }
    json.dump(man, open(os.path.join(VERIF, "MANIFEST.json"), "w"), indent=1)
    try:
        r = subprocess.run(["python3-vt", "-c", "import json,jsonschema;jsonschema.validate(json.load(open('%s/MANIFEST.json')),json.load(open('/root/.vp/MANIFEST.schema.json')));print('manifest valid')" % VERIF])
    except Exception as e:
        print("not validated:", e)


if __name__ == "__main__":
    main()
