//! C02 — aggregation completeness and monotonicity under extra or repeated signatures.
//!
//! Explicit enumeration of *all sequences* (every multiset in every order) of single signatures
//! up to a length bound over an alphabet derived from the honest signatures of a small closed
//! registration: the honest signatures, index-subset restrictions of them, a copy listing an
//! index twice, copies re-labelled with another / an unregistered signer slot, copies with a
//! well-formed but wrong sigma, copies carrying a lost or out-of-range index and signatures on
//! another message. Every element travels through its wire encodings before it is handed to the
//! real aggregator (`Clerk::aggregate_signatures_with_type`, and for part of the lattice
//! `mithril_common::protocol::MultiSigner::aggregate_single_signatures`); every produced aggregate
//! travels through its encodings before it is verified with `AggregateSignature::verify`.
//!
//! Oracle: V = members valid by the reference single-signature check (blst, Blake2b dense mapping,
//! exact lottery of `mc-ref`), U = union of their indices. (1) honest signatures verify;
//! (2) |U| ≥ k ⇒ aggregation succeeds and the result verifies; (3) inserting one more element
//! anywhere into a sequence that aggregates and verifies still aggregates and verifies.

use std::collections::{BTreeMap, BTreeSet, HashMap};
use std::sync::Mutex;

use mc_core::{Ctx, Report, Tier, par_map};
use mithril_common::{
    crypto_helper::{ProtocolKey, ProtocolMultiSignature},
    entities::{ProtocolMessage, ProtocolMessagePartKey, ProtocolParameters, SingleSignature as EntitySingleSignature},
    protocol::{MultiSigner, SignerBuilder, ToMessage},
    test::builder::{MithrilFixture, MithrilFixtureBuilder, StakeDistributionGenerationMethod},
};
use mithril_stm::{
    AggregateSignature, AggregateSignatureType, AggregateVerificationKey, AncillaryGenesisData, AncillaryProofInput, Parameters,
    SingleSignature, VerificationKeyForConcatenation,
};
use serde_json::{Value, json};

use crate::world::*;

// ---------------------------------------------------------------------------------------------
// a scene: one closed registration, one message, one route into the aggregator
// ---------------------------------------------------------------------------------------------

type AggFn<'a> = Box<dyn Fn(&[SingleSignature]) -> Result<AggregateSignature<D>, String> + Sync + Send + 'a>;
type VerFn<'a> = Box<dyn Fn(&AggregateSignature<D>) -> Result<(), String> + Sync + Send + 'a>;
/// real single-signature verification for the party registered at the signature's slot
type SingleFn<'a> = Box<dyn Fn(&SingleSignature) -> Result<(), String> + Sync + Send + 'a>;

struct Scene<'a> {
    route: &'static str,
    cfg: Cfg,
    view: View,
    msg: Vec<u8>,
    honest: Vec<Option<CSig>>,
    honest_other: Vec<Option<CSig>>,
    aggregate: AggFn<'a>,
    verify: VerFn<'a>,
    single_verify: SingleFn<'a>,
    /// verdict of every distinct aggregate value produced in this scene (verification is a pure
    /// function of the value: each distinct value is decoded and verified once per wire form)
    verified: Mutex<HashMap<String, (bool, String)>>,
}

fn stm_scene<'a>(w: &'a World, msg: &[u8], other: &[u8]) -> Scene<'a> {
    let n = w.parties.len();
    let m1 = msg.to_vec();
    let m2 = msg.to_vec();
    let m3 = msg.to_vec();
    Scene {
        route: "stm-clerk",
        cfg: w.cfg.clone(),
        view: w.view.clone(),
        msg: msg.to_vec(),
        honest: (0..n).map(|i| w.honest(i, msg)).collect(),
        honest_other: (0..n).map(|i| w.honest(i, other)).collect(),
        aggregate: Box::new(move |sigs| w.aggregate(sigs, &m1)),
        verify: Box::new(move |a| w.verify(a, &m2)),
        single_verify: Box::new(move |s| {
            let Some(p) = w.view.party_by_slot(s.signer_index) else { return Err("unregistered slot".into()) };
            let vk = VerificationKeyForConcatenation::from_bytes(&p.0).map_err(|e| format!("{e:#}"))?;
            match mc_core::catch(|| s.verify::<D>(&w.params, &vk, &p.1, &w.avk, &m3)) {
                Ok(Ok(())) => Ok(()),
                Ok(Err(e)) => Err(format!("{e:#}")),
                Err(p) => Err(format!("panic: {p}")),
            }
        }),
        verified: Mutex::new(HashMap::new()),
    }
}

/// the mithril-common layer: certified fixture signers, `SignerBuilder`, `MultiSigner`
struct CommonWorld {
    cfg: Cfg,
    fixture: MithrilFixture,
    multi_signer: MultiSigner,
    avk: AggregateVerificationKey<D>,
    params: Parameters,
    view: View,
}

fn protocol_messages() -> (ProtocolMessage, ProtocolMessage) {
    let mut a = ProtocolMessage::new();
    a.set_message_part(ProtocolMessagePartKey::SnapshotDigest, "digest-A".to_string());
    let mut b = ProtocolMessage::new();
    b.set_message_part(ProtocolMessagePartKey::SnapshotDigest, "digest-B".to_string());
    (a, b)
}

impl CommonWorld {
    /// Err: the honest path of the real API (fixture registration, SignerBuilder) fails or panics
    fn try_build(cfg: &Cfg) -> Result<CommonWorld, String> {
        let cfg2 = cfg.clone();
        match mc_core::catch(move || CommonWorld::build_inner(&cfg2)) {
            Ok(r) => r,
            Err(p) => Err(format!("panic: {p} at {}", mc_core::last_panic_location())),
        }
    }

    fn build_inner(cfg: &Cfg) -> Result<CommonWorld, String> {
        let pp = ProtocolParameters::new(cfg.k, cfg.m, cfg.phi_f);
        // first pass creates the certified parties (operational certificates) and tells their ids
        let ids: Vec<String> = MithrilFixtureBuilder::default()
            .with_signers(cfg.n)
            .with_protocol_parameters(pp.clone())
            .with_stake_distribution(StakeDistributionGenerationMethod::Uniform(7))
            .build()
            .signers_fixture()
            .iter()
            .map(|s| s.signer_with_stake.party_id.clone())
            .collect();
        let dist: BTreeMap<String, u64> = ids.iter().cloned().zip(cfg.stakes.iter().copied()).collect();
        let fixture = MithrilFixtureBuilder::default()
            .with_signers(cfg.n)
            .with_protocol_parameters(pp.clone())
            .with_stake_distribution(StakeDistributionGenerationMethod::Custom(dist))
            .build();
        let multi_signer = SignerBuilder::new(&fixture.signers_with_stake(), &pp).map_err(|e| format!("SignerBuilder::new on certified signers: {e:#}"))?.build_multi_signer();
        let avk = multi_signer.compute_aggregate_verification_key();
        let j = serde_json::to_value(avk.to_concatenation_aggregate_verification_key()).map_err(|e| format!("aggregate key has no JSON form: {e}"))?;
        let root: Vec<u8> = j["mt_commitment"]["root"]
            .as_array()
            .and_then(|a| a.iter().map(|x| x.as_u64().and_then(|n| u8::try_from(n).ok())).collect::<Option<Vec<u8>>>())
            .ok_or("no Merkle root in the JSON form of the aggregate key")?;
        let parties: Vec<(Vec<u8>, u64, u64)> = fixture
            .signers_fixture()
            .iter()
            .map(|s| {
                (
                    s.signer_with_stake.verification_key_for_concatenation.vk.to_bytes().to_vec(),
                    s.signer_with_stake.stake,
                    s.protocol_signer.signer_index,
                )
            })
            .collect();
        let total = parties.iter().map(|p| p.1).sum();
        let view = View { label: format!("common:{}", cfg.label()), m: cfg.m, k: cfg.k, phi_f: cfg.phi_f, total, root, parties };
        Ok(CommonWorld { cfg: cfg.clone(), fixture, multi_signer, avk, params: Parameters { m: cfg.m, k: cfg.k, phi_f: cfg.phi_f }, view })
    }

    fn honest(&self, pm: &ProtocolMessage) -> Vec<Option<CSig>> {
        self.fixture
            .signers_fixture()
            .iter()
            .zip(self.view.parties.iter())
            .map(|(s, p)| mc_core::catch(|| s.sign(pm)).ok().flatten().and_then(|e| single_to_csig(&e.to_protocol_signature(), &p.0, p.1)))
            .collect()
    }

    fn entity(&self, s: &SingleSignature) -> EntitySingleSignature {
        let party = self
            .fixture
            .signers_fixture()
            .iter()
            .find(|f| f.protocol_signer.signer_index == s.signer_index)
            .map(|f| f.signer_with_stake.party_id.clone())
            .unwrap_or_else(|| "pool1unknownparty".to_string());
        // the wire form of a single signature in mithril-common: JSON-hex protocol key
        let key = ProtocolKey::new(s.clone());
        let key = key.to_json_hex().ok().and_then(|h| ProtocolKey::<SingleSignature>::from_json_hex(&h).ok()).unwrap_or(key);
        EntitySingleSignature::new(party, key, s.get_concatenation_signature_indices())
    }

    fn scene<'a>(&'a self, pm: &ProtocolMessage, other: &ProtocolMessage) -> Scene<'a> {
        let msg = pm.to_message().as_bytes().to_vec();
        let (pm1, pm2) = (pm.clone(), pm.clone());
        let m2 = msg.clone();
        Scene {
            route: "common-multi-signer",
            cfg: self.cfg.clone(),
            view: self.view.clone(),
            msg,
            honest: self.honest(pm),
            honest_other: self.honest(other),
            aggregate: Box::new(move |sigs| {
                let entities: Vec<EntitySingleSignature> = sigs.iter().map(|s| self.entity(s)).collect();
                match mc_core::catch(|| {
                    self.multi_signer.aggregate_single_signatures(
                        &entities,
                        &pm1,
                        AggregateSignatureType::Concatenation,
                        AncillaryProofInput::new(None, AncillaryGenesisData::new()),
                    )
                }) {
                    Ok(Ok(m)) => {
                        let ms: ProtocolMultiSignature = m.multi_signature;
                        let ms = ms.to_json_hex().ok().and_then(|h| ProtocolMultiSignature::from_json_hex(&h).ok()).unwrap_or(ms);
                        Ok(ms.into_inner())
                    }
                    Ok(Err(e)) => Err(format!("{e:#}")),
                    Err(p) => Err(format!("panic: {p} at {}", mc_core::last_panic_location())),
                }
            }),
            verify: Box::new(move |a| match mc_core::catch(|| a.verify(&m2, &self.avk, &self.params, None, None)) {
                Ok(Ok(())) => Ok(()),
                Ok(Err(e)) => Err(format!("{e:#}")),
                Err(p) => Err(format!("panic: {p}")),
            }),
            single_verify: Box::new(move |s| match mc_core::catch(|| self.multi_signer.verify_single_signature(&pm2, &self.entity(s))) {
                Ok(Ok(())) => Ok(()),
                Ok(Err(e)) => Err(format!("{e:#}")),
                Err(p) => Err(format!("panic: {p}")),
            }),
            verified: Mutex::new(HashMap::new()),
        }
    }
}

// ---------------------------------------------------------------------------------------------
// alphabet
// ---------------------------------------------------------------------------------------------

#[derive(Clone, Debug, PartialEq)]
enum Validity {
    /// valid by the reference check; the indices it contributes
    Valid(BTreeSet<u64>),
    Invalid(String),
    Unknown,
}

struct El {
    name: String,
    csig: CSig,
    sig: SingleSignature,
    validity: Validity,
    small: bool,
}

/// JSON text, then the versioned bytes. Ok((value, legacy layout decodes to the same value?))
fn wire(s: &CSig) -> Result<(SingleSignature, bool), String> {
    let a = decode_single_json(s).map_err(|e| format!("JSON form does not decode: {e}"))?;
    let b = mc_core::catch(|| a.to_bytes()).map_err(|p| format!("to_bytes panics: {p}"))?.map_err(|e| format!("to_bytes fails: {e:#}"))?;
    let a2 = decode_single_bytes(&b).map_err(|e| format!("its own bytes do not decode: {e}"))?;
    let legacy_same = match decode_single_bytes(&s.single_legacy()) {
        Ok(a3) => serde_json::to_value(&a3).ok() == serde_json::to_value(&a2).ok(),
        Err(_) => false,
    };
    Ok((a2, legacy_same))
}

/// the alphabet, and the honest signatures that do not survive their own wire encodings
fn alphabet(sc: &Scene, r: &Reference) -> (Vec<El>, Vec<(String, String)>) {
    let mut lost: Vec<(String, String)> = vec![];
    let n = sc.view.parties.len() as u64;
    let m = sc.view.m;
    let mut raw: Vec<(String, CSig, bool)> = vec![];
    let signing: Vec<usize> = (0..sc.honest.len()).filter(|i| sc.honest[*i].is_some()).collect();
    for (rank, &i) in signing.iter().enumerate() {
        let h = sc.honest[i].clone().unwrap();
        raw.push((format!("H{i}"), h.clone(), rank < 2));
        if h.indexes.len() >= 2 {
            let half = h.indexes.len() / 2;
            let mut f = h.clone();
            f.indexes.truncate(half);
            raw.push((format!("F{i}(first-half)"), f, rank == 0));
            let mut g = h.clone();
            g.indexes = h.indexes[half..].to_vec();
            raw.push((format!("G{i}(second-half)"), g, rank == 0));
        }
        if let Some(o) = &sc.honest_other[i] {
            raw.push((format!("O{i}(other-message)"), o.clone(), rank == 0));
        }
    }
    if let Some(&i) = signing.first() {
        let h = sc.honest[i].clone().unwrap();
        let mut t = h.clone();
        t.indexes.truncate(1);
        raw.push((format!("T{i}(first-index-only)"), t, true));
        let mut d = h.clone();
        d.indexes.push(h.indexes[0]);
        raw.push((format!("D{i}(index-listed-twice)"), d, signing.len() < 2));
        if let Some(other_slot) = sc.view.parties.iter().map(|p| p.2).find(|s| *s != h.slot) {
            let mut x = h.clone();
            x.slot = other_slot;
            raw.push((format!("R{i}(relabelled-slot-{other_slot})"), x, false));
        }
        let mut x = h.clone();
        x.slot = n;
        raw.push((format!("X{i}(unregistered-slot-{n})"), x, true));
        if let Some(sg) = sigma_shift(&h.sigma, 1) {
            let mut c = h.clone();
            c.sigma = sg;
            raw.push((format!("C{i}(sigma+G)"), c, false));
        }
        if let Some(lost) = (0..m).find(|x| !h.indexes.contains(x)) {
            let mut l = h.clone();
            l.indexes.push(lost);
            raw.push((format!("L{i}(+lost-index-{lost})"), l, false));
        }
        let mut mm = h.clone();
        mm.indexes.push(m);
        raw.push((format!("M{i}(+index-m)"), mm, true));
    }
    let mut out = vec![];
    for (name, c, small) in raw {
        let sig = match wire(&c) {
            Ok((sig, _legacy_same)) => sig,
            Err(e) => {
                // an invalid variant that cannot even be transported never reaches the aggregator; an honest
                // signature that cannot is a completeness failure
                if name.starts_with('H') {
                    lost.push((name, e));
                }
                continue;
            }
        };
        // reference validity, for the party registered at the slot the signature names
        let validity = match sc.view.party_by_slot(c.slot) {
            None => Validity::Invalid("names an unregistered signer slot".into()),
            Some(p) => {
                let as_party = CSig { vk: p.0.clone(), stake: p.1, ..c.clone() };
                match r.single(&sc.view, &sc.msg, &as_party) {
                    Judge::Holds => Validity::Valid(c.indexes.iter().copied().collect()),
                    Judge::CannotJudge => Validity::Unknown,
                    Judge::Fails(_, why) => Validity::Invalid(why),
                }
            }
        };
        out.push(El { name, csig: c, sig, validity, small });
    }
    (out, lost)
}

// ---------------------------------------------------------------------------------------------
// running sequences
// ---------------------------------------------------------------------------------------------

#[derive(Clone, Debug)]
struct Res {
    success: bool,
    verifies: bool,
    label: &'static str,
    detail: String,
}

fn run_seq(sc: &Scene, alpha: &[El], seq: &[u8]) -> Res {
    match mc_core::catch(|| run_seq_inner(sc, alpha, seq)) {
        Ok(r) => r,
        // a panic outside the guarded aggregate / verify calls (encoders, Serialize of the code under test)
        Err(p) => Res { success: false, verifies: false, label: "panic", detail: format!("panic: {p} at {}", mc_core::last_panic_location()) },
    }
}

fn run_seq_inner(sc: &Scene, alpha: &[El], seq: &[u8]) -> Res {
    let sigs: Vec<SingleSignature> = seq.iter().map(|i| alpha[*i as usize].sig.clone()).collect();
    match (sc.aggregate)(&sigs) {
        Err(e) => Res { success: false, verifies: false, label: reject_label(&e), detail: e },
        Ok(a) => {
            let canon = serde_json::to_string(&a).unwrap_or_default();
            if let Some((ok, detail)) = sc.verified.lock().unwrap().get(&canon).cloned() {
                return Res { success: true, verifies: ok, label: if ok { "aggregated+verifies" } else { "aggregated+DOES-NOT-VERIFY" }, detail };
            }
            // the aggregate travels as versioned bytes and as JSON before it is verified
            let via_bytes = a.to_bytes().map_err(|e| format!("{e:#}")).and_then(|b| decode_aggregate_bytes(&b));
            let via_json = serde_json::from_str::<AggregateSignature<D>>(&canon).map_err(|e| e.to_string());
            let mut detail = String::new();
            let mut ok = true;
            for (form, v) in [("bytes", via_bytes), ("json", via_json)] {
                match v {
                    Err(e) => {
                        ok = false;
                        detail = format!("aggregate does not survive its {form} encoding: {e}");
                    }
                    Ok(v) => {
                        if let Err(e) = (sc.verify)(&v) {
                            ok = false;
                            detail = format!("aggregate ({form} form) does not verify: {e}");
                        }
                    }
                }
            }
            sc.verified.lock().unwrap().insert(canon, (ok, detail.clone()));
            Res { success: true, verifies: ok, label: if ok { "aggregated+verifies" } else { "aggregated+DOES-NOT-VERIFY" }, detail }
        }
    }
}

fn union_of_valid(alpha: &[El], seq: &[u8]) -> Option<BTreeSet<u64>> {
    let mut u = BTreeSet::new();
    for i in seq {
        match &alpha[*i as usize].validity {
            Validity::Valid(ix) => u.extend(ix.iter().copied()),
            Validity::Invalid(_) => {}
            Validity::Unknown => return None,
        }
    }
    Some(u)
}

fn seq_names(alpha: &[El], seq: &[u8]) -> Vec<String> {
    seq.iter().map(|i| alpha[*i as usize].name.clone()).collect()
}

fn replay_json(sc: &Scene, alpha: &[El], seq: &[u8]) -> Value {
    json!({
        "route": sc.route,
        "cfg": sc.cfg.to_json(),
        "sequence": seq_names(alpha, seq),
        "elements": seq.iter().map(|i| {
            let e = &alpha[*i as usize];
            json!({"name": e.name, "signature": e.csig.short(), "reference": format!("{:?}", e.validity)})
        }).collect::<Vec<_>>(),
    })
}

/// the oracle over the results of one scene (`results` holds every enumerated sequence)
fn judge_scene(sc: &Scene, alpha: &[El], order: &[Vec<u8>], results: &HashMap<Vec<u8>, Res>, rep: &mut Report) {
    let k = sc.view.k;
    let label = format!("{}:{}", sc.route, sc.view.label);
    let mut flagged: BTreeSet<Vec<u8>> = BTreeSet::new();
    let flag = |rep: &mut Report, flagged: &mut BTreeSet<Vec<u8>>, s: &[u8], res: &Res, why: String| {
        if !flagged.insert(s.to_vec()) {
            return;
        }
        // a shorter sequence (one element removed) that aggregated and verified?
        let mut smaller: Option<Vec<u8>> = None;
        for d in 0..s.len() {
            let mut t = s.to_vec();
            t.remove(d);
            if results.get(&t).is_some_and(|r| r.success && r.verifies) {
                smaller = Some(t);
                break;
            }
        }
        let key = if res.success {
            "C02/aggregate-does-not-verify".to_string()
        } else {
            match res.label {
                "unregistered-index" => "C02/unregistered-signer-index-aborts-aggregation".to_string(),
                "not-enough-signatures" if smaller.is_some() => "C02/extra-material-breaks-aggregation".to_string(),
                "not-enough-signatures" => "C02/valid-quorum-not-aggregated".to_string(),
                "panic" => "C02/aggregation-panics".to_string(),
                other => format!("C02/aggregation-fails:{other}"),
            }
        };
        let what = format!(
            "{label}: sequence {:?} {why}; observed: {}{}",
            seq_names(alpha, s),
            if res.success { res.detail.clone() } else { format!("aggregation failed: {}", res.detail) },
            match &smaller {
                Some(t) => format!("; without one element, {:?} aggregates and verifies", seq_names(alpha, t)),
                None => String::new(),
            }
        );
        rep.add_extra(&format!("flagged[{}] {key}", sc.route), 1);
        rep.violation(&key, what, replay_json(sc, alpha, s));
    };
    for s in order {
        let res = &results[s];
        rep.outcome(res.label);
        let u = union_of_valid(alpha, s);
        // (2) completeness
        if let Some(u) = &u {
            let distinct_valid: BTreeSet<&Vec<u8>> =
                s.iter().filter(|i| matches!(alpha[**i as usize].validity, Validity::Valid(_))).map(|i| &alpha[*i as usize].csig.sigma).collect();
            if u.len() as u64 >= k {
                rep.nontrivial(&(&label, seq_names(alpha, s)));
                if u.len() as u64 == k {
                    rep.add_extra("sequences_with_exactly_k_valid_indices", 1);
                }
                if distinct_valid.len() >= 2 {
                    rep.add_extra("quorum_sequences_with_several_signers", 1);
                }
                if s.iter().any(|i| matches!(alpha[*i as usize].validity, Validity::Invalid(_))) {
                    rep.add_extra("quorum_sequences_with_invalid_material", 1);
                }
                if !(res.success && res.verifies) {
                    flag(rep, &mut flagged, s, res, format!("holds valid signatures covering {} ≥ k={k} distinct indices, so it must aggregate and the result must verify", u.len()));
                }
            } else if res.success {
                rep.add_extra("aggregated_below_reference_quorum", 1);
            }
        } else {
            rep.add_extra("sequences_not_judged_(draw_inside_negligible_band)", 1);
        }
        // (3) monotonicity: one more element anywhere
        if res.success && res.verifies {
            for pos in 0..=s.len() {
                for a in 0..alpha.len() as u8 {
                    let mut t = s.clone();
                    t.insert(pos, a);
                    if let Some(rt) = results.get(&t)
                        && !(rt.success && rt.verifies)
                    {
                        flag(rep, &mut flagged, &t, rt, format!("is {:?} plus '{}' at position {pos}: extra material must not turn success into failure", seq_names(alpha, s), alpha[a as usize].name));
                    }
                }
            }
        }
    }
}

fn enumerate(alpha: &[El], l_full: usize, l_small: usize) -> Vec<Vec<u8>> {
    let mut set: BTreeSet<Vec<u8>> = BTreeSet::new();
    for s in mc_core::sequences(alpha.len(), l_full) {
        set.insert(s.iter().map(|x| *x as u8).collect());
    }
    let small: Vec<u8> = (0..alpha.len()).filter(|i| alpha[*i].small).map(|i| i as u8).collect();
    for s in mc_core::sequences(small.len(), l_small) {
        set.insert(s.iter().map(|x| small[*x]).collect());
    }
    let mut v: Vec<Vec<u8>> = set.into_iter().collect();
    v.sort_by(|a, b| a.len().cmp(&b.len()).then(a.cmp(b)));
    v
}

/// (1): every honest signature verifies (real code) and is valid by the reference
fn check_honest(sc: &Scene, alpha: &[El], rep: &mut Report) {
    for e in alpha {
        rep.eval();
        let real = (sc.single_verify)(&e.sig);
        let honest = e.name.starts_with('H');
        match (&real, &e.validity) {
            (Ok(()), Validity::Valid(_)) => rep.outcome("single:verifies"),
            (Err(_), Validity::Invalid(_)) => rep.outcome("single:rejected"),
            (_, Validity::Unknown) => rep.outcome("single:not-judged"),
            (Ok(()), Validity::Invalid(_)) => rep.add_extra("single_accepted_but_invalid_by_reference(C01_matter)", 1),
            (Err(_), Validity::Valid(_)) => rep.add_extra("single_rejected_but_valid_by_reference", 1),
        }
        if honest && (real.is_err() || matches!(e.validity, Validity::Invalid(_))) {
            rep.violation(
                "C02/honest-signature-does-not-verify",
                format!("{}:{}: the signature produced by a registered signer ({}) does not verify: real={real:?} reference={:?}", sc.route, sc.view.label, e.name, e.validity),
                json!({"route": sc.route, "cfg": sc.cfg.to_json(), "sequence": [e.name]}),
            );
        }
    }
}

// ---------------------------------------------------------------------------------------------
// driver
// ---------------------------------------------------------------------------------------------

fn common_cfgs(tier: Tier) -> Vec<Cfg> {
    let mut out = vec![];
    let ns: &[usize] = if tier == Tier::Thorough { &[1, 2, 3] } else { &[2, 3] };
    for &n in ns {
        for (m, k, phi_f) in [(4u64, 2u64, 1.0f64), (6, 3, 0.8)] {
            out.push(Cfg { n, split: "equal", stakes: stakes_for(n, "equal"), m, k, phi_f, seed: 0 });
        }
    }
    if tier == Tier::Thorough {
        out.push(Cfg { n: 3, split: "skew1000", stakes: stakes_for(3, "skew1000"), m: 8, k: 3, phi_f: 0.5, seed: 0 });
    }
    out
}

/// `l_small` is (bound for equal-stake scenes, bound for the skewed ones)
fn run_scenes(scenes: &[Scene], r: &Reference, l_full: usize, l_small: (usize, usize), threads: usize, rep: &mut Report, only: Option<&[String]>) {
    let built: Vec<(Vec<El>, Vec<(String, String)>)> = par_map(scenes, threads, |_, sc| {
        mc_core::catch(|| alphabet(sc, r)).unwrap_or_else(|p| (vec![], vec![("alphabet".to_string(), format!("building the alphabet panics: {p} at {}", mc_core::last_panic_location()))]))
    });
    let mut alphas: Vec<Vec<El>> = vec![];
    for (sc, (a, lost)) in scenes.iter().zip(built) {
        for (name, e) in lost {
            rep.violation(
                "C02/honest-signature-does-not-verify",
                format!("{}:{}: the signature produced by a registered signer ({name}) does not survive its own wire encoding, so it cannot be verified or aggregated: {e}", sc.route, sc.view.label),
                json!({"route": sc.route, "cfg": sc.cfg.to_json(), "sequence": [name]}),
            );
        }
        alphas.push(a);
    }
    let orders: Vec<Vec<Vec<u8>>> = match only {
        None => alphas
            .iter()
            .zip(scenes.iter())
            .map(|(a, sc)| enumerate(a, l_full, if sc.cfg.split == "equal" { l_small.0 } else { l_small.1 }))
            .collect(),
        Some(names) => alphas
            .iter()
            .map(|a| {
                // replay: the sequence and every sequence obtained by removing elements from it
                let ids: Vec<u8> = names.iter().filter_map(|n| a.iter().position(|e| &e.name == n).map(|i| i as u8)).collect();
                let mut set = BTreeSet::new();
                for mask in 0u32..(1 << ids.len()) {
                    set.insert(ids.iter().enumerate().filter(|(i, _)| mask & (1 << i) != 0).map(|(_, x)| *x).collect::<Vec<u8>>());
                }
                let mut v: Vec<Vec<u8>> = set.into_iter().collect();
                v.sort_by(|x, y| x.len().cmp(&y.len()).then(x.cmp(y)));
                v
            })
            .collect(),
    };
    for (sc, a) in scenes.iter().zip(alphas.iter()) {
        check_honest(sc, a, rep);
    }
    rep.add_extra("scenes", scenes.len() as u64);
    rep.extra(
        &format!("alphabet_sizes_{}", scenes.first().map(|s| s.route).unwrap_or("")),
        json!(alphas.iter().map(|a| (a.len(), a.iter().filter(|e| e.small).count())).collect::<Vec<_>>()),
    );
    // flatten into work items
    let mut items: Vec<(usize, &[Vec<u8>])> = vec![];
    for (si, o) in orders.iter().enumerate() {
        for ch in o.chunks(128) {
            items.push((si, ch));
        }
    }
    let done: Vec<Vec<Res>> = par_map(&items, threads, |_, (si, chunk)| chunk.iter().map(|s| run_seq(&scenes[*si], &alphas[*si], s)).collect());
    let mut results: Vec<HashMap<Vec<u8>, Res>> = scenes.iter().map(|_| HashMap::new()).collect();
    for ((si, chunk), rs) in items.iter().zip(done) {
        for (s, r) in chunk.iter().zip(rs) {
            results[*si].insert(s.clone(), r);
        }
    }
    let idx: Vec<usize> = (0..scenes.len()).collect();
    let parts: Vec<Report> = par_map(&idx, threads, |_, si| {
        let mut rp = Report::new("exploration", "");
        for _ in 0..orders[*si].len() {
            rp.eval();
        }
        judge_scene(&scenes[*si], &alphas[*si], &orders[*si], &results[*si], &mut rp);
        if let Some(s) = orders[*si].iter().find(|s| s.len() >= 3 && results[*si][*s].success) {
            rp.sample(json!({"scene": format!("{}:{}", scenes[*si].route, scenes[*si].view.label), "sequence": seq_names(&alphas[*si], s), "result": results[*si][s].label}));
        }
        rp
    });
    for p in parts {
        rep.merge(p);
    }
}

pub fn run(ctx: &Ctx) -> ! {
    let mut rep = Report::new(
        "exploration",
        "all sequences (every multiset in every order) of single signatures of length ≤ L_full over the full alphabet and of \
         length ≤ L_small over its 8-element core (honest signatures, index restrictions, index listed twice, re-labelled and \
         unregistered slots, wrong sigma, lost / out-of-range index, other message) are aggregated by the real clerk (and, for \
         part of the lattice, by mithril-common's MultiSigner) and the result is verified; a sequence is non-trivial when its \
         reference-valid members cover at least k distinct indices (the completeness/monotonicity clause applies)",
    );
    // mithril-common's certified fixtures write operational certificates under the temp dir
    let scratch = ctx.scratch();
    unsafe { std::env::set_var("TMPDIR", &scratch) };
    let r = Reference::new();
    let threads = ctx.threads();
    let (ma, mb) = crate::c01::messages();
    let (pa, pb) = protocol_messages();

    if let Some(path) = &ctx.replay {
        let v = mc_core::load_replay(path);
        let cfg = Cfg::from_json(&v["cfg"]).expect("cfg");
        // replay files of kind "setup" carry no sequence: only the honest setup is re-run
        let names: Vec<String> = v["sequence"].as_array().map(|a| a.iter().filter_map(|x| x.as_str().map(|s| s.to_string())).collect()).unwrap_or_default();
        if v["route"].as_str() == Some("common-multi-signer") {
            let cw = match CommonWorld::try_build(&cfg) {
                Ok(cw) => cw,
                Err(e) => {
                    crate::c01::setup_violation(&mut rep, "C02", &cfg, "common-multi-signer", &e);
                    rep.finish(ctx)
                }
            };
            let scenes = vec![cw.scene(&pa, &pb)];
            run_scenes(&scenes, &r, 0, (0, 0), threads, &mut rep, Some(&names));
        } else {
            let w = match World::try_build(&cfg) {
                Ok(w) => w,
                Err(e) => {
                    crate::c01::setup_violation(&mut rep, "C02", &cfg, "stm-clerk", &e);
                    rep.finish(ctx)
                }
            };
            let scenes = vec![stm_scene(&w, &ma, &mb)];
            run_scenes(&scenes, &r, 0, (0, 0), threads, &mut rep, Some(&names));
        }
        rep.nontrivial(&0);
        rep.nontrivial(&1);
        rep.finish(ctx);
    }

    let (l_full, l_small) = ctx.tier.pick((2usize, (4usize, 3usize)), (3usize, (5usize, 4usize)));
    rep.extra("L_full", json!(l_full));
    rep.extra("L_small", json!({"equal_stake_configurations": l_small.0, "skewed_stake_configurations": l_small.1}));

    // route 1: the STM clerk, whole configuration lattice of C01
    let cfgs = crate::c01::configs(ctx.tier);
    // "every signature produced by a registered signer verifies …": an honest setup that fails on the real
    // API is a completeness violation, not a machinery problem
    let mut worlds: Vec<World> = vec![];
    for (c, b) in cfgs.iter().zip(par_map(&cfgs, threads, |_, c| crate::c01::settle_seed(c))) {
        match b {
            Ok((_, w)) => worlds.push(w),
            Err(e) => crate::c01::setup_violation(&mut rep, "C02", c, "stm-clerk", &e),
        }
    }
    for w in &worlds {
        for n in &w.notes {
            rep.add_extra(&format!("world_note: {n}"), 1);
        }
        // recorded, not judged (the property does not oblige a signer to sign): parties whose genuine sigma wins
        // an index by the reference although the real signer returns no signature
        let msgp = w.msgp(&ma);
        for i in 0..w.parties.len() {
            if w.honest(i, &ma).is_none() && !r.winning(&w.view, &msgp, &w.raw_sign(i, &msgp), w.parties[i].stake).is_empty() {
                rep.add_extra("signers_without_signature_although_reference_wins", 1);
            }
        }
    }
    let scenes: Vec<Scene> = worlds.iter().map(|w| stm_scene(w, &ma, &mb)).collect();
    rep.extra("configurations_stm_clerk", json!(scenes.len()));
    run_scenes(&scenes, &r, l_full, l_small, threads, &mut rep, None);

    // route 2: mithril-common MultiSigner on certified fixture signers
    let ccfgs = common_cfgs(ctx.tier);
    let mut cworlds: Vec<CommonWorld> = vec![];
    for c in &ccfgs {
        match CommonWorld::try_build(c) {
            Ok(cw) => cworlds.push(cw),
            Err(e) => crate::c01::setup_violation(&mut rep, "C02", c, "common-multi-signer", &e),
        }
    }
    let cscenes: Vec<Scene> = cworlds.iter().map(|cw| cw.scene(&pa, &pb)).collect();
    rep.extra("configurations_common_multi_signer", json!(cscenes.len()));
    let (cl_full, cl_small) = ctx.tier.pick((2usize, (3usize, 3usize)), (2usize, (4usize, 4usize)));
    rep.extra("L_full_common", json!(cl_full));
    rep.extra("L_small_common", json!(cl_small.0));
    run_scenes(&cscenes, &r, cl_full, cl_small, threads, &mut rep, None);

    rep.assume("blst, blake2 and num-bigint are trusted: the reference single-signature check uses them directly");
    rep.assume("validity of a single signature = BLS-valid over msg‖root under the key registered at the slot it names, every index below m and exactly won; draws within 2^-44 of the threshold are not judged");
    rep.assume("the aggregator's error kind below the quorum is not judged (only recorded in the outcomes); MultiSignerImpl::create_multi_signature of mithril-aggregator is covered by the aggregator checks, not here");
    rep.finish(ctx)
}
