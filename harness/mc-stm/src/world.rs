//! Shared by C01 and C02: a small closed STM "world" built on the real code (registration,
//! signers, clerk, aggregate key), the harness-side view of it (who registered with which key and
//! stake), a plain-data model of single / aggregate signatures with their three wire encodings,
//! and the reference predicates (BLS, dense mapping, exact lottery from `mc-ref`; set membership
//! instead of Merkle paths).

use std::collections::{BTreeMap, BTreeSet};
use std::sync::Mutex;

use mc_ref::lottery::{Iv, Verdict};
use mithril_stm::{
    AggregateSignature, AggregateSignatureType, AggregateVerificationKey, AggregateVerificationKeyForConcatenation,
    AncillaryGenesisData, AncillaryProofInput, Clerk, ClosedKeyRegistration, Initializer, KeyRegistration, MithrilMembershipDigest,
    Parameters, RegistrationEntry, Signer, SingleSignature,
};
use rand_chacha::ChaCha20Rng;
use rand_core::SeedableRng;
use serde_json::{Value, json};

pub type D = MithrilMembershipDigest;

// ---------------------------------------------------------------------------------------------
// plain-data model of the values under test
// ---------------------------------------------------------------------------------------------

/// One entry of an aggregate signature: a single signature plus the (key, stake) it claims.
#[derive(Clone, Debug, PartialEq, Eq, Hash, PartialOrd, Ord)]
pub struct CSig {
    pub sigma: Vec<u8>,
    pub indexes: Vec<u64>,
    pub slot: u64,
    pub vk: Vec<u8>,
    pub stake: u64,
}

/// An aggregate signature (concatenation proof) as plain data.
#[derive(Clone, Debug, PartialEq, Eq, Hash, PartialOrd, Ord)]
pub struct Cand {
    pub sigs: Vec<CSig>,
    pub path_values: Vec<Vec<u8>>,
    pub path_indices: Vec<u64>,
}

fn bytes_json(b: &[u8]) -> Value {
    Value::Array(b.iter().map(|x| json!(*x)).collect())
}

fn json_bytes(v: &Value) -> Option<Vec<u8>> {
    v.as_array()?.iter().map(|x| x.as_u64().and_then(|n| u8::try_from(n).ok())).collect()
}

fn json_u64s(v: &Value) -> Option<Vec<u64>> {
    v.as_array()?.iter().map(|x| x.as_u64()).collect()
}

impl CSig {
    pub fn single_json(&self) -> Value {
        json!({"sigma": bytes_json(&self.sigma), "indexes": self.indexes, "signer_index": self.slot})
    }
    pub fn short(&self) -> Value {
        json!({"sigma": hex::encode(&self.sigma[..self.sigma.len().min(6)]), "indexes": self.indexes.iter().map(|i| i.to_string()).collect::<Vec<_>>(),
               "slot": self.slot.to_string(), "vk": hex::encode(&self.vk[..self.vk.len().min(6)]), "stake": self.stake.to_string()})
    }
    /// legacy layout of `SingleSignature`: nr_indexes ‖ indexes ‖ sigma(48) ‖ signer_index, all u64 big endian
    pub fn single_legacy(&self) -> Vec<u8> {
        let mut o = vec![];
        o.extend((self.indexes.len() as u64).to_be_bytes());
        for i in &self.indexes {
            o.extend(i.to_be_bytes());
        }
        o.extend(&self.sigma);
        o.extend(self.slot.to_be_bytes());
        o
    }
    /// legacy layout of `SingleSignatureWithRegisteredParty`: len ‖ (vk(96) ‖ stake) ‖ len ‖ single signature
    pub fn with_party_legacy(&self) -> Vec<u8> {
        let mut reg = self.vk.clone();
        reg.extend(self.stake.to_be_bytes());
        let sig = self.single_legacy();
        let mut o = vec![];
        o.extend((reg.len() as u64).to_be_bytes());
        o.extend(reg);
        o.extend((sig.len() as u64).to_be_bytes());
        o.extend(sig);
        o
    }
}

impl Cand {
    pub fn to_json(&self) -> Value {
        let sigs: Vec<Value> = self
            .sigs
            .iter()
            .map(|s| json!([s.single_json(), [bytes_json(&s.vk), s.stake]]))
            .collect();
        json!({
            "signatures": sigs,
            "batch_proof": {
                "values": self.path_values.iter().map(|v| bytes_json(v)).collect::<Vec<_>>(),
                "indices": self.path_indices,
                "hasher": null,
            }
        })
    }

    pub fn from_json(v: &Value) -> Option<Cand> {
        let mut sigs = vec![];
        for e in v.get("signatures")?.as_array()? {
            let s = e.get(0)?;
            let r = e.get(1)?;
            sigs.push(CSig {
                sigma: json_bytes(s.get("sigma")?)?,
                indexes: json_u64s(s.get("indexes")?)?,
                slot: s.get("signer_index")?.as_u64()?,
                vk: json_bytes(r.get(0)?)?,
                stake: r.get(1)?.as_u64()?,
            });
        }
        let bp = v.get("batch_proof")?;
        let path_values = bp.get("values")?.as_array()?.iter().map(json_bytes).collect::<Option<Vec<_>>>()?;
        let path_indices = json_u64s(bp.get("indices")?)?;
        Some(Cand { sigs, path_values, path_indices })
    }

    /// The documented legacy byte layout (type byte 0, then the byte-packed concatenation proof).
    /// Only representable when every path value has the digest size (32).
    pub fn to_legacy_bytes(&self) -> Option<Vec<u8>> {
        if self.path_values.iter().any(|v| v.len() != 32) {
            return None;
        }
        let mut o = vec![0u8];
        o.extend((self.sigs.len() as u64).to_be_bytes());
        for s in &self.sigs {
            let b = s.with_party_legacy();
            o.extend((b.len() as u64).to_be_bytes());
            o.extend(b);
        }
        o.extend((self.path_values.len() as u64).to_be_bytes());
        o.extend((self.path_indices.len() as u64).to_be_bytes());
        for v in &self.path_values {
            o.extend(v);
        }
        for i in &self.path_indices {
            o.extend(i.to_be_bytes());
        }
        Some(o)
    }

    pub fn short(&self) -> Value {
        json!({
            "signatures": self.sigs.iter().map(|s| s.short()).collect::<Vec<_>>(),
            "path_values": self.path_values.iter().map(|v| hex::encode(&v[..v.len().min(6)])).collect::<Vec<_>>(),
            "path_indices": self.path_indices.iter().map(|i| i.to_string()).collect::<Vec<_>>(),
        })
    }

    pub fn all_indexes(&self) -> Vec<u64> {
        self.sigs.iter().flat_map(|s| s.indexes.iter().copied()).collect()
    }
}

/// value → JSON text → value of the real type
pub fn decode_aggregate_json(c: &Cand) -> Result<AggregateSignature<D>, String> {
    let txt = serde_json::to_string(&c.to_json()).map_err(|e| e.to_string())?;
    mc_core::catch(|| serde_json::from_str::<AggregateSignature<D>>(&txt).map_err(|e| e.to_string()))
        .map_err(|p| format!("panic: {p}"))?
}

pub fn decode_aggregate_bytes(b: &[u8]) -> Result<AggregateSignature<D>, String> {
    mc_core::catch(|| AggregateSignature::<D>::from_bytes(b).map_err(|e| format!("{e:#}")))
        .map_err(|p| format!("panic: {p}"))?
}

pub fn aggregate_to_cand(a: &AggregateSignature<D>) -> Option<Cand> {
    Cand::from_json(&mc_core::catch(|| serde_json::to_value(a).ok()).ok()??)
}

pub fn decode_single_json(s: &CSig) -> Result<SingleSignature, String> {
    let txt = serde_json::to_string(&s.single_json()).map_err(|e| e.to_string())?;
    mc_core::catch(|| serde_json::from_str::<SingleSignature>(&txt).map_err(|e| e.to_string()))
        .map_err(|p| format!("panic: {p}"))?
}

pub fn decode_single_bytes(b: &[u8]) -> Result<SingleSignature, String> {
    mc_core::catch(|| SingleSignature::from_bytes::<D>(b).map_err(|e| format!("{e:#}")))
        .map_err(|p| format!("panic: {p}"))?
}

pub fn single_to_csig(s: &SingleSignature, vk: &[u8], stake: u64) -> Option<CSig> {
    let v = serde_json::to_value(s).ok()?;
    Some(CSig {
        sigma: json_bytes(v.get("sigma")?)?,
        indexes: json_u64s(v.get("indexes")?)?,
        slot: v.get("signer_index")?.as_u64()?,
        vk: vk.to_vec(),
        stake,
    })
}

// ---------------------------------------------------------------------------------------------
// the world
// ---------------------------------------------------------------------------------------------

#[derive(Clone, Debug)]
pub struct Cfg {
    pub n: usize,
    pub split: &'static str,
    pub stakes: Vec<u64>,
    pub m: u64,
    pub k: u64,
    pub phi_f: f64,
    pub seed: u8,
}

impl Cfg {
    pub fn label(&self) -> String {
        format!("n{}-{}-m{}k{}phi{}-s{}", self.n, self.split, self.m, self.k, self.phi_f, self.seed)
    }
    pub fn to_json(&self) -> Value {
        json!({"n": self.n, "split": self.split, "stakes": self.stakes.iter().map(|s| s.to_string()).collect::<Vec<_>>(),
               "m": self.m, "k": self.k, "phi_f": self.phi_f, "seed": self.seed})
    }
    pub fn from_json(v: &Value) -> Option<Cfg> {
        let stakes: Vec<u64> = v["stakes"].as_array()?.iter().map(|s| s.as_str().and_then(|x| x.parse().ok())).collect::<Option<_>>()?;
        let split = match v["split"].as_str()? {
            "equal" => "equal",
            "skew1000" => "skew1000",
            "skew2p40" => "skew2p40",
            _ => "custom",
        };
        Some(Cfg { n: stakes.len(), split, stakes, m: v["m"].as_u64()?, k: v["k"].as_u64()?, phi_f: v["phi_f"].as_f64()?, seed: v["seed"].as_u64()? as u8 })
    }
}

pub fn stakes_for(n: usize, split: &str) -> Vec<u64> {
    match split {
        "equal" => vec![7; n],
        // one small party, the others large (for n = 1 the single party simply holds everything)
        "skew1000" => (0..n).map(|i| if i == 0 && n > 1 { 1 } else { 1000 }).collect(),
        "skew2p40" => (0..n).map(|i| if i == 0 && n > 1 { 1 } else { 1u64 << 40 }).collect(),
        _ => panic!("unknown split"),
    }
}

/// What the reference predicates need to know about a closed registration: parameters, the
/// registered (key, stake, slot) triples and the Merkle root the aggregate key commits to.
#[derive(Clone, Debug)]
pub struct View {
    pub label: String,
    pub m: u64,
    pub k: u64,
    pub phi_f: f64,
    pub total: u64,
    pub root: Vec<u8>,
    /// (verification key bytes, stake, slot)
    pub parties: Vec<(Vec<u8>, u64, u64)>,
}

impl View {
    /// what is actually signed and mapped for `msg` under this aggregate key
    pub fn msgp(&self, msg: &[u8]) -> Vec<u8> {
        let mut v = msg.to_vec();
        v.extend(&self.root);
        v
    }
    pub fn is_registered(&self, vk: &[u8], stake: u64) -> bool {
        self.parties.iter().any(|p| p.0 == vk && p.1 == stake)
    }
    pub fn party_by_slot(&self, slot: u64) -> Option<&(Vec<u8>, u64, u64)> {
        self.parties.iter().find(|p| p.2 == slot)
    }
}

pub struct Party {
    pub init: Initializer,
    pub vk: Vec<u8>,
    pub stake: u64,
    /// slot the registration assigned to this party (harness-side knowledge: "you are signer #slot")
    pub slot: u64,
}

pub struct World {
    pub cfg: Cfg,
    pub params: Parameters,
    pub parties: Vec<Party>,
    pub total: u64,
    #[allow(dead_code)]
    pub closed: ClosedKeyRegistration,
    pub signers: Vec<Signer<D>>,
    pub clerk: Clerk<D>,
    /// aggregate verification key after a trip through its own wire encoding
    pub avk: AggregateVerificationKey<D>,
    /// Merkle root the aggregate key commits to (read from the key's JSON form)
    pub root: Vec<u8>,
    pub view: View,
    /// observations made while building (aggregate key encoding anomalies)
    pub notes: Vec<String>,
}

impl World {
    /// Builds the world on the real code. Every failure of the real API on this honest path
    /// (registration, closing, signer creation, aggregate key encoding) and every panic is
    /// returned as `Err`: it is behaviour of the code under test, not of the harness.
    pub fn try_build(cfg: &Cfg) -> Result<World, String> {
        let params = Parameters { m: cfg.m, k: cfg.k, phi_f: cfg.phi_f };
        let stakes = cfg.stakes.clone();
        let seed = cfg.seed;
        let inits = mc_core::catch(move || {
            let mut rng = ChaCha20Rng::from_seed([seed; 32]);
            stakes.iter().map(|s| Initializer::new(params, *s, &mut rng)).collect::<Vec<Initializer>>()
        })
        .map_err(|p| format!("panic in Initializer::new: {p}"))?;
        World::try_from_inits(cfg, inits)
    }

    /// a fresh registrable key (for registrations that differ from another one in one key)
    pub fn fresh_initializer(cfg: &Cfg, stake: u64, salt: u8) -> Result<Initializer, String> {
        let params = Parameters { m: cfg.m, k: cfg.k, phi_f: cfg.phi_f };
        mc_core::catch(move || {
            let mut rng = ChaCha20Rng::from_seed([salt ^ 0x5a; 32]);
            // skip ahead so that the key differs from every key of the worlds built from small seeds
            for _ in 0..3 {
                let _ = Initializer::new(params, stake, &mut rng);
            }
            Initializer::new(params, stake, &mut rng)
        })
        .map_err(|p| format!("panic in Initializer::new: {p}"))
    }

    /// `cfg.stakes` must be the stakes of `inits`
    pub fn try_from_inits(cfg: &Cfg, inits: Vec<Initializer>) -> Result<World, String> {
        let cfg2 = cfg.clone();
        match mc_core::catch(move || World::from_inits_inner(&cfg2, inits)) {
            Ok(r) => r,
            Err(p) => Err(format!("panic: {p} at {}", mc_core::last_panic_location())),
        }
    }

    fn from_inits_inner(cfg: &Cfg, inits: Vec<Initializer>) -> Result<World, String> {
        let params = Parameters { m: cfg.m, k: cfg.k, phi_f: cfg.phi_f };
        let mut notes = vec![];
        let mut kr = KeyRegistration::initialize();
        for i in &inits {
            let entry = RegistrationEntry::try_from(i.clone()).map_err(|e| format!("RegistrationEntry of an honest initializer: {e:#}"))?;
            kr.register_by_entry(&entry).map_err(|e| format!("register_by_entry of an honest party: {e:#}"))?;
        }
        let closed = kr.close_registration(&params).map_err(|e| format!("close_registration: {e:#}"))?;
        let mut signers: Vec<Signer<D>> = vec![];
        for i in &inits {
            signers.push(i.clone().try_create_signer::<D>(&closed).map_err(|e| format!("try_create_signer of a registered party: {e:#}"))?);
        }
        let clerk = Clerk::<D>::new_clerk_from_closed_key_registration(&params, &closed);
        let avk0 = clerk.compute_aggregate_verification_key();
        let conc = avk0.to_concatenation_aggregate_verification_key();
        // the key the verifier holds is the one that travelled; a key that does not survive the trip is
        // recorded, and verification goes on with whatever the decoder returned (or the original)
        let avk = match conc.to_bytes().map_err(|e| format!("{e:#}")).and_then(|b| AggregateVerificationKeyForConcatenation::<D>::from_bytes(&b).map_err(|e| format!("{e:#}"))) {
            Ok(conc2) => {
                if &conc2 != conc {
                    notes.push("aggregate key changed by its own byte encoding round trip".to_string());
                }
                AggregateVerificationKey::<D>::new(conc2)
            }
            Err(e) => {
                notes.push(format!("aggregate key does not survive its own byte encoding: {e}"));
                avk0.clone()
            }
        };
        let j = serde_json::to_value(conc).map_err(|e| format!("aggregate key has no JSON form: {e}"))?;
        let root = json_bytes(&j["mt_commitment"]["root"]).ok_or("no Merkle root in the JSON form of the aggregate key")?;
        let parties: Vec<Party> = inits
            .iter()
            .zip(signers.iter())
            .map(|(init, signer)| Party {
                init: init.clone(),
                vk: init.get_verification_key_proof_of_possession_for_concatenation().vk.to_bytes().to_vec(),
                stake: init.stake,
                slot: signer.signer_index,
            })
            .collect();
        let total = parties.iter().map(|p| p.stake).sum();
        let view = View {
            label: cfg.label(),
            m: cfg.m,
            k: cfg.k,
            phi_f: cfg.phi_f,
            total,
            root: root.clone(),
            parties: parties.iter().map(|p| (p.vk.clone(), p.stake, p.slot)).collect(),
        };
        Ok(World { cfg: cfg.clone(), params, parties, total, closed, signers, clerk, avk, root, view, notes })
    }

    /// what is actually signed and mapped for `msg` under this aggregate key
    pub fn msgp(&self, msg: &[u8]) -> Vec<u8> {
        let mut v = msg.to_vec();
        v.extend(&self.root);
        v
    }

    pub fn is_registered(&self, vk: &[u8], stake: u64) -> bool {
        self.parties.iter().any(|p| p.vk == vk && p.stake == stake)
    }

    /// honest single signature of party `i` (None: the party won no index)
    pub fn honest(&self, i: usize, msg: &[u8]) -> Option<CSig> {
        let s = mc_core::catch(|| self.signers[i].create_single_signature(msg).ok()).ok()??;
        single_to_csig(&s, &self.parties[i].vk, self.parties[i].stake)
    }

    /// the honest signatures as values of the real type (no wire trip)
    pub fn honest_raw(&self, msg: &[u8]) -> Vec<SingleSignature> {
        (0..self.signers.len()).filter_map(|i| mc_core::catch(|| self.signers[i].create_single_signature(msg).ok()).ok().flatten()).collect()
    }

    /// a BLS signature by party `i`'s key over arbitrary bytes
    pub fn raw_sign(&self, i: usize, bytes: &[u8]) -> Vec<u8> {
        self.parties[i].init.bls_signing_key.sign(bytes).to_bytes().to_vec()
    }

    pub fn aggregate(&self, sigs: &[SingleSignature], msg: &[u8]) -> Result<AggregateSignature<D>, String> {
        match mc_core::catch(|| {
            self.clerk
                .aggregate_signatures_with_type(sigs, msg, AggregateSignatureType::Concatenation, AncillaryProofInput::new(None, AncillaryGenesisData::new()))
        }) {
            Ok(Ok((a, _))) => Ok(a),
            Ok(Err(e)) => Err(format!("{e:#}")),
            Err(p) => Err(format!("panic: {p} at {}", mc_core::last_panic_location())),
        }
    }

    pub fn verify(&self, a: &AggregateSignature<D>, msg: &[u8]) -> Result<(), String> {
        match mc_core::catch(|| a.verify(msg, &self.avk, &self.params, None, None)) {
            Ok(Ok(())) => Ok(()),
            Ok(Err(e)) => Err(format!("{e:#}")),
            Err(p) => Err(format!("panic: {p} at {}", mc_core::last_panic_location())),
        }
    }
}

/// coarse rejection label from an error chain text
pub fn reject_label(e: &str) -> &'static str {
    if e.starts_with("panic") {
        "panic"
    } else if e.contains("higher than what the security parameter allows") {
        "index-bound"
    } else if e.contains("Lottery for this epoch was lost") {
        "lottery-lost"
    } else if e.contains("Indices are not unique") {
        "index-not-unique"
    } else if e.contains("Not enough signatures") {
        "not-enough-signatures"
    } else if e.contains("Batch path does not verify") || e.contains("Could not verify leave membership") || e.contains("Serialization of a merkle tree failed") {
        "batch-path-invalid"
    } else if e.contains("Invalid aggregated signature") || e.contains("Invalid single signature") || e.contains("One signature in the batch is invalid") {
        "bls-invalid"
    } else if e.contains("No registration found for the given index") {
        "unregistered-index"
    } else if e.contains("infinity") {
        "bls-infinity"
    } else {
        "other"
    }
}

// ---------------------------------------------------------------------------------------------
// reference predicates
// ---------------------------------------------------------------------------------------------

pub struct Reference {
    ln2: Iv,
    probs: Mutex<BTreeMap<(u64, u64, u64), Option<Iv>>>,
}

#[derive(Clone, Debug, PartialEq, Eq)]
pub enum Judge {
    Holds,
    /// (classifier suffix, reason)
    Fails(&'static str, String),
    /// a draw lies inside the numerically negligible band: no judgement
    CannotJudge,
}

impl Reference {
    pub fn new() -> Reference {
        Reference { ln2: mc_ref::lottery::ln2(), probs: Mutex::new(BTreeMap::new()) }
    }

    pub fn lottery(&self, msgp: &[u8], index: u64, sigma: &[u8], stake: u64, total: u64, phi_f: f64) -> Verdict {
        if stake > total || total == 0 {
            // not a stake fraction: the formula of the property is undefined, nothing to judge
            return Verdict::TooClose;
        }
        let key = (stake, total, phi_f.to_bits());
        let p = {
            let mut g = self.probs.lock().unwrap();
            g.entry(key).or_insert_with(|| mc_ref::lottery::probability(stake, total, phi_f, &self.ln2)).clone()
        };
        let Some(p) = p else { return Verdict::TooClose };
        let ev = mc_ref::dense_mapping(msgp, index, sigma);
        mc_ref::lottery::decide_p(&ev, &p, -44)
    }

    /// indices in [0, m) the draw of `sigma` wins for `stake` (TooClose counted as not won)
    pub fn winning(&self, w: &View, msgp: &[u8], sigma: &[u8], stake: u64) -> Vec<u64> {
        (0..w.m)
            .filter(|i| self.lottery(msgp, *i, sigma, stake, w.total, w.phi_f) == Verdict::Won)
            .collect()
    }

    /// Is (sigma, indexes) a valid single signature of `msg` by the holder of (vk, stake)?
    /// Valid = BLS-valid over msg‖root, every index < m and exactly won. Registration of the pair
    /// is judged separately.
    pub fn single(&self, w: &View, msg: &[u8], s: &CSig) -> Judge {
        let msgp = w.msgp(msg);
        if let Some(i) = s.indexes.iter().find(|i| **i >= w.m) {
            return Judge::Fails("index-out-of-range-accepted", format!("index {i} is not below m={}", w.m));
        }
        if !mc_ref::bls_verify(&s.sigma, &s.vk, &msgp) {
            return Judge::Fails("invalid-party-signature-accepted", "sigma is not a BLS signature of msg‖root under the claimed key".into());
        }
        let mut unknown = false;
        for &i in &s.indexes {
            match self.lottery(&msgp, i, &s.sigma, s.stake, w.total, w.phi_f) {
                Verdict::Won => {}
                Verdict::Lost => {
                    return Judge::Fails("lost-index-accepted", format!("index {i} is lost for stake {}/{}", s.stake, w.total));
                }
                Verdict::TooClose => unknown = true,
            }
        }
        if unknown { Judge::CannotJudge } else { Judge::Holds }
    }

    /// The statement of C01 for an aggregate signature value.
    pub fn aggregate(&self, w: &View, msg: &[u8], c: &Cand) -> Judge {
        let all = c.all_indexes();
        if let Some(i) = all.iter().find(|i| **i >= w.m) {
            return Judge::Fails("index-out-of-range-accepted", format!("index {i} is not below m={}", w.m));
        }
        let distinct: BTreeSet<u64> = all.iter().copied().collect();
        if (distinct.len() as u64) < w.k {
            return Judge::Fails("quorum-not-reached-accepted", format!("{} distinct indices, k={}", distinct.len(), w.k));
        }
        for s in &c.sigs {
            if !w.is_registered(&s.vk, s.stake) {
                return Judge::Fails("uncommitted-key-or-stake-accepted", format!("(key {}.., stake {}) is not a registered pair", hex::encode(&s.vk[..s.vk.len().min(6)]), s.stake));
            }
        }
        let mut unknown = false;
        for s in &c.sigs {
            match self.single(w, msg, s) {
                Judge::Holds => {}
                Judge::CannotJudge => unknown = true,
                f => return f,
            }
        }
        if unknown { Judge::CannotJudge } else { Judge::Holds }
    }
}

// ---------------------------------------------------------------------------------------------
// G1 arithmetic on compressed signatures (for "a different but well-formed sigma")
// ---------------------------------------------------------------------------------------------

/// sigma + j·G1 (j may be negative), compressed. None if sigma does not decode.
pub fn sigma_shift(sigma: &[u8], j: i64) -> Option<Vec<u8>> {
    use blst::*;
    if sigma.len() != 48 {
        return None;
    }
    unsafe {
        let mut aff = blst_p1_affine::default();
        if blst_p1_uncompress(&mut aff, sigma.as_ptr()) != BLST_ERROR::BLST_SUCCESS {
            return None;
        }
        let mut p = blst_p1::default();
        blst_p1_from_affine(&mut p, &aff);
        let mut g = blst_p1::default();
        blst_p1_from_affine(&mut g, blst_p1_affine_generator());
        let mut scalar = [0u8; 8];
        scalar.copy_from_slice(&j.unsigned_abs().to_le_bytes());
        let mut d = blst_p1::default();
        blst_p1_mult(&mut d, &g, scalar.as_ptr(), 64);
        if j < 0 {
            blst_p1_cneg(&mut d, true);
        }
        let mut r = blst_p1::default();
        blst_p1_add_or_double(&mut r, &p, &d);
        let mut out = [0u8; 48];
        blst_p1_compress(out.as_mut_ptr(), &r);
        Some(out.to_vec())
    }
}

/// Two on-curve points of E(Fp) *outside* the prime-order subgroup G1, built deterministically with
/// blst: P = first compressed x-candidates (x = 1, 2, …) that lie on the curve and are not in G1,
/// T = [r]·P with r the order of G1. Multiplying by r removes the G1 component of P, so T has an
/// order dividing the cofactor: a pairing cannot see it, only an explicit subgroup check can.
pub fn torsion_points() -> Vec<blst::blst_p1> {
    use blst::*;
    // r, little endian
    let mut r_le = hex::decode("73eda753299d7d483339d80809a1d80553bda402fffe5bfeffffffff00000001").expect("r");
    r_le.reverse();
    let mut out = vec![];
    let mut x = 1u16;
    while out.len() < 2 {
        let mut bytes = [0u8; 48];
        bytes[0] = 0x80;
        bytes[46..48].copy_from_slice(&x.to_be_bytes());
        x += 1;
        unsafe {
            let mut aff = blst_p1_affine::default();
            if blst_p1_uncompress(&mut aff, bytes.as_ptr()) != BLST_ERROR::BLST_SUCCESS || blst_p1_affine_in_g1(&aff) {
                continue;
            }
            let mut p = blst_p1::default();
            blst_p1_from_affine(&mut p, &aff);
            let mut t = blst_p1::default();
            blst_p1_mult(&mut t, &p, r_le.as_ptr(), 255);
            if blst_p1_is_inf(&t) || blst_p1_in_g1(&t) || !blst_p1_on_curve(&t) {
                continue;
            }
            // 2T must not vanish either (j = 2 is used)
            let mut t2 = blst_p1::default();
            blst_p1_add_or_double(&mut t2, &t, &t);
            if blst_p1_is_inf(&t2) {
                continue;
            }
            out.push(t);
        }
    }
    out
}

/// sigma + j·T (j ≥ 1), compressed; the result is on the curve but outside G1
pub fn sigma_plus_torsion(sigma: &[u8], t: &blst::blst_p1, j: u32) -> Option<Vec<u8>> {
    use blst::*;
    if sigma.len() != 48 {
        return None;
    }
    unsafe {
        let mut aff = blst_p1_affine::default();
        if blst_p1_uncompress(&mut aff, sigma.as_ptr()) != BLST_ERROR::BLST_SUCCESS {
            return None;
        }
        let mut r = blst_p1::default();
        blst_p1_from_affine(&mut r, &aff);
        for _ in 0..j {
            let mut s = blst_p1::default();
            blst_p1_add_or_double(&mut s, &r, t);
            r = s;
        }
        if blst_p1_is_inf(&r) || blst_p1_in_g1(&r) {
            return None;
        }
        let mut out = [0u8; 48];
        blst_p1_compress(out.as_mut_ptr(), &r);
        Some(out.to_vec())
    }
}

/// true when the bytes are a compressed point on the curve that is not in G1
pub fn sigma_outside_g1(sigma: &[u8]) -> bool {
    use blst::*;
    if sigma.len() != 48 {
        return false;
    }
    unsafe {
        let mut aff = blst_p1_affine::default();
        blst_p1_uncompress(&mut aff, sigma.as_ptr()) == BLST_ERROR::BLST_SUCCESS && !blst_p1_affine_is_inf(&aff) && !blst_p1_affine_in_g1(&aff)
    }
}
