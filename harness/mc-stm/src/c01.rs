//! C01 — multi-signature soundness: accepted aggregates carry a real stake quorum.
//!
//! Bounded exhaustive input enumeration on the real verifier. For every configuration of a small
//! lattice (parties × stake splits × parameters × messages) the honest single signatures are
//! produced by the real signers, base aggregates are built (by the real clerk for every signer
//! subset, and by hand: un-deduplicated lists, hand-made cross-signature index collisions), and
//! every value reachable from a base by ≤ d structural mutations is put on the wire (JSON text,
//! versioned CBOR bytes, legacy byte layout written by a harness-side encoder), decoded by the
//! real decoders and handed to `AggregateSignature::verify`. Single signatures take the same
//! route into `SingleSignature::verify`; pools of accepted and rejected values (plus pairs whose
//! sigmas are shifted by ±j·G) go into `AggregateSignature::batch_verify` as all ordered pairs /
//! triples over several (message, key) contexts.
//!
//! Oracle (soundness only): accepted ⇒ the statement of the property holds for the decoded value,
//! judged by `mc-ref` (blst directly, Blake2b dense mapping, exact interval-arithmetic lottery) and
//! by set membership in the registration the harness built. Batch accepted ⇒ every member is
//! accepted alone and satisfies the statement. Honest aggregates must be accepted.

use std::collections::{BTreeMap, BTreeSet};

use blake2::digest::{Digest, consts::U32};
use mc_core::{Ctx, Report, Tier, par_map};
use mithril_stm::{AggregateSignature, Parameters, SingleSignature, VerificationKeyForConcatenation};
use serde_json::{Value, json};

use crate::world::*;

type H256 = blake2::Blake2b<U32>;

fn h256(parts: &[&[u8]]) -> Vec<u8> {
    let mut h = H256::new();
    for p in parts {
        h.update(p);
    }
    h.finalize().to_vec()
}

// ---------------------------------------------------------------------------------------------
// a tiny independent Merkle tree (to build batch paths for hand-made aggregates and to re-derive
// the root the aggregate key must commit to)
// ---------------------------------------------------------------------------------------------

struct MiniTree {
    nodes: Vec<Vec<u8>>,
    n: usize,
}

impl MiniTree {
    /// leaves in slot order: Blake2b-256(vk ‖ stake_be)
    fn new(w: &World) -> MiniTree {
        let n = w.parties.len();
        let mut by_slot: Vec<&Party> = w.parties.iter().collect();
        by_slot.sort_by_key(|p| p.slot);
        let np2 = n.next_power_of_two();
        let num = n + np2 - 1;
        let z = h256(&[&[0u8]]);
        let mut nodes = vec![vec![]; num];
        for (i, p) in by_slot.iter().enumerate() {
            nodes[np2 - 1 + i] = h256(&[&p.vk, &p.stake.to_be_bytes()]);
        }
        for i in (0..np2 - 1).rev() {
            let l = if 2 * i + 1 < num { nodes[2 * i + 1].clone() } else { z.clone() };
            let r = if 2 * i + 2 < num { nodes[2 * i + 2].clone() } else { z.clone() };
            nodes[i] = h256(&[&l, &r]);
        }
        MiniTree { nodes, n }
    }
    fn root(&self) -> &[u8] {
        &self.nodes[0]
    }
    /// sibling hashes needed to open the (sorted) leaf set, bottom-up, left to right
    fn batch_path(&self, slots: &[u64]) -> Vec<Vec<u8>> {
        let off = self.n.next_power_of_two() - 1;
        let mut idx: Vec<usize> = slots.iter().map(|s| *s as usize + off).collect();
        let mut out = vec![];
        while !idx.is_empty() && idx[0] > 0 {
            let mut next = vec![];
            let mut i = 0;
            while i < idx.len() {
                let me = idx[i];
                let sib = if me % 2 == 1 { me + 1 } else { me - 1 };
                next.push((me - 1) / 2);
                if i + 1 < idx.len() && idx[i + 1] == sib {
                    i += 1;
                } else if sib < self.nodes.len() {
                    out.push(self.nodes[sib].clone());
                }
                i += 1;
            }
            idx = next;
        }
        out
    }
}

// ---------------------------------------------------------------------------------------------
// context of one (configuration, message)
// ---------------------------------------------------------------------------------------------

struct Adversary {
    sk: blst::min_sig::SecretKey,
    vk: Vec<u8>,
}

impl Adversary {
    fn new() -> Adversary {
        let sk = blst::min_sig::SecretKey::key_gen(&[0xADu8; 32], &[]).expect("keygen");
        let vk = sk.sk_to_pk().to_bytes().to_vec();
        Adversary { sk, vk }
    }
    fn sign(&self, bytes: &[u8]) -> Vec<u8> {
        self.sk.sign(bytes, &[], &[]).to_bytes().to_vec()
    }
}

struct MCtx<'a> {
    w: &'a World,
    r: &'a Reference,
    msg: Vec<u8>,
    other: Vec<u8>,
    honest: Vec<Option<CSig>>,
    honest_other: Vec<Option<CSig>>,
    tree: MiniTree,
    adv: Adversary,
    torsion: Vec<blst::blst_p1>,
}

pub fn messages() -> (Vec<u8>, Vec<u8>) {
    (b"mithril-verif message A".to_vec(), b"another message (B), longer than the first one".to_vec())
}

impl<'a> MCtx<'a> {
    fn new(w: &'a World, r: &'a Reference, msg: &[u8], other: &[u8]) -> MCtx<'a> {
        let n = w.parties.len();
        MCtx {
            w,
            r,
            msg: msg.to_vec(),
            other: other.to_vec(),
            honest: (0..n).map(|i| w.honest(i, msg)).collect(),
            honest_other: (0..n).map(|i| w.honest(i, other)).collect(),
            tree: MiniTree::new(w),
            adv: Adversary::new(),
            torsion: torsion_points(),
        }
    }

    /// full winning list of the registered party that owns `vk` (empty for unknown keys)
    fn won_by_key(&self, vk: &[u8]) -> Vec<u64> {
        self.w
            .parties
            .iter()
            .position(|p| p.vk == vk)
            .and_then(|i| self.honest[i].as_ref())
            .map(|s| s.indexes.clone())
            .unwrap_or_default()
    }

    /// hand-built aggregate: the given entries in slot order with the genuine batch path
    fn hand_built(&self, mut entries: Vec<CSig>) -> Cand {
        entries.sort_by_key(|e| e.slot);
        let slots: Vec<u64> = entries.iter().map(|e| e.slot).collect();
        Cand { path_values: self.tree.batch_path(&slots), path_indices: slots, sigs: entries }
    }

    /// base aggregates: (name, value, honest?, explored to full depth?)
    fn bases(&self) -> Vec<(String, Cand, bool, bool)> {
        let n = self.w.parties.len();
        let mut out: Vec<(String, Cand, bool, bool)> = vec![];
        let full_mask: u32 = (0..n).filter(|i| self.honest[*i].is_some()).map(|i| 1u32 << i).sum();
        for mask in 1u32..(1 << n) {
            let members: Vec<usize> = (0..n).filter(|i| mask & (1 << i) != 0 && self.honest[*i].is_some()).collect();
            if members.len() != (mask.count_ones() as usize) {
                continue;
            }
            let sigs: Vec<SingleSignature> =
                members.iter().map(|i| decode_single_json(self.honest[*i].as_ref().unwrap()).expect("honest decodes")).collect();
            if let Ok(a) = self.w.aggregate(&sigs, &self.msg) {
                // every aggregate the real clerk produces is explored to the full mutation depth
                out.push((format!("clerk{members:?}"), aggregate_to_cand(&a).expect("aggregate json"), true, true));
            }
            let entries: Vec<CSig> = members.iter().map(|i| self.honest[*i].clone().unwrap()).collect();
            out.push((format!("hand{members:?}"), self.hand_built(entries), false, mask == full_mask));
        }
        // hand-made cross-signature collisions: two parties, both claiming only one common index
        for p in 0..n {
            for q in p + 1..n {
                if let (Some(a), Some(b)) = (&self.honest[p], &self.honest[q])
                    && let Some(common) = a.indexes.iter().find(|i| b.indexes.contains(i))
                {
                    let mut ea = a.clone();
                    let mut eb = b.clone();
                    ea.indexes = vec![*common];
                    eb.indexes = vec![*common];
                    out.push((format!("collide[{p},{q}]@{common}"), self.hand_built(vec![ea, eb]), false, false));
                }
            }
        }
        out
    }

    /// every single structural mutation of `c`
    fn mutations(&self, c: &Cand) -> Vec<(String, Cand)> {
        let mut out: Vec<(String, Cand)> = vec![];
        let w = self.w;
        let m = w.params.m;
        let n = w.parties.len() as u64;
        let msgp = w.msgp(&self.msg);
        let mut push = |name: String, v: Cand| out.push((name, v));
        for (p, e) in c.sigs.iter().enumerate() {
            let with = |f: &dyn Fn(&mut CSig)| {
                let mut v = c.clone();
                f(&mut v.sigs[p]);
                v
            };
            let won = {
                let full = self.won_by_key(&e.vk);
                if full.is_empty() { e.indexes.clone() } else { full }
            };
            // --- index sets
            let mut sets: Vec<Vec<u64>> = vec![];
            if won.len() <= 4 {
                for mask in 0u32..(1 << won.len()) {
                    sets.push(won.iter().enumerate().filter(|(i, _)| mask & (1 << i) != 0).map(|(_, x)| *x).collect());
                }
            } else {
                for l in 0..=won.len() {
                    sets.push(won[..l].to_vec());
                }
                sets.push(won[won.len() / 2..].to_vec());
            }
            for s in sets {
                if s != e.indexes {
                    let s2 = s.clone();
                    push(format!("sig{p}.indexes={s:?}"), with(&move |x| x.indexes = s2.clone()));
                }
            }
            let mut extra: Vec<(String, u64)> = vec![];
            if let Some(lost) = (0..m).find(|i| !won.contains(i)) {
                extra.push(("lost".into(), lost));
            }
            extra.push(("m-1".into(), m - 1));
            extra.push(("m".into(), m));
            extra.push(("m+1".into(), m + 1));
            extra.push(("u64max".into(), u64::MAX));
            for (nm, v) in extra {
                if !e.indexes.contains(&v) {
                    push(format!("sig{p}.indexes+={nm}"), with(&move |x| x.indexes.push(v)));
                    if !e.indexes.is_empty() {
                        push(format!("sig{p}.indexes.last={nm}"), with(&move |x| *x.indexes.last_mut().unwrap() = v));
                    }
                }
            }
            if let Some(&f) = e.indexes.first() {
                push(format!("sig{p}.indexes+=dup({f})"), with(&move |x| x.indexes.push(f)));
                let k = w.params.k as usize;
                push(format!("sig{p}.indexes=[{f};{k}]"), with(&move |x| x.indexes = vec![f; k]));
            }
            for (q, o) in c.sigs.iter().enumerate() {
                if q != p
                    && let Some(&f) = o.indexes.first()
                    && !e.indexes.contains(&f)
                {
                    push(format!("sig{p}.indexes+=first-of-sig{q}({f})"), with(&move |x| x.indexes.push(f)));
                }
            }
            // --- signer slot label
            let mut slots: Vec<u64> = (0..n).collect();
            slots.extend([n, n + 1, u64::MAX]);
            for s in slots {
                if s != e.slot {
                    push(format!("sig{p}.slot={s}"), with(&move |x| x.slot = s));
                }
            }
            // --- claimed (key, stake)
            for (q, party) in w.parties.iter().enumerate() {
                if party.vk != e.vk || party.stake != e.stake {
                    let (vk, st) = (party.vk.clone(), party.stake);
                    push(format!("sig{p}.party=party{q}"), with(&move |x| {
                        x.vk = vk.clone();
                        x.stake = st;
                    }));
                }
            }
            if e.stake < u64::MAX {
                push(format!("sig{p}.stake+1"), with(&|x| x.stake += 1));
            }
            if e.stake != w.total {
                let t = w.total;
                push(format!("sig{p}.stake=total"), with(&move |x| x.stake = t));
            }
            // an adversary's own fresh key with a genuine signature by it
            let adv_sigma = self.adv.sign(&msgp);
            for (nm, st) in [("total", w.total), ("same", e.stake)] {
                let wins = self.r.winning(&w.view, &msgp, &adv_sigma, st);
                let mut variants = vec![("all", (0..m).collect::<Vec<u64>>())];
                if !wins.is_empty() && wins.len() as u64 != m {
                    variants.push(("won", wins));
                }
                for (vn, idx) in variants {
                    let (vk, sg) = (self.adv.vk.clone(), adv_sigma.clone());
                    push(format!("sig{p}=adversary-key(stake={nm},indexes={vn})"), with(&move |x| {
                        x.vk = vk.clone();
                        x.sigma = sg.clone();
                        x.stake = st;
                        x.indexes = idx.clone();
                    }));
                }
            }
            // --- sigma
            for (q, o) in self.honest.iter().enumerate() {
                if let Some(o) = o
                    && o.sigma != e.sigma
                {
                    let sg = o.sigma.clone();
                    push(format!("sig{p}.sigma=party{q}"), with(&move |x| x.sigma = sg.clone()));
                }
            }
            if let Some(i) = w.parties.iter().position(|party| party.vk == e.vk) {
                let sg = w.raw_sign(i, &w.msgp(&self.other));
                push(format!("sig{p}.sigma=own-over-other-message"), with(&move |x| x.sigma = sg.clone()));
                let sg = w.raw_sign(i, &self.msg);
                push(format!("sig{p}.sigma=own-over-bare-message"), with(&move |x| x.sigma = sg.clone()));
                if let Some(o) = &self.honest_other[i] {
                    let o = o.clone();
                    push(format!("sig{p}=own-signature-on-other-message"), with(&move |x| {
                        x.sigma = o.sigma.clone();
                        x.indexes = o.indexes.clone();
                    }));
                }
            }
            let mut inf = vec![0u8; 48];
            inf[0] = 0xc0;
            push(format!("sig{p}.sigma=identity"), with(&move |x| x.sigma = inf.clone()));
            if let Some(sg) = sigma_shift(&e.sigma, 1) {
                push(format!("sig{p}.sigma+=G"), with(&move |x| x.sigma = sg.clone()));
            }
            // sigma + j·T with T on the curve but outside G1: invisible to a pairing, and new bytes mean new
            // lottery draws. Claimed indices: (a) unchanged, (b) what the new bytes win for the claimed stake
            for (ti, t) in self.torsion.iter().enumerate() {
                for j in [1u32, 2] {
                    let Some(sg) = sigma_plus_torsion(&e.sigma, t, j) else { continue };
                    let sg2 = sg.clone();
                    push(format!("sig{p}.sigma+={j}*torsion{ti}"), with(&move |x| x.sigma = sg2.clone()));
                    let wins = self.r.winning(&w.view, &msgp, &sg, e.stake);
                    if !wins.is_empty() && wins != e.indexes {
                        push(format!("sig{p}.sigma+={j}*torsion{ti},indexes=won-by-new-bytes"), with(&move |x| {
                            x.sigma = sg.clone();
                            x.indexes = wins.clone();
                        }));
                    }
                }
            }
        }
        // --- batch path
        let z = h256(&[&[0u8]]);
        for i in 0..c.path_values.len() {
            let mut v = c.clone();
            v.path_values.remove(i);
            push(format!("path.values.drop({i})"), v);
            let mut v = c.clone();
            let d = v.path_values[i].clone();
            v.path_values.insert(i, d);
            push(format!("path.values.dup({i})"), v);
            let mut v = c.clone();
            v.path_values[i] = vec![0u8; 32];
            push(format!("path.values[{i}]=zeros"), v);
            let mut v = c.clone();
            v.path_values[i] = z.clone();
            push(format!("path.values[{i}]=H(0)"), v);
            let mut v = c.clone();
            v.path_values[i].truncate(31);
            push(format!("path.values[{i}].truncate"), v);
            if i + 1 < c.path_values.len() {
                let mut v = c.clone();
                v.path_values.swap(i, i + 1);
                push(format!("path.values.swap({i})"), v);
            }
        }
        if !c.path_values.is_empty() {
            let mut v = c.clone();
            v.path_values.clear();
            push("path.values=[]".into(), v);
        }
        {
            let mut v = c.clone();
            v.path_values.push(z.clone());
            push("path.values+=H(0)".into(), v);
        }
        if !c.path_indices.is_empty() {
            let mut v = c.clone();
            v.path_indices.clear();
            push("path.indices=[]".into(), v);
            let mut v = c.clone();
            v.path_indices.reverse();
            if v != *c {
                push("path.indices.reverse".into(), v);
            }
        }
        for i in 0..c.path_indices.len() {
            let cur = c.path_indices[i];
            let mut vals = vec![cur.wrapping_add(1), n, u64::MAX];
            if cur > 0 {
                vals.push(cur - 1);
            }
            vals.sort();
            vals.dedup();
            for x in vals {
                if x != cur {
                    let mut v = c.clone();
                    v.path_indices[i] = x;
                    push(format!("path.indices[{i}]={x}"), v);
                }
            }
            let mut v = c.clone();
            v.path_indices.insert(i, cur);
            push(format!("path.indices.dup({i})"), v);
            let mut v = c.clone();
            v.path_indices.remove(i);
            push(format!("path.indices.drop({i})"), v);
        }
        // --- signature list
        for p in 0..c.sigs.len() {
            if p + 1 < c.sigs.len() {
                let mut v = c.clone();
                v.sigs.swap(p, p + 1);
                push(format!("sigs.swap({p})"), v);
            }
            for with_path in [false, true] {
                let mut v = c.clone();
                let d = v.sigs[p].clone();
                v.sigs.insert(p, d);
                if with_path && p < v.path_indices.len() {
                    let x = v.path_indices[p];
                    v.path_indices.insert(p, x);
                }
                push(format!("sigs.dup({p},path={with_path})"), v);
                let mut v = c.clone();
                v.sigs.remove(p);
                if with_path && p < v.path_indices.len() {
                    v.path_indices.remove(p);
                }
                push(format!("sigs.drop({p},path={with_path})"), v);
                if c.sigs[p].indexes.len() >= 2 {
                    let mut v = c.clone();
                    let h = v.sigs[p].indexes.len() / 2;
                    let mut second = v.sigs[p].clone();
                    second.indexes = v.sigs[p].indexes[h..].to_vec();
                    v.sigs[p].indexes.truncate(h);
                    v.sigs.insert(p + 1, second);
                    if with_path && p < v.path_indices.len() {
                        let x = v.path_indices[p];
                        v.path_indices.insert(p, x);
                    }
                    push(format!("sigs.split({p},path={with_path})"), v);
                }
            }
        }
        if !c.sigs.is_empty() {
            let mut v = c.clone();
            v.sigs.clear();
            push("sigs=[]".into(), v);
        }
        // an extra entry under the adversary's own key (genuine signature by it), claiming indices nobody else claims
        {
            let adv_sigma = self.adv.sign(&msgp);
            let used = c.all_indexes();
            let free: Vec<u64> = self.r.winning(&w.view, &msgp, &adv_sigma, w.total).into_iter().filter(|i| !used.contains(i)).collect();
            let entry = CSig { sigma: adv_sigma, indexes: free, slot: n, vk: self.adv.vk.clone(), stake: w.total };
            for (pn, extra_path) in [("unchanged", None), ("index-n-appended", Some(n)), ("last-index-repeated", c.path_indices.last().copied())] {
                let mut v = c.clone();
                v.sigs.push(entry.clone());
                if pn != "unchanged" {
                    let Some(x) = extra_path else { continue };
                    v.path_indices.push(x);
                }
                push(format!("sigs+=adversary-entry(path={pn})"), v);
            }
        }
        out
    }

    /// single-signature candidates: (name, value, claimed key, claimed stake)
    fn single_candidates(&self) -> Vec<(String, CSig)> {
        let mut out = vec![];
        for (i, h) in self.honest.iter().enumerate() {
            let Some(h) = h else { continue };
            out.push((format!("honest{i}"), h.clone()));
            // reuse the per-entry alphabet through a one-entry aggregate
            let one = Cand { sigs: vec![h.clone()], path_values: vec![], path_indices: vec![] };
            for (name, c) in self.mutations(&one) {
                // the (key, stake) handed to SingleSignature::verify comes from the verifier's own view of the
                // registration, it is not attacker-controlled: only registered pairs are in scope
                if name.starts_with("sig0") && c.sigs.len() == 1 && self.w.is_registered(&c.sigs[0].vk, c.sigs[0].stake) {
                    out.push((format!("honest{i}:{name}"), c.sigs[0].clone()));
                }
            }
        }
        out
    }
}

// ---------------------------------------------------------------------------------------------
// evaluation
// ---------------------------------------------------------------------------------------------

struct Case {
    world: usize,
    msg_is_a: bool,
    depth: usize,
    honest: bool,
    name: String,
    cand: Cand,
}

fn case_json(w: &World, msg_is_a: bool, name: &str, c: &Cand) -> Value {
    json!({"kind": "aggregate", "cfg": w.cfg.to_json(), "message": if msg_is_a {"A"} else {"B"}, "mutation": name, "candidate": c.to_json(), "summary": c.short()})
}

/// decode one candidate in its wire forms; returns (form name, decoded value)
fn decode_forms(c: &Cand, rep: &mut Report, all_forms: bool) -> Vec<(&'static str, AggregateSignature<D>)> {
    let mut forms = vec![];
    match decode_aggregate_json(c) {
        Ok(a) => {
            if all_forms {
                match a.to_bytes() {
                    Ok(b) => match decode_aggregate_bytes(&b) {
                        Ok(a2) => forms.push(("cbor", a2)),
                        Err(_) => rep.add_extra("cbor_reencoding_not_decodable", 1),
                    },
                    Err(_) => rep.add_extra("cbor_encoding_failed", 1),
                }
            }
            forms.insert(0, ("json", a));
        }
        Err(_) => rep.add_extra("undecodable_json", 1),
    }
    if all_forms && let Some(b) = c.to_legacy_bytes() {
        match decode_aggregate_bytes(&b) {
            Ok(a3) => forms.push(("legacy", a3)),
            Err(_) => rep.add_extra("undecodable_legacy", 1),
        }
    }
    forms
}

struct Verdicts {
    /// accepted in at least one form, and the statement holds for it
    accepted: bool,
    label: String,
}

fn eval_case(w: &World, r: &Reference, msg: &[u8], case: &Case, rep: &mut Report, all_forms: bool) -> Verdicts {
    let mut forms = decode_forms(&case.cand, rep, all_forms);
    if case.name.contains("torsion") && case.cand.sigs.iter().any(|e| sigma_outside_g1(&e.sigma)) {
        rep.add_extra("torsion_sigma_candidates", 1);
        if forms.is_empty() {
            rep.add_extra("torsion_sigma_candidates_rejected_at_decode_in_every_form", 1);
        }
    }
    let mut accepted = false;
    let mut label = String::from("undecodable");
    let mut verdicts: Vec<(&str, bool)> = vec![];
    let mut i = 0;
    while i < forms.len() {
        let (form, a) = (&forms[i].0, &forms[i].1);
        let form: &'static str = form;
        rep.eval();
        let decoded = aggregate_to_cand(a).expect("decoded value has a JSON form");
        if decoded != case.cand {
            rep.add_extra("decoded_value_differs_from_wire_model", 1);
        }
        rep.nontrivial(&(w.cfg.label(), case.msg_is_a, &decoded));
        let res = w.verify(a, msg);
        verdicts.push((form, res.is_ok()));
        match &res {
            Ok(()) => {
                accepted = true;
                label = "accepted".into();
                match r.aggregate(&w.view, msg, &decoded) {
                    Judge::Holds => rep.outcome("accepted"),
                    Judge::CannotJudge => rep.outcome("accepted:draw-inside-negligible-band(not judged)"),
                    Judge::Fails(key, why) => {
                        rep.outcome("accepted:UNSOUND");
                        rep.violation(
                            &format!("C01/{key}"),
                            format!(
                                "AggregateSignature::verify accepted ({form} form, cfg {}, mutation '{}') although {why}",
                                w.cfg.label(),
                                case.name
                            ),
                            case_json(w, case.msg_is_a, &case.name, &decoded),
                        );
                    }
                }
            }
            Err(e) => {
                let l = reject_label(e);
                if l == "panic" {
                    rep.add_extra("panics_observed", 1);
                    let loc = e.rsplit(" at ").next().unwrap_or("?");
                    let loc = loc.rsplit("/mithril-stm/").next().unwrap_or(loc);
                    rep.add_extra(&format!("panic_at:{loc}"), 1);
                }
                if !accepted {
                    label = format!("rejected:{l}");
                }
                rep.outcome(&format!("rejected:{l}"));
                if case.honest {
                    rep.violation(
                        "C01/honest-aggregate-rejected",
                        format!("the clerk's own aggregate is rejected in {form} form (cfg {}, {}): {e}", w.cfg.label(), case.name),
                        case_json(w, case.msg_is_a, &case.name, &decoded),
                    );
                }
            }
        }
        // rejected deep candidates are judged in their JSON form only; accepted ones in all forms
        if !all_forms && res.is_ok() && forms.len() == 1 {
            let more = decode_forms(&case.cand, rep, true);
            forms.extend(more.into_iter().filter(|(f, _)| *f != "json"));
        }
        i += 1;
    }
    if verdicts.iter().any(|v| v.1) && verdicts.iter().any(|v| !v.1) {
        rep.add_extra("verdict_differs_between_wire_forms", 1);
    }
    Verdicts { accepted, label }
}

fn eval_single(w: &World, r: &Reference, msg: &[u8], msg_is_a: bool, name: &str, s: &CSig, rep: &mut Report) {
    let Ok(vk) = VerificationKeyForConcatenation::from_bytes(&s.vk) else {
        rep.add_extra("single_claimed_key_undecodable", 1);
        return;
    };
    let mut forms: Vec<(&str, SingleSignature)> = vec![];
    match decode_single_json(s) {
        Ok(a) => {
            if let Ok(b) = a.to_bytes()
                && let Ok(a2) = decode_single_bytes(&b)
            {
                forms.push(("cbor", a2));
            }
            forms.insert(0, ("json", a));
        }
        Err(_) => rep.add_extra("undecodable_json", 1),
    }
    match decode_single_bytes(&s.single_legacy()) {
        Ok(a) => forms.push(("legacy", a)),
        Err(_) => rep.add_extra("undecodable_legacy", 1),
    }
    if name.contains("torsion") && sigma_outside_g1(&s.sigma) {
        rep.add_extra("torsion_sigma_single_candidates", 1);
        if forms.is_empty() {
            rep.add_extra("torsion_sigma_single_candidates_rejected_at_decode_in_every_form", 1);
        }
    }
    for (form, a) in forms {
        rep.eval();
        let decoded = single_to_csig(&a, &s.vk, s.stake).expect("json of single signature");
        rep.nontrivial(&("single", w.cfg.label(), msg_is_a, &decoded));
        let res = match mc_core::catch(|| a.verify::<D>(&w.params, &vk, &s.stake, &w.avk, msg)) {
            Ok(Ok(())) => Ok(()),
            Ok(Err(e)) => Err(format!("{e:#}")),
            Err(p) => Err(format!("panic: {p}")),
        };
        match res {
            Ok(()) => match r.single(&w.view, msg, &decoded) {
                Judge::Holds => {
                    rep.outcome("single:accepted");
                }
                Judge::CannotJudge => rep.outcome("single:accepted:draw-inside-negligible-band(not judged)"),
                Judge::Fails(key, why) => {
                    rep.outcome("single:accepted:UNSOUND");
                    rep.violation(
                        &format!("C01/{key}"),
                        format!("SingleSignature::verify accepted ({form} form, cfg {}, '{name}') although {why}", w.cfg.label()),
                        json!({"kind": "single", "cfg": w.cfg.to_json(), "message": if msg_is_a {"A"} else {"B"}, "mutation": name,
                               "signature": decoded.single_json(), "vk": hex::encode(&decoded.vk), "stake": decoded.stake.to_string(), "summary": decoded.short()}),
                    );
                }
            },
            Err(e) => {
                let l = reject_label(&e);
                rep.outcome(&format!("single:rejected:{l}"));
                if name.starts_with("honest") && !name.contains(':') {
                    rep.violation(
                        "C01/honest-single-signature-rejected",
                        format!("a registered signer's own signature is rejected ({form} form, cfg {}): {e}", w.cfg.label()),
                        json!({"kind": "single", "cfg": w.cfg.to_json(), "message": if msg_is_a {"A"} else {"B"}, "mutation": name,
                               "signature": decoded.single_json(), "vk": hex::encode(&decoded.vk), "stake": decoded.stake.to_string()}),
                    );
                }
            }
        }
    }
}

// ---------------------------------------------------------------------------------------------
// batches
// ---------------------------------------------------------------------------------------------

#[derive(Clone)]
struct Member {
    world: usize,
    msg_is_a: bool,
    name: String,
    cand: Cand,
    /// built by shifting a sigma by ±j·G (input class of the cross-member cancellation)
    shifted: bool,
    /// accepted when verified alone (pooling class)
    accepted: bool,
}

/// sigma-shifted variants of a one-entry accepted aggregate: sigma ± G with the index set the
/// shifted sigma wins (an adversary is free to claim any indices)
fn shifted_members(w: &World, r: &Reference, msg: &[u8], world: usize, msg_is_a: bool, name: &str, c: &Cand) -> Vec<Member> {
    let mut out = vec![];
    if c.sigs.len() != 1 {
        return out;
    }
    let msgp = w.msgp(msg);
    for j in [1i64, -1, 2, -2] {
        let Some(sg) = sigma_shift(&c.sigs[0].sigma, j) else { continue };
        let wins = r.winning(&w.view, &msgp, &sg, c.sigs[0].stake);
        if (wins.len() as u64) < w.params.k {
            continue;
        }
        let mut v = c.clone();
        v.sigs[0].sigma = sg;
        v.sigs[0].indexes = wins;
        out.push(Member { world, msg_is_a, name: format!("{name}:sigma{j:+}G"), cand: v, shifted: true, accepted: false });
    }
    out
}

fn eval_batch(worlds: &[World], r: &Reference, members: &[&Member], rep: &mut Report) {
    let (ma, mb) = messages();
    let mut sigs = vec![];
    let mut msgs = vec![];
    let mut avks = vec![];
    let mut params: Vec<Parameters> = vec![];
    for m in members {
        let Ok(a) = decode_aggregate_json(&m.cand) else { return };
        // batch members travel as CBOR bytes
        let a = match a.to_bytes().ok().and_then(|b| decode_aggregate_bytes(&b).ok()) {
            Some(a2) => a2,
            None => a,
        };
        sigs.push(a);
        msgs.push(if m.msg_is_a { ma.clone() } else { mb.clone() });
        avks.push(worlds[m.world].avk.clone());
        params.push(worlds[m.world].params);
    }
    rep.eval();
    let none_v = vec![None; members.len()];
    let none_g = vec![None; members.len()];
    let res = match mc_core::catch(|| AggregateSignature::<D>::batch_verify(&sigs, &msgs, &avks, &params, &none_v, &none_g)) {
        Ok(Ok(())) => Ok(()),
        Ok(Err(e)) => Err(format!("{e:#}")),
        Err(p) => Err(format!("panic: {p}")),
    };
    let canon: Vec<(String, bool, &Cand)> = members.iter().map(|m| (worlds[m.world].cfg.label(), m.msg_is_a, &m.cand)).collect();
    rep.nontrivial(&("batch", &canon));
    match res {
        Err(e) => rep.outcome(&format!("batch:rejected:{}", reject_label(&e))),
        Ok(()) => {
            let mut bad = vec![];
            let mut only_bls = true;
            for (i, m) in members.iter().enumerate() {
                let w = &worlds[m.world];
                let alone = w.verify(&sigs[i], &msgs[i]);
                let judged = r.aggregate(&w.view, &msgs[i], &aggregate_to_cand(&sigs[i]).unwrap());
                if let Err(e) = &alone {
                    only_bls &= reject_label(e) == "bls-invalid";
                    bad.push(format!("member {i} ('{}', message {}, cfg {}) is rejected alone: {}", m.name, if m.msg_is_a {"A"} else {"B"}, w.cfg.label(), reject_label(e)));
                } else if let Judge::Fails(_, why) = judged {
                    only_bls = false;
                    bad.push(format!("member {i} ('{}', cfg {}) does not satisfy the statement: {why}", m.name, w.cfg.label()));
                }
            }
            if bad.is_empty() {
                rep.outcome("batch:accepted");
            } else {
                rep.outcome("batch:accepted:UNSOUND");
                // classify by the failing call site: members that pass every per-member check and fail only the
                // final pairing check when alone point at the summed pairing check of the batch; anything else
                // means a per-member check was skipped
                let key = if only_bls { "C01/batch-checks-only-the-sum-of-member-signatures" } else { "C01/batch-accepts-member-rejected-alone" };
                rep.violation(
                    key,
                    format!("AggregateSignature::batch_verify accepted a batch of {} although {}", members.len(), bad.join("; ")),
                    json!({"kind": "batch", "members": members.iter().map(|m| json!({
                        "cfg": worlds[m.world].cfg.to_json(), "message": if m.msg_is_a {"A"} else {"B"}, "name": m.name,
                        "candidate": m.cand.to_json(), "summary": m.cand.short()})).collect::<Vec<_>>()}),
                );
            }
        }
    }
}

// ---------------------------------------------------------------------------------------------
// driver
// ---------------------------------------------------------------------------------------------

pub fn configs(tier: Tier) -> Vec<Cfg> {
    let mut out = vec![];
    for n in 1..=3usize {
        for split in ["equal", "skew1000", "skew2p40"] {
            if n == 1 && split != "equal" {
                continue;
            }
            for (m, k, phi_f) in [(4u64, 2u64, 1.0f64), (6, 3, 0.8), (8, 3, 0.5)] {
                out.push(Cfg { n, split, stakes: stakes_for(n, split), m, k, phi_f, seed: 0 });
            }
        }
    }
    if tier == Tier::Thorough {
        for (m, k, phi_f) in [(4u64, 2u64, 1.0f64), (6, 3, 0.8)] {
            out.push(Cfg { n: 4, split: "equal", stakes: stakes_for(4, "equal"), m, k, phi_f, seed: 0 });
        }
    }
    out
}

/// choose the first key seed for which the full honest set aggregates for both messages
pub fn settle_seed(cfg: &Cfg) -> (Cfg, World) {
    let (ma, mb) = messages();
    for seed in 1u8..=40 {
        let mut c = cfg.clone();
        c.seed = seed;
        let w = World::build(&c);
        let ok = [&ma, &mb].iter().all(|msg| {
            let sigs: Vec<SingleSignature> = (0..c.n).filter_map(|i| w.signers[i].create_single_signature(msg).ok()).collect();
            w.aggregate(&sigs, msg).is_ok()
        });
        if ok {
            return (c, w);
        }
    }
    panic!("no seed gives an honest quorum for {}", cfg.label());
}

fn replay(ctx: &Ctx, rep: &mut Report, r: &Reference) {
    let v = mc_core::load_replay(ctx.replay.as_ref().unwrap());
    let (ma, mb) = messages();
    let pick = |m: &Value| if m.as_str() == Some("B") { (mb.clone(), false) } else { (ma.clone(), true) };
    match v["kind"].as_str() {
        Some("aggregate") => {
            let cfg = Cfg::from_json(&v["cfg"]).expect("cfg");
            let w = World::build(&cfg);
            let (msg, is_a) = pick(&v["message"]);
            let cand = Cand::from_json(&v["candidate"]).expect("candidate");
            let case = Case { world: 0, msg_is_a: is_a, depth: 0, honest: false, name: v["mutation"].as_str().unwrap_or("").into(), cand };
            eval_case(&w, r, &msg, &case, rep, true);
        }
        Some("single") => {
            let cfg = Cfg::from_json(&v["cfg"]).expect("cfg");
            let w = World::build(&cfg);
            let (msg, is_a) = pick(&v["message"]);
            let sj = &v["signature"];
            let s = CSig {
                sigma: sj["sigma"].as_array().unwrap().iter().map(|x| x.as_u64().unwrap() as u8).collect(),
                indexes: sj["indexes"].as_array().unwrap().iter().map(|x| x.as_u64().unwrap()).collect(),
                slot: sj["signer_index"].as_u64().unwrap(),
                vk: hex::decode(v["vk"].as_str().unwrap()).unwrap(),
                stake: v["stake"].as_str().unwrap().parse().unwrap(),
            };
            eval_single(&w, r, &msg, is_a, v["mutation"].as_str().unwrap_or(""), &s, rep);
        }
        Some("batch") => {
            let mut worlds = vec![];
            let mut members = vec![];
            for m in v["members"].as_array().unwrap() {
                let cfg = Cfg::from_json(&m["cfg"]).expect("cfg");
                worlds.push(World::build(&cfg));
                let name = m["name"].as_str().unwrap_or("").to_string();
                members.push(Member {
                    world: worlds.len() - 1,
                    msg_is_a: m["message"].as_str() != Some("B"),
                    shifted: name.contains("sigma+") || name.contains("sigma-"),
                    accepted: false,
                    name,
                    cand: Cand::from_json(&m["candidate"]).expect("candidate"),
                });
            }
            let refs: Vec<&Member> = members.iter().collect();
            eval_batch(&worlds, r, &refs, rep);
        }
        _ => rep.machinery_error("replay file has no known kind".into()),
    }
    rep.nontrivial(&0);
    rep.nontrivial(&1);
}

pub fn run(ctx: &Ctx) -> ! {
    let mut rep = Report::new(
        "exploration",
        "every value obtained from a base aggregate (the clerk's aggregate of every signer subset, hand-built un-deduplicated \
         aggregates of every signer subset, hand-made two-party index collisions) by at most d structural mutations (index sets, \
         boundary indices, slot labels, claimed key/stake incl. an adversary key with a genuine signature, sigma substitutions, \
         every batch-path value/index edit, list permutation/duplication/split/drop) is decoded from JSON text, versioned CBOR \
         bytes and the legacy byte layout and verified; single signatures likewise; all ordered pairs/triples of a pool of \
         accepted, rejected and sigma-shifted aggregates over several (message, key) contexts are batch-verified. A case is \
         non-trivial when it decodes and reaches the verifier; distinct = distinct decoded values per (configuration, message)",
    );
    let r = Reference::new();
    if ctx.replay.is_some() {
        replay(ctx, &mut rep, &r);
        rep.finish(ctx);
    }
    let depth = ctx.tier.pick(1usize, 2usize);
    let threads = ctx.threads();
    let (ma, mb) = messages();

    // worlds: two per configuration (the second, with other keys, is the "different key" context of batches)
    let cfgs = configs(ctx.tier);
    let built: Vec<(World, World)> = par_map(&cfgs, threads, |_, c| {
        let (c1, w1) = settle_seed(c);
        let mut c2 = c.clone();
        c2.seed = c1.seed + 40;
        let w2 = loop {
            let w = World::build(&c2);
            let sigs: Vec<SingleSignature> = (0..c2.n).filter_map(|i| w.signers[i].create_single_signature(&ma).ok()).collect();
            if w.aggregate(&sigs, &ma).is_ok() {
                break w;
            }
            c2.seed += 1;
        };
        (w1, w2)
    });
    let mut worlds: Vec<World> = vec![];
    for (a, b) in built {
        worlds.push(a);
        worlds.push(b);
    }
    for w in &worlds {
        // the root the aggregate key commits to must be the root of the registration the harness built
        let t = MiniTree::new(w);
        if t.root() != w.root.as_slice() {
            rep.machinery_error(format!("aggregate key of {} does not commit to the independently computed Merkle root", w.cfg.label()));
        }
    }
    rep.extra("configurations", json!(cfgs.len()));
    rep.extra("max_mutation_depth", json!(depth));
    rep.extra(
        "bounds",
        json!({"parties": if ctx.tier == Tier::Thorough {"1..4"} else {"1..3"}, "stake_splits": ["equal", "1:1000", "1:2^40"],
               "parameters": ["m4 k2 phi1.0", "m6 k3 phi0.8", "m8 k3 phi0.5"], "messages": 2, "batch_sizes": if ctx.tier == Tier::Thorough {"2,3"} else {"2"}}),
    );

    // ---- stage 1: generate the cases of every (primary world, message)
    let units: Vec<(usize, bool)> = (0..cfgs.len()).flat_map(|i| [(2 * i, true), (2 * i, false)]).collect();
    let generated: Vec<Vec<Case>> = par_map(&units, threads, |_, (wi, is_a)| {
        let w = &worlds[*wi];
        let (msg, other) = if *is_a { (&ma, &mb) } else { (&mb, &ma) };
        let mc = MCtx::new(w, &r, msg, other);
        let mut seen: BTreeSet<u64> = BTreeSet::new();
        let mut cases = vec![];
        let bases = mc.bases();
        for (bname, base, honest, _) in &bases {
            if seen.insert(mc_core::hash64(base)) || *honest {
                cases.push(Case { world: *wi, msg_is_a: *is_a, depth: 0, honest: *honest, name: bname.clone(), cand: base.clone() });
            }
        }
        for (bname, base, _, deep_base) in bases.iter() {
            let first: Vec<(String, Cand)> = mc.mutations(base);
            for (n1, c1) in &first {
                if seen.insert(mc_core::hash64(c1)) {
                    cases.push(Case { world: *wi, msg_is_a: *is_a, depth: 1, honest: false, name: format!("{bname}/{n1}"), cand: c1.clone() });
                }
            }
            // two simultaneous deviations: from every aggregate of the clerk and from the hand-built full aggregate
            if depth >= 2 && *deep_base {
                for (n1, c1) in &first {
                    for (n2, c2) in mc.mutations(c1) {
                        if seen.insert(mc_core::hash64(&c2)) {
                            cases.push(Case { world: *wi, msg_is_a: *is_a, depth: 2, honest: false, name: format!("{bname}/{n1}/{n2}"), cand: c2 });
                        }
                    }
                }
            }
        }
        cases
    });
    let cases: Vec<Case> = generated.into_iter().flatten().collect();
    rep.extra("aggregate_candidates", json!(cases.len()));
    rep.extra("aggregate_candidates_by_depth", json!((0..=2).map(|d| cases.iter().filter(|c| c.depth == d).count()).collect::<Vec<_>>()));

    // ---- stage 2: verify every case
    let chunks: Vec<&[Case]> = cases.chunks(64).collect();
    let parts: Vec<(Report, Vec<(usize, String)>)> = par_map(&chunks, threads, |ci, chunk| {
        let mut rp = Report::new("exploration", "");
        let mut labels = vec![];
        for (j, case) in chunk.iter().enumerate() {
            let w = &worlds[case.world];
            let msg = if case.msg_is_a { &ma } else { &mb };
            let v = eval_case(w, &r, msg, case, &mut rp, case.depth <= 1);
            if case.depth <= 1 {
                labels.push((ci * 64 + j, v.label.clone()));
            }
            if rp.samples.len() < 2 && v.accepted && case.depth == 1 {
                rp.sample(json!({"cfg": w.cfg.label(), "mutation": case.name, "verdict": v.label, "candidate": case.cand.short()}));
            }
        }
        (rp, labels)
    });
    let mut labels: BTreeMap<usize, String> = BTreeMap::new();
    for (p, l) in parts {
        rep.merge(p);
        labels.extend(l);
    }

    // ---- single signatures
    let singles: Vec<Report> = par_map(&units, threads, |_, (wi, is_a)| {
        let mut rp = Report::new("exploration", "");
        let w = &worlds[*wi];
        let (msg, other) = if *is_a { (&ma, &mb) } else { (&mb, &ma) };
        let mc = MCtx::new(w, &r, msg, other);
        let mut seen = BTreeSet::new();
        for (name, s) in mc.single_candidates() {
            if seen.insert(mc_core::hash64(&s)) {
                eval_single(w, &r, msg, *is_a, &name, &s, &mut rp);
            }
        }
        rp
    });
    for p in singles {
        rep.merge(p);
    }

    // ---- batches: per configuration, pool over the contexts (W1,A) (W1,B) (W2,A)
    let pool_per_label = ctx.tier.pick(1usize, 1usize);
    let pools: Vec<Vec<Member>> = (0..cfgs.len())
        .map(|ci| {
            let mut pool: Vec<Member> = vec![];
            for (wi, is_a) in [(2 * ci, true), (2 * ci, false)] {
                let mut per_label: BTreeMap<String, usize> = BTreeMap::new();
                let w = &worlds[wi];
                let msg = if is_a { &ma } else { &mb };
                let mut shifted_done = false;
                for (idx, case) in cases.iter().enumerate() {
                    if case.world != wi || case.msg_is_a != is_a || case.depth > 1 {
                        continue;
                    }
                    let Some(l) = labels.get(&idx) else { continue };
                    let class = if case.name.ends_with("sigma=own-over-other-message") && case.cand.sigs.len() == 1 {
                        "swap".to_string()
                    } else if case.name.contains("torsion") {
                        format!("torsion:{l}")
                    } else if l == "accepted" { format!("accepted:{}", if case.honest { "honest" } else if case.cand.sigs.len() == 1 { "one-entry" } else { "mutant" }) } else { l.clone() };
                    let cnt = per_label.entry(class).or_insert(0);
                    if *cnt < pool_per_label && l != "undecodable" {
                        *cnt += 1;
                        pool.push(Member { world: wi, msg_is_a: is_a, name: case.name.clone(), cand: case.cand.clone(), shifted: false, accepted: l == "accepted" });
                    }
                    if !shifted_done && l == "accepted" && case.cand.sigs.len() == 1 {
                        let sh = shifted_members(w, &r, msg, wi, is_a, &case.name, &case.cand);
                        if sh.len() >= 2 {
                            pool.extend(sh.into_iter().take(2));
                            shifted_done = true;
                        }
                    }
                }
            }
            // the other-key context: its honest aggregate and a shifted pair of it when it has one entry
            let w2 = &worlds[2 * ci + 1];
            let sigs: Vec<SingleSignature> = (0..w2.cfg.n).filter_map(|i| w2.signers[i].create_single_signature(&ma).ok()).collect();
            if let Ok(a) = w2.aggregate(&sigs, &ma) {
                let c = aggregate_to_cand(&a).unwrap();
                pool.extend(shifted_members(w2, &r, &ma, 2 * ci + 1, true, "other-key-honest", &c).into_iter().take(2));
                pool.push(Member { world: 2 * ci + 1, msg_is_a: true, name: "other-key-honest".into(), cand: c, shifted: false, accepted: true });
            }
            pool
        })
        .collect();
    rep.extra("batch_pool_sizes", json!(pools.iter().map(|p| p.len()).collect::<Vec<_>>()));
    let mut batches: Vec<(usize, Vec<usize>)> = vec![];
    for (ci, pool) in pools.iter().enumerate() {
        let n = pool.len();
        for a in 0..n {
            for b in 0..n {
                batches.push((ci, vec![a, b]));
            }
        }
        if ctx.tier == Tier::Thorough {
            // triples over the accepted / shifted members plus one representative rejected member
            let small: Vec<usize> = (0..n).filter(|i| pool[*i].shifted || pool[*i].accepted).collect();
            let rejected: Vec<usize> = (0..n).filter(|i| !small.contains(i)).take(2).collect();
            let tri: Vec<usize> = small.into_iter().chain(rejected).collect();
            for &a in &tri {
                for &b in &tri {
                    for &c in &tri {
                        batches.push((ci, vec![a, b, c]));
                    }
                }
            }
        }
    }
    rep.extra("batches", json!(batches.len()));
    let bchunks: Vec<&[(usize, Vec<usize>)]> = batches.chunks(32).collect();
    let bparts: Vec<Report> = par_map(&bchunks, threads, |_, chunk| {
        let mut rp = Report::new("exploration", "");
        for (ci, ids) in chunk.iter() {
            let members: Vec<&Member> = ids.iter().map(|i| &pools[*ci][*i]).collect();
            eval_batch(&worlds, &r, &members, &mut rp);
        }
        rp
    });
    for p in bparts {
        rep.merge(p);
    }

    rep.assume("blst (pairings, subgroup checks), blake2 and num-bigint are trusted: the reference uses them directly");
    rep.assume("the Merkle root is taken as the commitment of the aggregate key (re-derived with an independent 20-line tree); which (key, stake) pairs are committed is decided by membership in the registration the harness built, not by Merkle paths");
    rep.assume("lottery draws within 2^-44 of the exact threshold are not judged (the property's numerically negligible band)");
    rep.assume("the random coefficients of BLS aggregation are the deterministic ones of the enumerated inputs; no claim about adversaries searching for hash collisions");
    rep.finish(ctx)
}
