//! C01 — multi-signature soundness: accepted aggregates carry a real stake quorum.
//!
//! Bounded exhaustive input enumeration on the real verifier. For every configuration of a small
//! lattice (parties × stake splits × parameters × messages) the honest single signatures are
//! produced by the real signers, base aggregates are built (by the real clerk for every signer
//! subset, and by hand: un-deduplicated lists, hand-made cross-signature index collisions), and
//! every value reachable from a base by ≤ d structural mutations is put on the wire (JSON text,
//! versioned CBOR bytes, legacy byte layout written by a harness-side encoder), decoded by the
//! real decoders and handed to `AggregateSignature::verify`. Single signatures take the same
//! route into `SingleSignature::verify`; pools of accepted and rejected values (plus pairs whose
//! sigmas are shifted by ±j·G) go into `AggregateSignature::batch_verify` as all ordered pairs /
//! triples over several (message, key) contexts.
//!
//! Oracle (soundness only): accepted ⇒ the statement of the property holds for the decoded value,
//! judged by `mc-ref` (blst directly, Blake2b dense mapping, exact interval-arithmetic lottery) and
//! by set membership in the registration the harness built. Batch accepted ⇒ every member is
//! accepted alone and satisfies the statement. Honest aggregates must be accepted.

use std::collections::{BTreeMap, BTreeSet};

use blake2::digest::{Digest, consts::U32};
use mc_core::{Ctx, Report, Tier, par_map};
use mithril_stm::{AggregateSignature, Parameters, SingleSignature, VerificationKeyForConcatenation};
use serde_json::{Value, json};

use crate::world::*;

type H256 = blake2::Blake2b<U32>;

fn h256(parts: &[&[u8]]) -> Vec<u8> {
    let mut h = H256::new();
    for p in parts {
        h.update(p);
    }
    h.finalize().to_vec()
}

// ---------------------------------------------------------------------------------------------
// a tiny independent Merkle tree (to build batch paths for hand-made aggregates and to re-derive
// the root the aggregate key must commit to)
// ---------------------------------------------------------------------------------------------

struct MiniTree {
    nodes: Vec<Vec<u8>>,
    n: usize,
}

impl MiniTree {
    /// leaves in slot order: Blake2b-256(vk ‖ stake_be)
    fn new(w: &World) -> MiniTree {
        let n = w.parties.len();
        let mut by_slot: Vec<&Party> = w.parties.iter().collect();
        by_slot.sort_by_key(|p| p.slot);
        let np2 = n.next_power_of_two();
        let num = n + np2 - 1;
        let z = h256(&[&[0u8]]);
        let mut nodes = vec![vec![]; num];
        for (i, p) in by_slot.iter().enumerate() {
            nodes[np2 - 1 + i] = h256(&[&p.vk, &p.stake.to_be_bytes()]);
        }
        for i in (0..np2 - 1).rev() {
            let l = if 2 * i + 1 < num { nodes[2 * i + 1].clone() } else { z.clone() };
            let r = if 2 * i + 2 < num { nodes[2 * i + 2].clone() } else { z.clone() };
            nodes[i] = h256(&[&l, &r]);
        }
        MiniTree { nodes, n }
    }
    fn root(&self) -> &[u8] {
        &self.nodes[0]
    }
    /// sibling hashes needed to open the (sorted) leaf set, bottom-up, left to right
    fn batch_path(&self, slots: &[u64]) -> Vec<Vec<u8>> {
        let off = self.n.next_power_of_two() - 1;
        let mut idx: Vec<usize> = slots.iter().map(|s| *s as usize + off).collect();
        let mut out = vec![];
        while !idx.is_empty() && idx[0] > 0 {
            let mut next = vec![];
            let mut i = 0;
            while i < idx.len() {
                let me = idx[i];
                let sib = if me % 2 == 1 { me + 1 } else { me - 1 };
                next.push((me - 1) / 2);
                if i + 1 < idx.len() && idx[i + 1] == sib {
                    i += 1;
                } else if sib < self.nodes.len() {
                    out.push(self.nodes[sib].clone());
                }
                i += 1;
            }
            idx = next;
        }
        out
    }
}

// ---------------------------------------------------------------------------------------------
// context of one (configuration, message)
// ---------------------------------------------------------------------------------------------

struct Adversary {
    sk: blst::min_sig::SecretKey,
    vk: Vec<u8>,
}

impl Adversary {
    fn new() -> Adversary {
        let sk = blst::min_sig::SecretKey::key_gen(&[0xADu8; 32], &[]).expect("keygen");
        let vk = sk.sk_to_pk().to_bytes().to_vec();
        Adversary { sk, vk }
    }
    fn sign(&self, bytes: &[u8]) -> Vec<u8> {
        self.sk.sign(bytes, &[], &[]).to_bytes().to_vec()
    }
}

struct MCtx<'a> {
    w: &'a World,
    r: &'a Reference,
    msg: Vec<u8>,
    other: Vec<u8>,
    honest: Vec<Option<CSig>>,
    honest_other: Vec<Option<CSig>>,
    tree: MiniTree,
    /// the independent tree reproduces the root the real aggregate key commits to; when it does not (the
    /// tree / leaf encoding under test changed) the hand-built bases, which need its structure, are skipped
    tree_ok: bool,
    adv: Adversary,
    torsion: Vec<blst::blst_p1>,
}

pub fn messages() -> (Vec<u8>, Vec<u8>) {
    (b"mithril-verif message A".to_vec(), b"another message (B), longer than the first one".to_vec())
}

impl<'a> MCtx<'a> {
    fn new(w: &'a World, r: &'a Reference, msg: &[u8], other: &[u8]) -> MCtx<'a> {
        let n = w.parties.len();
        MCtx {
            w,
            r,
            msg: msg.to_vec(),
            other: other.to_vec(),
            honest: (0..n).map(|i| w.honest(i, msg)).collect(),
            honest_other: (0..n).map(|i| w.honest(i, other)).collect(),
            tree: MiniTree::new(w),
            tree_ok: MiniTree::new(w).root() == w.root.as_slice(),
            adv: Adversary::new(),
            torsion: torsion_points(),
        }
    }

    /// full winning list of the registered party that owns `vk` (empty for unknown keys)
    fn won_by_key(&self, vk: &[u8]) -> Vec<u64> {
        self.w
            .parties
            .iter()
            .position(|p| p.vk == vk)
            .and_then(|i| self.honest[i].as_ref())
            .map(|s| s.indexes.clone())
            .unwrap_or_default()
    }

    /// hand-built aggregate: the given entries in slot order with the genuine batch path
    fn hand_built(&self, mut entries: Vec<CSig>) -> Cand {
        entries.sort_by_key(|e| e.slot);
        let slots: Vec<u64> = entries.iter().map(|e| e.slot).collect();
        Cand { path_values: self.tree.batch_path(&slots), path_indices: slots, sigs: entries }
    }

    /// base aggregates: (name, value, honest?, explored to full depth?), and observations
    fn bases(&self, notes: &mut BTreeMap<String, u64>) -> Vec<(String, Cand, bool, bool)> {
        let n = self.w.parties.len();
        let mut out: Vec<(String, Cand, bool, bool)> = vec![];
        let mut note = |k: &str| *notes.entry(k.to_string()).or_insert(0) += 1;
        let full_mask: u32 = (0..n).filter(|i| self.honest[*i].is_some()).map(|i| 1u32 << i).sum();
        for mask in 1u32..(1 << n) {
            let members: Vec<usize> = (0..n).filter(|i| mask & (1 << i) != 0 && self.honest[*i].is_some()).collect();
            if members.len() != (mask.count_ones() as usize) {
                continue;
            }
            let sigs: Vec<SingleSignature> = members.iter().filter_map(|i| decode_single_json(self.honest[*i].as_ref().unwrap()).ok()).collect();
            if sigs.len() != members.len() {
                note("honest_signature_does_not_decode_from_its_own_json");
            } else if let Ok(a) = self.w.aggregate(&sigs, &self.msg) {
                // every aggregate the real clerk produces is explored to the full mutation depth
                match aggregate_to_cand(&a) {
                    Some(c) => out.push((format!("clerk{members:?}"), c, true, true)),
                    None => note("clerk_aggregate_json_form_not_readable_by_the_harness"),
                }
            }
            if self.tree_ok {
                let entries: Vec<CSig> = members.iter().map(|i| self.honest[*i].clone().unwrap()).collect();
                out.push((format!("hand{members:?}"), self.hand_built(entries), false, mask == full_mask));
            } else {
                note("hand_built_bases_skipped_(merkle_structure_of_the_tree_under_test_unknown)");
            }
        }
        // hand-made cross-signature collisions: two parties, both claiming only one common index
        for p in 0..n {
            for q in p + 1..n {
                if let (Some(a), Some(b)) = (&self.honest[p], &self.honest[q])
                    && let Some(common) = a.indexes.iter().find(|i| b.indexes.contains(i))
                {
                    if !self.tree_ok {
                        note("hand_built_bases_skipped_(merkle_structure_of_the_tree_under_test_unknown)");
                        continue;
                    }
                    let mut ea = a.clone();
                    let mut eb = b.clone();
                    ea.indexes = vec![*common];
                    eb.indexes = vec![*common];
                    out.push((format!("collide[{p},{q}]@{common}"), self.hand_built(vec![ea, eb]), false, false));
                }
            }
        }
        out
    }

    /// every single structural mutation of `c`
    fn mutations(&self, c: &Cand) -> Vec<(String, Cand)> {
        let mut out: Vec<(String, Cand)> = vec![];
        let w = self.w;
        let m = w.params.m;
        let n = w.parties.len() as u64;
        let msgp = w.msgp(&self.msg);
        let mut push = |name: String, v: Cand| out.push((name, v));
        for (p, e) in c.sigs.iter().enumerate() {
            let with = |f: &dyn Fn(&mut CSig)| {
                let mut v = c.clone();
                f(&mut v.sigs[p]);
                v
            };
            let won = {
                let full = self.won_by_key(&e.vk);
                if full.is_empty() { e.indexes.clone() } else { full }
            };
            // --- index sets
            let mut sets: Vec<Vec<u64>> = vec![];
            if won.len() <= 4 {
                for mask in 0u32..(1 << won.len()) {
                    sets.push(won.iter().enumerate().filter(|(i, _)| mask & (1 << i) != 0).map(|(_, x)| *x).collect());
                }
            } else {
                for l in 0..=won.len() {
                    sets.push(won[..l].to_vec());
                }
                sets.push(won[won.len() / 2..].to_vec());
            }
            for s in sets {
                if s != e.indexes {
                    let s2 = s.clone();
                    push(format!("sig{p}.indexes={s:?}"), with(&move |x| x.indexes = s2.clone()));
                }
            }
            let mut extra: Vec<(String, u64)> = vec![];
            if let Some(lost) = (0..m).find(|i| !won.contains(i)) {
                extra.push(("lost".into(), lost));
            }
            extra.push(("m-1".into(), m - 1));
            extra.push(("m".into(), m));
            extra.push(("m+1".into(), m + 1));
            extra.push(("u64max".into(), u64::MAX));
            for (nm, v) in extra {
                if !e.indexes.contains(&v) {
                    push(format!("sig{p}.indexes+={nm}"), with(&move |x| x.indexes.push(v)));
                    if !e.indexes.is_empty() {
                        push(format!("sig{p}.indexes.last={nm}"), with(&move |x| *x.indexes.last_mut().unwrap() = v));
                    }
                }
            }
            if let Some(&f) = e.indexes.first() {
                push(format!("sig{p}.indexes+=dup({f})"), with(&move |x| x.indexes.push(f)));
                let k = w.params.k as usize;
                push(format!("sig{p}.indexes=[{f};{k}]"), with(&move |x| x.indexes = vec![f; k]));
            }
            for (q, o) in c.sigs.iter().enumerate() {
                if q != p
                    && let Some(&f) = o.indexes.first()
                    && !e.indexes.contains(&f)
                {
                    push(format!("sig{p}.indexes+=first-of-sig{q}({f})"), with(&move |x| x.indexes.push(f)));
                }
            }
            // --- signer slot label
            let mut slots: Vec<u64> = (0..n).collect();
            slots.extend([n, n + 1, u64::MAX]);
            for s in slots {
                if s != e.slot {
                    push(format!("sig{p}.slot={s}"), with(&move |x| x.slot = s));
                }
            }
            // --- claimed (key, stake)
            for (q, party) in w.parties.iter().enumerate() {
                if party.vk != e.vk || party.stake != e.stake {
                    let (vk, st) = (party.vk.clone(), party.stake);
                    push(format!("sig{p}.party=party{q}"), with(&move |x| {
                        x.vk = vk.clone();
                        x.stake = st;
                    }));
                }
            }
            if e.stake < u64::MAX {
                push(format!("sig{p}.stake+1"), with(&|x| x.stake += 1));
            }
            if e.stake != w.total {
                let t = w.total;
                push(format!("sig{p}.stake=total"), with(&move |x| x.stake = t));
            }
            // an adversary's own fresh key with a genuine signature by it
            let adv_sigma = self.adv.sign(&msgp);
            for (nm, st) in [("total", w.total), ("same", e.stake)] {
                let wins = self.r.winning(&w.view, &msgp, &adv_sigma, st);
                let mut variants = vec![("all", (0..m).collect::<Vec<u64>>())];
                if !wins.is_empty() && wins.len() as u64 != m {
                    variants.push(("won", wins));
                }
                for (vn, idx) in variants {
                    let (vk, sg) = (self.adv.vk.clone(), adv_sigma.clone());
                    push(format!("sig{p}=adversary-key(stake={nm},indexes={vn})"), with(&move |x| {
                        x.vk = vk.clone();
                        x.sigma = sg.clone();
                        x.stake = st;
                        x.indexes = idx.clone();
                    }));
                }
            }
            // --- sigma
            for (q, o) in self.honest.iter().enumerate() {
                if let Some(o) = o
                    && o.sigma != e.sigma
                {
                    let sg = o.sigma.clone();
                    push(format!("sig{p}.sigma=party{q}"), with(&move |x| x.sigma = sg.clone()));
                }
            }
            if let Some(i) = w.parties.iter().position(|party| party.vk == e.vk) {
                let sg = w.raw_sign(i, &w.msgp(&self.other));
                push(format!("sig{p}.sigma=own-over-other-message"), with(&move |x| x.sigma = sg.clone()));
                let sg = w.raw_sign(i, &self.msg);
                push(format!("sig{p}.sigma=own-over-bare-message"), with(&move |x| x.sigma = sg.clone()));
                if let Some(o) = &self.honest_other[i] {
                    let o = o.clone();
                    push(format!("sig{p}=own-signature-on-other-message"), with(&move |x| {
                        x.sigma = o.sigma.clone();
                        x.indexes = o.indexes.clone();
                    }));
                }
            }
            let mut inf = vec![0u8; 48];
            inf[0] = 0xc0;
            push(format!("sig{p}.sigma=identity"), with(&move |x| x.sigma = inf.clone()));
            if let Some(sg) = sigma_shift(&e.sigma, 1) {
                push(format!("sig{p}.sigma+=G"), with(&move |x| x.sigma = sg.clone()));
            }
            // sigma + j·T with T on the curve but outside G1: invisible to a pairing, and new bytes mean new
            // lottery draws. Claimed indices: (a) unchanged, (b) what the new bytes win for the claimed stake
            for (ti, t) in self.torsion.iter().enumerate() {
                for j in [1u32, 2] {
                    let Some(sg) = sigma_plus_torsion(&e.sigma, t, j) else { continue };
                    let sg2 = sg.clone();
                    push(format!("sig{p}.sigma+={j}*torsion{ti}"), with(&move |x| x.sigma = sg2.clone()));
                    let wins = self.r.winning(&w.view, &msgp, &sg, e.stake);
                    if !wins.is_empty() && wins != e.indexes {
                        push(format!("sig{p}.sigma+={j}*torsion{ti},indexes=won-by-new-bytes"), with(&move |x| {
                            x.sigma = sg.clone();
                            x.indexes = wins.clone();
                        }));
                    }
                }
            }
        }
        // --- batch path
        let z = h256(&[&[0u8]]);
        for i in 0..c.path_values.len() {
            let mut v = c.clone();
            v.path_values.remove(i);
            push(format!("path.values.drop({i})"), v);
            let mut v = c.clone();
            let d = v.path_values[i].clone();
            v.path_values.insert(i, d);
            push(format!("path.values.dup({i})"), v);
            let mut v = c.clone();
            v.path_values[i] = vec![0u8; 32];
            push(format!("path.values[{i}]=zeros"), v);
            let mut v = c.clone();
            v.path_values[i] = z.clone();
            push(format!("path.values[{i}]=H(0)"), v);
            let mut v = c.clone();
            v.path_values[i].truncate(31);
            push(format!("path.values[{i}].truncate"), v);
            if i + 1 < c.path_values.len() {
                let mut v = c.clone();
                v.path_values.swap(i, i + 1);
                push(format!("path.values.swap({i})"), v);
            }
        }
        if !c.path_values.is_empty() {
            let mut v = c.clone();
            v.path_values.clear();
            push("path.values=[]".into(), v);
        }
        {
            let mut v = c.clone();
            v.path_values.push(z.clone());
            push("path.values+=H(0)".into(), v);
        }
        if !c.path_indices.is_empty() {
            let mut v = c.clone();
            v.path_indices.clear();
            push("path.indices=[]".into(), v);
            let mut v = c.clone();
            v.path_indices.reverse();
            if v != *c {
                push("path.indices.reverse".into(), v);
            }
        }
        for i in 0..c.path_indices.len() {
            let cur = c.path_indices[i];
            let mut vals = vec![cur.wrapping_add(1), n, u64::MAX];
            if cur > 0 {
                vals.push(cur - 1);
            }
            vals.sort();
            vals.dedup();
            for x in vals {
                if x != cur {
                    let mut v = c.clone();
                    v.path_indices[i] = x;
                    push(format!("path.indices[{i}]={x}"), v);
                }
            }
            let mut v = c.clone();
            v.path_indices.insert(i, cur);
            push(format!("path.indices.dup({i})"), v);
            let mut v = c.clone();
            v.path_indices.remove(i);
            push(format!("path.indices.drop({i})"), v);
        }
        // --- signature list
        for p in 0..c.sigs.len() {
            if p + 1 < c.sigs.len() {
                let mut v = c.clone();
                v.sigs.swap(p, p + 1);
                push(format!("sigs.swap({p})"), v);
            }
            for with_path in [false, true] {
                let mut v = c.clone();
                let d = v.sigs[p].clone();
                v.sigs.insert(p, d);
                if with_path && p < v.path_indices.len() {
                    let x = v.path_indices[p];
                    v.path_indices.insert(p, x);
                }
                push(format!("sigs.dup({p},path={with_path})"), v);
                let mut v = c.clone();
                v.sigs.remove(p);
                if with_path && p < v.path_indices.len() {
                    v.path_indices.remove(p);
                }
                push(format!("sigs.drop({p},path={with_path})"), v);
                if c.sigs[p].indexes.len() >= 2 {
                    let mut v = c.clone();
                    let h = v.sigs[p].indexes.len() / 2;
                    let mut second = v.sigs[p].clone();
                    second.indexes = v.sigs[p].indexes[h..].to_vec();
                    v.sigs[p].indexes.truncate(h);
                    v.sigs.insert(p + 1, second);
                    if with_path && p < v.path_indices.len() {
                        let x = v.path_indices[p];
                        v.path_indices.insert(p, x);
                    }
                    push(format!("sigs.split({p},path={with_path})"), v);
                }
            }
        }
        if !c.sigs.is_empty() {
            let mut v = c.clone();
            v.sigs.clear();
            push("sigs=[]".into(), v);
        }
        // an extra entry under the adversary's own key (genuine signature by it), claiming indices nobody else claims
        {
            let adv_sigma = self.adv.sign(&msgp);
            let used = c.all_indexes();
            let free: Vec<u64> = self.r.winning(&w.view, &msgp, &adv_sigma, w.total).into_iter().filter(|i| !used.contains(i)).collect();
            let entry = CSig { sigma: adv_sigma, indexes: free, slot: n, vk: self.adv.vk.clone(), stake: w.total };
            for (pn, extra_path) in [("unchanged", None), ("index-n-appended", Some(n)), ("last-index-repeated", c.path_indices.last().copied())] {
                let mut v = c.clone();
                v.sigs.push(entry.clone());
                if pn != "unchanged" {
                    let Some(x) = extra_path else { continue };
                    v.path_indices.push(x);
                }
                push(format!("sigs+=adversary-entry(path={pn})"), v);
            }
        }
        out
    }

    /// single-signature candidates: (name, value, claimed key, claimed stake)
    fn single_candidates(&self) -> Vec<(String, CSig)> {
        let mut out = vec![];
        for (i, h) in self.honest.iter().enumerate() {
            let Some(h) = h else { continue };
            out.push((format!("honest{i}"), h.clone()));
            // reuse the per-entry alphabet through a one-entry aggregate
            let one = Cand { sigs: vec![h.clone()], path_values: vec![], path_indices: vec![] };
            for (name, c) in self.mutations(&one) {
                // the (key, stake) handed to SingleSignature::verify comes from the verifier's own view of the
                // registration, it is not attacker-controlled: only registered pairs are in scope
                if name.starts_with("sig0") && c.sigs.len() == 1 && self.w.is_registered(&c.sigs[0].vk, c.sigs[0].stake) {
                    out.push((format!("honest{i}:{name}"), c.sigs[0].clone()));
                }
            }
        }
        out
    }
}

// ---------------------------------------------------------------------------------------------
// evaluation
// ---------------------------------------------------------------------------------------------

struct Case {
    world: usize,
    msg_is_a: bool,
    depth: usize,
    honest: bool,
    name: String,
    cand: Cand,
}

fn case_json(w: &World, msg_is_a: bool, name: &str, c: &Cand) -> Value {
    json!({"kind": "aggregate", "cfg": w.cfg.to_json(), "message": if msg_is_a {"A"} else {"B"}, "mutation": name, "candidate": c.to_json(), "summary": c.short()})
}

/// decode one candidate in its wire forms; returns (form name, decoded value)
fn decode_forms(c: &Cand, rep: &mut Report, all_forms: bool) -> Vec<(&'static str, AggregateSignature<D>)> {
    let mut forms = vec![];
    match decode_aggregate_json(c) {
        Ok(a) => {
            if all_forms {
                match a.to_bytes() {
                    Ok(b) => match decode_aggregate_bytes(&b) {
                        Ok(a2) => forms.push(("cbor", a2)),
                        Err(_) => rep.add_extra("cbor_reencoding_not_decodable", 1),
                    },
                    Err(_) => rep.add_extra("cbor_encoding_failed", 1),
                }
            }
            forms.insert(0, ("json", a));
        }
        Err(_) => rep.add_extra("undecodable_json", 1),
    }
    if all_forms && let Some(b) = c.to_legacy_bytes() {
        match decode_aggregate_bytes(&b) {
            Ok(a3) => forms.push(("legacy", a3)),
            Err(_) => rep.add_extra("undecodable_legacy", 1),
        }
    }
    forms
}

struct Verdicts {
    /// accepted in at least one form, and the statement holds for it
    accepted: bool,
    label: String,
}

fn eval_case(w: &World, r: &Reference, msg: &[u8], case: &Case, rep: &mut Report, all_forms: bool) -> Verdicts {
    let mut forms = decode_forms(&case.cand, rep, all_forms);
    if case.name.contains("torsion") && case.cand.sigs.iter().any(|e| sigma_outside_g1(&e.sigma)) {
        rep.add_extra("torsion_sigma_candidates", 1);
        if forms.is_empty() {
            rep.add_extra("torsion_sigma_candidates_rejected_at_decode_in_every_form", 1);
        }
    }
    let mut accepted = false;
    let mut label = String::from("undecodable");
    let mut verdicts: Vec<(&str, bool)> = vec![];
    let mut i = 0;
    while i < forms.len() {
        let (form, a) = (&forms[i].0, &forms[i].1);
        let form: &'static str = form;
        rep.eval();
        // what the verifier holds, read back through the value's own JSON form (the wire model when that fails)
        let decoded = aggregate_to_cand(a).unwrap_or_else(|| {
            rep.add_extra("decoded_value_has_no_readable_json_form(wire_model_judged)", 1);
            case.cand.clone()
        });
        if decoded != case.cand {
            rep.add_extra("decoded_value_differs_from_wire_model", 1);
        }
        rep.nontrivial(&(w.cfg.label(), case.msg_is_a, &decoded));
        let res = w.verify(a, msg);
        verdicts.push((form, res.is_ok()));
        match &res {
            Ok(()) => {
                accepted = true;
                label = "accepted".into();
                match r.aggregate(&w.view, msg, &decoded) {
                    Judge::Holds => rep.outcome("accepted"),
                    Judge::CannotJudge => rep.outcome("accepted:draw-inside-negligible-band(not judged)"),
                    Judge::Fails(key, why) => {
                        rep.outcome("accepted:UNSOUND");
                        rep.violation(
                            &format!("C01/{key}"),
                            format!(
                                "AggregateSignature::verify accepted ({form} form, cfg {}, mutation '{}') although {why}",
                                w.cfg.label(),
                                case.name
                            ),
                            case_json(w, case.msg_is_a, &case.name, &decoded),
                        );
                    }
                }
            }
            Err(e) => {
                let l = reject_label(e);
                if l == "panic" {
                    rep.add_extra("panics_observed", 1);
                    let loc = e.rsplit(" at ").next().unwrap_or("?");
                    let loc = loc.rsplit("/mithril-stm/").next().unwrap_or(loc);
                    rep.add_extra(&format!("panic_at:{loc}"), 1);
                }
                if !accepted {
                    label = format!("rejected:{l}");
                }
                rep.outcome(&format!("rejected:{l}"));
                if case.honest {
                    rep.violation(
                        "C01/honest-aggregate-rejected",
                        format!("the clerk's own aggregate is rejected in {form} form (cfg {}, {}): {e}", w.cfg.label(), case.name),
                        case_json(w, case.msg_is_a, &case.name, &decoded),
                    );
                }
            }
        }
        // rejected deep candidates are judged in their JSON form only; accepted ones in all forms
        if !all_forms && res.is_ok() && forms.len() == 1 {
            let more = decode_forms(&case.cand, rep, true);
            forms.extend(more.into_iter().filter(|(f, _)| *f != "json"));
        }
        i += 1;
    }
    if verdicts.iter().any(|v| v.1) && verdicts.iter().any(|v| !v.1) {
        rep.add_extra("verdict_differs_between_wire_forms", 1);
    }
    Verdicts { accepted, label }
}

fn eval_single(w: &World, r: &Reference, msg: &[u8], msg_is_a: bool, name: &str, s: &CSig, rep: &mut Report) {
    let Ok(vk) = VerificationKeyForConcatenation::from_bytes(&s.vk) else {
        rep.add_extra("single_claimed_key_undecodable", 1);
        return;
    };
    let mut forms: Vec<(&str, SingleSignature)> = vec![];
    match decode_single_json(s) {
        Ok(a) => {
            if let Ok(b) = a.to_bytes()
                && let Ok(a2) = decode_single_bytes(&b)
            {
                forms.push(("cbor", a2));
            }
            forms.insert(0, ("json", a));
        }
        Err(_) => rep.add_extra("undecodable_json", 1),
    }
    match decode_single_bytes(&s.single_legacy()) {
        Ok(a) => forms.push(("legacy", a)),
        Err(_) => rep.add_extra("undecodable_legacy", 1),
    }
    if name.contains("torsion") && sigma_outside_g1(&s.sigma) {
        rep.add_extra("torsion_sigma_single_candidates", 1);
        if forms.is_empty() {
            rep.add_extra("torsion_sigma_single_candidates_rejected_at_decode_in_every_form", 1);
        }
    }
    for (form, a) in forms {
        rep.eval();
        let decoded = single_to_csig(&a, &s.vk, s.stake).unwrap_or_else(|| s.clone());
        rep.nontrivial(&("single", w.cfg.label(), msg_is_a, &decoded));
        let res = match mc_core::catch(|| a.verify::<D>(&w.params, &vk, &s.stake, &w.avk, msg)) {
            Ok(Ok(())) => Ok(()),
            Ok(Err(e)) => Err(format!("{e:#}")),
            Err(p) => Err(format!("panic: {p}")),
        };
        match res {
            Ok(()) => match r.single(&w.view, msg, &decoded) {
                Judge::Holds => {
                    rep.outcome("single:accepted");
                }
                Judge::CannotJudge => rep.outcome("single:accepted:draw-inside-negligible-band(not judged)"),
                Judge::Fails(key, why) => {
                    rep.outcome("single:accepted:UNSOUND");
                    rep.violation(
                        &format!("C01/{key}"),
                        format!("SingleSignature::verify accepted ({form} form, cfg {}, '{name}') although {why}", w.cfg.label()),
                        json!({"kind": "single", "cfg": w.cfg.to_json(), "message": if msg_is_a {"A"} else {"B"}, "mutation": name,
                               "signature": decoded.single_json(), "vk": hex::encode(&decoded.vk), "stake": decoded.stake.to_string(), "summary": decoded.short()}),
                    );
                }
            },
            Err(e) => {
                let l = reject_label(&e);
                rep.outcome(&format!("single:rejected:{l}"));
                if name.starts_with("honest") && !name.contains(':') {
                    rep.violation(
                        "C01/honest-single-signature-rejected",
                        format!("a registered signer's own signature is rejected ({form} form, cfg {}): {e}", w.cfg.label()),
                        json!({"kind": "single", "cfg": w.cfg.to_json(), "message": if msg_is_a {"A"} else {"B"}, "mutation": name,
                               "signature": decoded.single_json(), "vk": hex::encode(&decoded.vk), "stake": decoded.stake.to_string()}),
                    );
                }
            }
        }
    }
}

// ---------------------------------------------------------------------------------------------
// batches
// ---------------------------------------------------------------------------------------------

#[derive(Clone)]
struct Member {
    world: usize,
    msg_is_a: bool,
    name: String,
    cand: Cand,
    /// built by shifting a sigma by ±j·G (input class of the cross-member cancellation)
    shifted: bool,
    /// accepted when verified alone (pooling class)
    accepted: bool,
}

/// sigma-shifted variants of a one-entry accepted aggregate: sigma ± G with the index set the
/// shifted sigma wins (an adversary is free to claim any indices)
fn shifted_members(w: &World, r: &Reference, msg: &[u8], world: usize, msg_is_a: bool, name: &str, c: &Cand) -> Vec<Member> {
    let mut out = vec![];
    if c.sigs.len() != 1 {
        return out;
    }
    let msgp = w.msgp(msg);
    for j in [1i64, -1, 2, -2] {
        let Some(sg) = sigma_shift(&c.sigs[0].sigma, j) else { continue };
        let wins = r.winning(&w.view, &msgp, &sg, c.sigs[0].stake);
        if (wins.len() as u64) < w.params.k {
            continue;
        }
        let mut v = c.clone();
        v.sigs[0].sigma = sg;
        v.sigs[0].indexes = wins;
        out.push(Member { world, msg_is_a, name: format!("{name}:sigma{j:+}G"), cand: v, shifted: true, accepted: false });
    }
    out
}

fn eval_batch(worlds: &[World], r: &Reference, members: &[&Member], rep: &mut Report) {
    let (ma, mb) = messages();
    let mut sigs = vec![];
    let mut msgs = vec![];
    let mut avks = vec![];
    let mut params: Vec<Parameters> = vec![];
    for m in members {
        let Ok(a) = decode_aggregate_json(&m.cand) else { return };
        // batch members travel as CBOR bytes
        let a = match a.to_bytes().ok().and_then(|b| decode_aggregate_bytes(&b).ok()) {
            Some(a2) => a2,
            None => a,
        };
        sigs.push(a);
        msgs.push(if m.msg_is_a { ma.clone() } else { mb.clone() });
        avks.push(worlds[m.world].avk.clone());
        params.push(worlds[m.world].params);
    }
    rep.eval();
    let none_v = vec![None; members.len()];
    let none_g = vec![None; members.len()];
    let res = match mc_core::catch(|| AggregateSignature::<D>::batch_verify(&sigs, &msgs, &avks, &params, &none_v, &none_g)) {
        Ok(Ok(())) => Ok(()),
        Ok(Err(e)) => Err(format!("{e:#}")),
        Err(p) => Err(format!("panic: {p}")),
    };
    let canon: Vec<(String, bool, &Cand)> = members.iter().map(|m| (worlds[m.world].cfg.label(), m.msg_is_a, &m.cand)).collect();
    rep.nontrivial(&("batch", &canon));
    match res {
        Err(e) => rep.outcome(&format!("batch:rejected:{}", reject_label(&e))),
        Ok(()) => {
            let mut bad = vec![];
            let mut only_bls = true;
            for (i, m) in members.iter().enumerate() {
                let w = &worlds[m.world];
                let alone = w.verify(&sigs[i], &msgs[i]);
                let judged = r.aggregate(&w.view, &msgs[i], &aggregate_to_cand(&sigs[i]).unwrap_or_else(|| m.cand.clone()));
                if let Err(e) = &alone {
                    only_bls &= reject_label(e) == "bls-invalid";
                    bad.push(format!("member {i} ('{}', message {}, cfg {}) is rejected alone: {}", m.name, if m.msg_is_a {"A"} else {"B"}, w.cfg.label(), reject_label(e)));
                } else if let Judge::Fails(_, why) = judged {
                    only_bls = false;
                    bad.push(format!("member {i} ('{}', cfg {}) does not satisfy the statement: {why}", m.name, w.cfg.label()));
                }
            }
            if bad.is_empty() {
                rep.outcome("batch:accepted");
            } else {
                rep.outcome("batch:accepted:UNSOUND");
                // classify by the failing call site: members that pass every per-member check and fail only the
                // final pairing check when alone point at the summed pairing check of the batch; anything else
                // means a per-member check was skipped
                let key = if only_bls { "C01/batch-checks-only-the-sum-of-member-signatures" } else { "C01/batch-accepts-member-rejected-alone" };
                rep.violation(
                    key,
                    format!("AggregateSignature::batch_verify accepted a batch of {} although {}", members.len(), bad.join("; ")),
                    json!({"kind": "batch", "members": members.iter().map(|m| json!({
                        "cfg": worlds[m.world].cfg.to_json(), "message": if m.msg_is_a {"A"} else {"B"}, "name": m.name,
                        "candidate": m.cand.to_json(), "summary": m.cand.short()})).collect::<Vec<_>>()}),
                );
            }
        }
    }
}

// ---------------------------------------------------------------------------------------------
// driver
// ---------------------------------------------------------------------------------------------

/// Structure-independent oracle through the real API only: the aggregate key commits to every
/// registered (key, stake). For every party j the registration is rebuilt with (a) one unit of
/// stake moved to j from another party (total unchanged; a lone party just gets +1) and (b) j's key
/// replaced by a fresh valid key. Aggregates produced by the real signers and clerk of the variant
/// are verified under the original key and vice versa; an acceptance is judged by the reference
/// against the registration the verifying key belongs to.
fn commitment_probe(w: &World, r: &Reference, rep: &mut Report, only: Option<(usize, &str)>) {
    let n = w.parties.len();
    let (ma, _) = messages();
    for j in 0..n {
        for variant in ["stake", "key"] {
            if only.is_some_and(|o| o != (j, variant)) {
                continue;
            }
            let mut inits: Vec<mithril_stm::Initializer> = w.parties.iter().map(|p| p.init.clone()).collect();
            if variant == "stake" {
                let donor = (0..n).filter(|l| *l != j && inits[*l].stake >= 2).max_by_key(|l| inits[*l].stake);
                inits[j].stake += 1;
                if let Some(l) = donor {
                    inits[l].stake -= 1;
                }
            } else {
                let Ok(fresh) = World::fresh_initializer(&w.cfg, inits[j].stake, j as u8) else { continue };
                inits[j] = fresh;
            }
            let mut cfg2 = w.cfg.clone();
            cfg2.stakes = inits.iter().map(|i| i.stake).collect();
            cfg2.split = "custom";
            rep.eval();
            let w2 = match World::try_from_inits(&cfg2, inits) {
                Ok(w2) => w2,
                Err(_) => {
                    rep.outcome("commitment:variant-registration-not-buildable");
                    continue;
                }
            };
            rep.nontrivial(&("commitment", w.cfg.label(), j, variant));
            let same_key = w2.avk == w.avk;
            let mut accepted_forgery = false;
            let mut cross_accepted_true = 0u64;
            let mut probes = 0u64;
            // (producer, verifier): an aggregate made in `prod` must not be accepted under `ver`'s key
            // unless every pair it carries is registered in `ver` too
            for (prod, ver, dir) in [(&w2, w, "variant→original"), (w, &w2, "original→variant")] {
                for mask in 1u32..(1 << n) {
                    if mask & (1 << j) == 0 {
                        continue;
                    }
                    let sigs: Vec<SingleSignature> = (0..n)
                        .filter(|i| mask & (1 << i) != 0)
                        .filter_map(|i| mc_core::catch(|| prod.signers[i].create_single_signature(&ma).ok()).ok().flatten())
                        .collect();
                    let Ok(a) = prod.aggregate(&sigs, &ma) else { continue };
                    probes += 1;
                    if ver.verify(&a, &ma).is_err() {
                        continue;
                    }
                    let Some(c) = aggregate_to_cand(&a) else { continue };
                    match r.aggregate(&ver.view, &ma, &c) {
                        Judge::Fails(key, why) => {
                            accepted_forgery = true;
                            let key = if same_key { "aggregate-key-does-not-commit-to-registered-party" } else { key };
                            rep.violation(
                                &format!("C01/{key}"),
                                format!(
                                    "cfg {}: registration variant '{variant}' of party {j} (stakes {:?}{}) has {} aggregate key; an aggregate produced by the real signers and clerk of one registration is accepted under the key of the other ({dir}) although {why}",
                                    w.cfg.label(),
                                    cfg2.stakes,
                                    if variant == "key" { ", fresh key" } else { "" },
                                    if same_key { "the SAME" } else { "a different" }
                                ),
                                json!({"kind": "commitment", "cfg": w.cfg.to_json(), "party": j, "variant": variant, "summary": c.short()}),
                            );
                        }
                        _ => cross_accepted_true += 1,
                    }
                }
            }
            rep.add_extra("commitment_cross_verifications", probes);
            rep.add_extra("commitment_cross_accepted_with_only_commonly_registered_pairs", cross_accepted_true);
            rep.outcome(match (same_key, accepted_forgery) {
                (false, false) => "commitment:keys-differ",
                (false, true) => "commitment:keys-differ:UNSOUND",
                (true, true) => "commitment:KEYS-EQUAL:UNSOUND",
                (true, false) => "commitment:KEYS-EQUAL(no aggregate of the changed party could be produced to confirm)",
            });
        }
    }
}

pub fn configs(tier: Tier) -> Vec<Cfg> {
    let mut out = vec![];
    for n in 1..=3usize {
        for split in ["equal", "skew1000", "skew2p40"] {
            if n == 1 && split != "equal" {
                continue;
            }
            for (m, k, phi_f) in [(4u64, 2u64, 1.0f64), (6, 3, 0.8), (8, 3, 0.5)] {
                out.push(Cfg { n, split, stakes: stakes_for(n, split), m, k, phi_f, seed: 0 });
            }
        }
    }
    if tier == Tier::Thorough {
        for (m, k, phi_f) in [(4u64, 2u64, 1.0f64), (6, 3, 0.8)] {
            out.push(Cfg { n: 4, split: "equal", stakes: stakes_for(4, "equal"), m, k, phi_f, seed: 0 });
        }
    }
    out
}

/// choose the first key seed for which the full honest set aggregates for both messages. When no
/// seed does (the signer / aggregator under test is broken) the first buildable world is used: the
/// oracles then judge whatever the real code produces. Err: the honest world cannot be built at all.
pub fn settle_seed(cfg: &Cfg) -> Result<(Cfg, World), String> {
    let (ma, mb) = messages();
    let mut first: Option<(Cfg, World)> = None;
    let mut last_err = String::from("no world built");
    for seed in 1u8..=40 {
        let mut c = cfg.clone();
        c.seed = seed;
        let w = match World::try_build(&c) {
            Ok(w) => w,
            Err(e) => {
                last_err = e;
                if seed >= 3 && first.is_none() {
                    break;
                }
                continue;
            }
        };
        let ok = [&ma, &mb].iter().all(|msg| w.aggregate(&w.honest_raw(msg), msg).is_ok());
        if ok {
            return Ok((c, w));
        }
        if first.is_none() {
            first = Some((c, w));
        }
    }
    first.ok_or(last_err)
}

/// a violation of the completeness guard: the honest path of the real API fails
pub fn setup_violation(rep: &mut Report, property: &str, cfg: &Cfg, route: &str, err: &str) {
    rep.outcome("honest-setup-fails");
    rep.violation(
        &format!("{property}/honest-setup-fails"),
        format!("{route}: registering honest parties / creating their signers / computing the aggregate key fails for cfg {}: {err}", cfg.label()),
        json!({"kind": "setup", "route": route, "cfg": cfg.to_json()}),
    );
}

fn replay(ctx: &Ctx, rep: &mut Report, r: &Reference) {
    let v = mc_core::load_replay(ctx.replay.as_ref().unwrap());
    let (ma, mb) = messages();
    let pick = |m: &Value| if m.as_str() == Some("B") { (mb.clone(), false) } else { (ma.clone(), true) };
    match v["kind"].as_str() {
        Some("aggregate") => {
            let cfg = Cfg::from_json(&v["cfg"]).expect("cfg");
            let w = match World::try_build(&cfg) {
                Ok(w) => w,
                Err(e) => return setup_violation(rep, "C01", &cfg, "stm", &e),
            };
            let (msg, is_a) = pick(&v["message"]);
            let cand = Cand::from_json(&v["candidate"]).expect("candidate");
            let case = Case { world: 0, msg_is_a: is_a, depth: 0, honest: false, name: v["mutation"].as_str().unwrap_or("").into(), cand };
            eval_case(&w, r, &msg, &case, rep, true);
        }
        Some("single") => {
            let cfg = Cfg::from_json(&v["cfg"]).expect("cfg");
            let w = match World::try_build(&cfg) {
                Ok(w) => w,
                Err(e) => return setup_violation(rep, "C01", &cfg, "stm", &e),
            };
            let (msg, is_a) = pick(&v["message"]);
            let sj = &v["signature"];
            let s = CSig {
                sigma: sj["sigma"].as_array().unwrap().iter().map(|x| x.as_u64().unwrap() as u8).collect(),
                indexes: sj["indexes"].as_array().unwrap().iter().map(|x| x.as_u64().unwrap()).collect(),
                slot: sj["signer_index"].as_u64().unwrap(),
                vk: hex::decode(v["vk"].as_str().unwrap()).unwrap(),
                stake: v["stake"].as_str().unwrap().parse().unwrap(),
            };
            eval_single(&w, r, &msg, is_a, v["mutation"].as_str().unwrap_or(""), &s, rep);
        }
        Some("batch") => {
            let mut worlds = vec![];
            let mut members = vec![];
            for m in v["members"].as_array().unwrap() {
                let cfg = Cfg::from_json(&m["cfg"]).expect("cfg");
                match World::try_build(&cfg) {
                    Ok(w) => worlds.push(w),
                    Err(e) => return setup_violation(rep, "C01", &cfg, "stm", &e),
                }
                let name = m["name"].as_str().unwrap_or("").to_string();
                members.push(Member {
                    world: worlds.len() - 1,
                    msg_is_a: m["message"].as_str() != Some("B"),
                    shifted: name.contains("sigma+") || name.contains("sigma-"),
                    accepted: false,
                    name,
                    cand: Cand::from_json(&m["candidate"]).expect("candidate"),
                });
            }
            let refs: Vec<&Member> = members.iter().collect();
            eval_batch(&worlds, r, &refs, rep);
        }
        Some("setup") => {
            let cfg = Cfg::from_json(&v["cfg"]).expect("cfg");
            if let Err(e) = World::try_build(&cfg) {
                return setup_violation(rep, "C01", &cfg, "stm", &e);
            }
        }
        Some("commitment") => {
            let cfg = Cfg::from_json(&v["cfg"]).expect("cfg");
            match World::try_build(&cfg) {
                Ok(w) => commitment_probe(&w, r, rep, Some((v["party"].as_u64().unwrap_or(0) as usize, v["variant"].as_str().unwrap_or("stake")))),
                Err(e) => return setup_violation(rep, "C01", &cfg, "stm", &e),
            }
        }
        _ => rep.machinery_error("replay file has no known kind".into()),
    }
    rep.nontrivial(&0);
    rep.nontrivial(&1);
}

pub fn run(ctx: &Ctx) -> ! {
    let mut rep = Report::new(
        "exploration",
        "every value obtained from a base aggregate (the clerk's aggregate of every signer subset, hand-built un-deduplicated \
         aggregates of every signer subset, hand-made two-party index collisions) by at most d structural mutations (index sets, \
         boundary indices, slot labels, claimed key/stake incl. an adversary key with a genuine signature, sigma substitutions, \
         every batch-path value/index edit, list permutation/duplication/split/drop) is decoded from JSON text, versioned CBOR \
         bytes and the legacy byte layout and verified; single signatures likewise; all ordered pairs/triples of a pool of \
         accepted, rejected and sigma-shifted aggregates over several (message, key) contexts are batch-verified; for every \
         registered party the registration is rebuilt with its stake / its key changed and aggregates are cross-verified \
         between the two aggregate keys. A case is \
         non-trivial when it decodes and reaches the verifier; distinct = distinct decoded values per (configuration, message)",
    );
    let r = Reference::new();
    if ctx.replay.is_some() {
        replay(ctx, &mut rep, &r);
        rep.finish(ctx);
    }
    let depth = ctx.tier.pick(1usize, 2usize);
    let threads = ctx.threads();
    let (ma, mb) = messages();

    // worlds: two per configuration (the second, with other keys, is the "different key" context of batches)
    let all_cfgs = configs(ctx.tier);
    let built: Vec<Result<(World, World), String>> = par_map(&all_cfgs, threads, |_, c| {
        let (c1, w1) = settle_seed(c)?;
        let mut c2 = c.clone();
        c2.seed = c1.seed + 40;
        let mut w2: Option<World> = None;
        for _ in 0..40 {
            if let Ok(w) = World::try_build(&c2) {
                let ok = w.aggregate(&w.honest_raw(&ma), &ma).is_ok();
                if ok || w2.is_none() {
                    w2 = Some(w);
                }
                if ok {
                    break;
                }
            }
            c2.seed += 1;
        }
        Ok((w1, w2.ok_or("the second world of the configuration cannot be built")?))
    });
    let mut worlds: Vec<World> = vec![];
    let mut cfgs: Vec<Cfg> = vec![];
    for (c, b) in all_cfgs.iter().zip(built) {
        match b {
            Ok((a, b)) => {
                cfgs.push(c.clone());
                worlds.push(a);
                worlds.push(b);
            }
            // the honest path of the real API fails: completeness guard, not a machinery problem
            Err(e) => setup_violation(&mut rep, "C01", c, "stm", &e),
        }
    }
    let mut root_mismatch = vec![];
    for w in &worlds {
        // Does the independent tree reproduce the root the real key commits to? If not, the tree / leaf
        // encoding under test differs from the documented one: recorded, the hand-built bases of that world
        // are skipped, every oracle that works through the real API keeps running.
        if MiniTree::new(w).root() != w.root.as_slice() {
            root_mismatch.push(w.cfg.label());
        }
        for n in &w.notes {
            rep.add_extra(&format!("world_note: {n}"), 1);
        }
    }
    rep.extra("worlds_whose_real_merkle_root_differs_from_the_independent_tree", json!(root_mismatch));
    rep.extra("configurations", json!(cfgs.len()));
    rep.extra("max_mutation_depth", json!(depth));
    rep.extra(
        "bounds",
        json!({"parties": if ctx.tier == Tier::Thorough {"1..4"} else {"1..3"}, "stake_splits": ["equal", "1:1000", "1:2^40"],
               "parameters": ["m4 k2 phi1.0", "m6 k3 phi0.8", "m8 k3 phi0.5"], "messages": 2, "batch_sizes": if ctx.tier == Tier::Thorough {"2,3"} else {"2"}}),
    );

    // ---- stage 1: generate the cases of every (primary world, message)
    let units: Vec<(usize, bool)> = (0..cfgs.len()).flat_map(|i| [(2 * i, true), (2 * i, false)]).collect();
    let generated: Vec<(Vec<Case>, BTreeMap<String, u64>)> = par_map(&units, threads, |_, (wi, is_a)| {
        let w = &worlds[*wi];
        let (msg, other) = if *is_a { (&ma, &mb) } else { (&mb, &ma) };
        mc_core::catch(|| {
        let mc = MCtx::new(w, &r, msg, other);
        let mut seen: BTreeSet<u64> = BTreeSet::new();
        let mut cases = vec![];
        let mut notes: BTreeMap<String, u64> = BTreeMap::new();
        let bases = mc.bases(&mut notes);
        for (bname, base, honest, _) in &bases {
            if seen.insert(mc_core::hash64(base)) || *honest {
                cases.push(Case { world: *wi, msg_is_a: *is_a, depth: 0, honest: *honest, name: bname.clone(), cand: base.clone() });
            }
        }
        for (bname, base, _, deep_base) in bases.iter() {
            let first: Vec<(String, Cand)> = mc.mutations(base);
            for (n1, c1) in &first {
                if seen.insert(mc_core::hash64(c1)) {
                    cases.push(Case { world: *wi, msg_is_a: *is_a, depth: 1, honest: false, name: format!("{bname}/{n1}"), cand: c1.clone() });
                }
            }
            // two simultaneous deviations: from every aggregate of the clerk and from the hand-built full aggregate
            if depth >= 2 && *deep_base {
                for (n1, c1) in &first {
                    for (n2, c2) in mc.mutations(c1) {
                        if seen.insert(mc_core::hash64(&c2)) {
                            cases.push(Case { world: *wi, msg_is_a: *is_a, depth: 2, honest: false, name: format!("{bname}/{n1}/{n2}"), cand: c2 });
                        }
                    }
                }
            }
        }
        (cases, notes)
        })
        .unwrap_or_else(|p| (vec![], BTreeMap::from([(format!("case_generation_panicked: {p} at {}", mc_core::last_panic_location()), 1u64)])))
    });
    let mut cases: Vec<Case> = vec![];
    for (c, notes) in generated {
        cases.extend(c);
        for (k, v) in notes {
            rep.add_extra(&k, v);
        }
    }
    rep.extra("aggregate_candidates", json!(cases.len()));
    rep.extra("aggregate_candidates_by_depth", json!((0..=2).map(|d| cases.iter().filter(|c| c.depth == d).count()).collect::<Vec<_>>()));

    // ---- stage 2: verify every case
    let chunks: Vec<&[Case]> = cases.chunks(64).collect();
    let parts: Vec<(Report, Vec<(usize, String)>)> = par_map(&chunks, threads, |ci, chunk| {
        let mut rp = Report::new("exploration", "");
        let mut labels = vec![];
        for (j, case) in chunk.iter().enumerate() {
            let w = &worlds[case.world];
            let msg = if case.msg_is_a { &ma } else { &mb };
            let v = match mc_core::catch(|| eval_case(w, &r, msg, case, &mut rp, case.depth <= 1)) {
                Ok(v) => v,
                Err(p) => {
                    // a panic outside the guarded verify call (decoders, encoders, Serialize of the code under test)
                    rp.add_extra("panics_outside_verify", 1);
                    rp.outcome("rejected:panic-outside-verify");
                    if case.honest {
                        rp.violation(
                            "C01/honest-aggregate-rejected",
                            format!("handling the clerk's own aggregate panics (cfg {}, {}): {p} at {}", w.cfg.label(), case.name, mc_core::last_panic_location()),
                            case_json(w, case.msg_is_a, &case.name, &case.cand),
                        );
                    }
                    Verdicts { accepted: false, label: "rejected:panic".into() }
                }
            };
            if case.depth <= 1 {
                labels.push((ci * 64 + j, v.label.clone()));
            }
            if rp.samples.len() < 2 && v.accepted && case.depth == 1 {
                rp.sample(json!({"cfg": w.cfg.label(), "mutation": case.name, "verdict": v.label, "candidate": case.cand.short()}));
            }
        }
        (rp, labels)
    });
    let mut labels: BTreeMap<usize, String> = BTreeMap::new();
    for (p, l) in parts {
        rep.merge(p);
        labels.extend(l);
    }

    // ---- single signatures
    let singles: Vec<Report> = par_map(&units, threads, |_, (wi, is_a)| {
        let mut rp = Report::new("exploration", "");
        let w = &worlds[*wi];
        let (msg, other) = if *is_a { (&ma, &mb) } else { (&mb, &ma) };
        let candidates = mc_core::catch(|| MCtx::new(w, &r, msg, other).single_candidates()).unwrap_or_else(|_| {
            rp.add_extra("case_generation_panicked(single signatures)", 1);
            vec![]
        });
        let mut seen = BTreeSet::new();
        for (name, s) in candidates {
            if seen.insert(mc_core::hash64(&s)) && mc_core::catch(|| eval_single(w, &r, msg, *is_a, &name, &s, &mut rp)).is_err() {
                rp.add_extra("panics_outside_verify", 1);
                rp.outcome("single:rejected:panic-outside-verify");
                if name.starts_with("honest") && !name.contains(':') {
                    rp.violation(
                        "C01/honest-single-signature-rejected",
                        format!("handling a registered signer's own signature panics (cfg {}): at {}", w.cfg.label(), mc_core::last_panic_location()),
                        json!({"kind": "setup", "route": "stm", "cfg": w.cfg.to_json()}),
                    );
                }
            }
        }
        rp
    });
    for p in singles {
        rep.merge(p);
    }

    // ---- the aggregate key commits to every registered (key, stake): real API only, no tree structure assumed
    let primaries: Vec<usize> = (0..cfgs.len()).map(|i| 2 * i).collect();
    let cparts: Vec<Report> = par_map(&primaries, threads, |_, wi| {
        let mut rp = Report::new("exploration", "");
        if mc_core::catch(|| commitment_probe(&worlds[*wi], &r, &mut rp, None)).is_err() {
            rp.add_extra("panics_outside_verify", 1);
        }
        rp
    });
    for p in cparts {
        rep.merge(p);
    }

    // ---- batches: per configuration, pool over the contexts (W1,A) (W1,B) (W2,A)
    let pool_per_label = ctx.tier.pick(1usize, 1usize);
    let pools: Vec<Vec<Member>> = (0..cfgs.len())
        .map(|ci| {
            let mut pool: Vec<Member> = vec![];
            for (wi, is_a) in [(2 * ci, true), (2 * ci, false)] {
                let mut per_label: BTreeMap<String, usize> = BTreeMap::new();
                let w = &worlds[wi];
                let msg = if is_a { &ma } else { &mb };
                let mut shifted_done = false;
                for (idx, case) in cases.iter().enumerate() {
                    if case.world != wi || case.msg_is_a != is_a || case.depth > 1 {
                        continue;
                    }
                    let Some(l) = labels.get(&idx) else { continue };
                    let class = if case.name.ends_with("sigma=own-over-other-message") && case.cand.sigs.len() == 1 {
                        "swap".to_string()
                    } else if case.name.contains("torsion") {
                        format!("torsion:{l}")
                    } else if l == "accepted" { format!("accepted:{}", if case.honest { "honest" } else if case.cand.sigs.len() == 1 { "one-entry" } else { "mutant" }) } else { l.clone() };
                    let cnt = per_label.entry(class).or_insert(0);
                    if *cnt < pool_per_label && l != "undecodable" {
                        *cnt += 1;
                        pool.push(Member { world: wi, msg_is_a: is_a, name: case.name.clone(), cand: case.cand.clone(), shifted: false, accepted: l == "accepted" });
                    }
                    if !shifted_done && l == "accepted" && case.cand.sigs.len() == 1 {
                        let sh = shifted_members(w, &r, msg, wi, is_a, &case.name, &case.cand);
                        if sh.len() >= 2 {
                            pool.extend(sh.into_iter().take(2));
                            shifted_done = true;
                        }
                    }
                }
            }
            // the other-key context: its honest aggregate and a shifted pair of it when it has one entry
            let w2 = &worlds[2 * ci + 1];
            if let Ok(a) = w2.aggregate(&w2.honest_raw(&ma), &ma)
                && let Some(c) = aggregate_to_cand(&a)
            {
                pool.extend(shifted_members(w2, &r, &ma, 2 * ci + 1, true, "other-key-honest", &c).into_iter().take(2));
                pool.push(Member { world: 2 * ci + 1, msg_is_a: true, name: "other-key-honest".into(), cand: c, shifted: false, accepted: true });
            }
            pool
        })
        .collect();
    rep.extra("batch_pool_sizes", json!(pools.iter().map(|p| p.len()).collect::<Vec<_>>()));
    let mut batches: Vec<(usize, Vec<usize>)> = vec![];
    for (ci, pool) in pools.iter().enumerate() {
        let n = pool.len();
        for a in 0..n {
            for b in 0..n {
                batches.push((ci, vec![a, b]));
            }
        }
        if ctx.tier == Tier::Thorough {
            // triples over the accepted / shifted members plus one representative rejected member
            let small: Vec<usize> = (0..n).filter(|i| pool[*i].shifted || pool[*i].accepted).collect();
            let rejected: Vec<usize> = (0..n).filter(|i| !small.contains(i)).take(2).collect();
            let tri: Vec<usize> = small.into_iter().chain(rejected).collect();
            for &a in &tri {
                for &b in &tri {
                    for &c in &tri {
                        batches.push((ci, vec![a, b, c]));
                    }
                }
            }
        }
    }
    rep.extra("batches", json!(batches.len()));
    let bchunks: Vec<&[(usize, Vec<usize>)]> = batches.chunks(32).collect();
    let bparts: Vec<Report> = par_map(&bchunks, threads, |_, chunk| {
        let mut rp = Report::new("exploration", "");
        for (ci, ids) in chunk.iter() {
            let members: Vec<&Member> = ids.iter().map(|i| &pools[*ci][*i]).collect();
            if mc_core::catch(|| eval_batch(&worlds, &r, &members, &mut rp)).is_err() {
                rp.add_extra("panics_outside_verify", 1);
                rp.outcome("batch:rejected:panic-outside-verify");
            }
        }
        rp
    });
    for p in bparts {
        rep.merge(p);
    }

    rep.assume("blst (pairings, subgroup checks), blake2 and num-bigint are trusted: the reference uses them directly");
    rep.assume("the Merkle root is taken as the commitment of the aggregate key (re-derived with an independent 20-line tree); which (key, stake) pairs are committed is decided by membership in the registration the harness built, not by Merkle paths");
    rep.assume("lottery draws within 2^-44 of the exact threshold are not judged (the property's numerically negligible band)");
    rep.assume("the random coefficients of BLS aggregation are the deterministic ones of the enumerated inputs; no claim about adversaries searching for hash collisions");
    rep.finish(ctx)
}
