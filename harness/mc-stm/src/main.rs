//! mc-stm: serves C01, C02 (see /verif/DESIGN.md §4)
mod c01;
mod c02;
mod world;

fn main() {
    let ctx = mc_core::Ctx::from_args();
    mc_core::quiet_panics();
    match ctx.property.as_str() {
        "C01" => c01::run(&ctx),
        "C02" => c02::run(&ctx),
        other => {
            eprintln!("mc-stm does not serve {other}");
            std::process::exit(2);
        }
    }
}
