//! C19 — only verified immutables and manifest-vouched ancillary files get restored.
//!
//! Seam: `Client::cardano_database_v2().download_unpack(..)` of a client assembled by the public
//! `ClientBuilder` with the REAL `RetryDownloader(HttpFileDownloader)` (same composition as the
//! default, retry delay 0), reading `file://` archives the harness writes on tmpfs: real
//! tar + zstd/gzip unpacking, real `AncillaryVerifier`, real `UnexpectedDownloadedFileVerifier`,
//! real bootstrap marker creation. The only doubles are the mirror content (the archives) and the
//! manifest signing key pair (generated here, verification key handed to the builder).
//!
//! Space: configuration lattice (range x ancillary option x target pre-state x compression x
//! ledger layout) x every single alteration (quick) / every pair of alterations (thorough, on
//! selected configurations) of what the mirror serves and of the target directory.
//!
//! Oracle: written on directory listings only (before / after, whole case directory so that
//! writes outside the target are seen), never on the return value — except completeness of the
//! honest download.

use std::collections::{BTreeMap, BTreeSet};
use std::io::Write;
use std::path::{Path, PathBuf};
use std::sync::atomic::{AtomicUsize, Ordering};
use std::sync::{Arc, Mutex, OnceLock};

use mc_core::{Ctx, Report, catch, par_map};
use serde::{Deserialize, Serialize};
use serde_json::{Value, json};
use sha2::{Digest, Sha256};

use mithril_cardano_node_internal_database::entities::AncillaryFilesManifest;
use mithril_client::cardano_database_client::{DownloadUnpackOptions, ImmutableFileRange};
use mithril_client::feedback::FeedbackSender;
use mithril_client::file_downloader::{
    DownloadEvent, FileDownloadRetryPolicy, FileDownloader, FileDownloaderUri, HttpFileDownloader, RetryDownloader,
};
use mithril_client::{AggregatorDiscoveryType, Client, ClientBuilder, GenesisVerificationKey};
use mithril_common::crypto_helper::{ManifestSignature, ManifestSigner, ManifestVerifierSecretKey};
use mithril_common::entities::{
    AncillaryLocation, CardanoDbBeacon, CompressionAlgorithm, ImmutablesLocation, MultiFilesUri, TemplateUri,
};
use mithril_common::messages::{
    AncillaryMessagePart, CardanoDatabaseSnapshotMessage, DigestsMessagePart, ImmutablesMessagePart,
};

/// immutable file number of the certified beacon: archives 0..=BEACON exist on the mirror, the
/// ancillary archive carries trio BEACON+1
const BEACON: u64 = 3;
const NETWORK: &str = "preview";
/// what the client writes into `protocolMagicId` for that network (property-side constant)
const NETWORK_MAGIC: &str = "2";
const MANIFEST: &str = "ancillary_manifest.json";
const OUT: &str = "@OUT@";

// ------------------------------------------------------------------------------------------------
// configuration lattice
// ------------------------------------------------------------------------------------------------

#[derive(Clone, Debug, Serialize, Deserialize, PartialEq, Eq, Hash)]
enum RangeSel {
    Full,
    From(u64),
    Range(u64, u64),
    UpTo(u64),
}

impl RangeSel {
    /// the requested numbers, as the user means them (reference, not `to_range_inclusive`)
    fn numbers(&self) -> BTreeSet<u64> {
        match self {
            RangeSel::Full => (0..=BEACON).collect(),
            RangeSel::From(a) => (*a..=BEACON).collect(),
            RangeSel::Range(a, b) => (*a..=*b).collect(),
            RangeSel::UpTo(b) => (0..=*b).collect(),
        }
    }
    fn to_client(&self) -> ImmutableFileRange {
        match self {
            RangeSel::Full => ImmutableFileRange::Full,
            RangeSel::From(a) => ImmutableFileRange::From(*a),
            RangeSel::Range(a, b) => ImmutableFileRange::Range(*a, *b),
            RangeSel::UpTo(b) => ImmutableFileRange::UpTo(*b),
        }
    }
}

#[derive(Clone, Copy, Debug, Serialize, Deserialize, PartialEq, Eq, Hash)]
enum Pre {
    /// empty existing directory, allow_override = false
    Empty,
    /// a database with user files in it, allow_override = true
    UserFiles,
    /// the same, allow_override = false (the client must refuse)
    UserFilesNoOverride,
    /// the target directory does not exist
    Missing,
}

#[derive(Clone, Copy, Debug, Serialize, Deserialize, PartialEq, Eq, Hash)]
enum Comp {
    Zstd,
    Gzip,
}

#[derive(Clone, Copy, Debug, Serialize, Deserialize, PartialEq, Eq, Hash)]
enum Layout {
    /// two legacy single-file ledger snapshots
    Legacy,
    /// one in-memory (UTxO-HD) snapshot directory: meta, state, tables/tvar
    InMemory,
}

#[derive(Clone, Debug, Serialize, Deserialize, PartialEq, Eq, Hash)]
struct Config {
    range: RangeSel,
    ancillary: bool,
    pre: Pre,
    comp: Comp,
    layout: Layout,
    parallel: usize,
}

// ------------------------------------------------------------------------------------------------
// what the mirror serves
// ------------------------------------------------------------------------------------------------

#[derive(Clone, Debug, PartialEq, Eq)]
enum Kind {
    File(Vec<u8>),
    Dir,
    Symlink(String),
    Hardlink(String),
    /// a file `<path>/state` with these bytes, then the directory entry `<path>/` carrying this
    /// mode (tar applies directory modes last): 0555 / 0000 make the content unremovable for a
    /// client that does not run as root
    RestrictedDir { mode: u32, inner: Vec<u8> },
}

#[derive(Clone, Debug)]
struct Entry {
    path: String,
    kind: Kind,
}

#[derive(Clone, Debug, Serialize, Deserialize, PartialEq, Eq, Hash, PartialOrd, Ord)]
enum Arch {
    Imm(u64),
    Anc,
}

#[derive(Clone, Debug, Serialize, Deserialize, PartialEq, Eq, Hash)]
enum Pos {
    First,
    Last,
    /// before the i-th honest entry of the archive
    Before(usize),
}

#[derive(Clone, Debug, Serialize, Deserialize, PartialEq, Eq, Hash)]
enum ManAlt {
    HashChanged(usize),
    EntryRemoved(usize),
    EntryAddedFilePresent,
    EntryAddedFileAbsent,
    SigRemoved,
    SigAltered,
    /// signature made over the served data with another key
    SigOtherKey,
    Missing,
    Garbage,
    /// entries i and i+1 replaced by one entry whose key is key_i ‖ hash_i ‖ key_{i+1}
    MergeWithNext(usize),
    /// a second manifest (extra entry listed, signed by another key) served after the honest one
    SecondEvilLast,
    /// … or before the honest one
    SecondEvilFirst,
}

#[derive(Clone, Debug, Serialize, Deserialize, PartialEq, Eq, Hash)]
enum Alt {
    Add { arch: Arch, pos: Pos, extra: String },
    Remove { arch: Arch, idx: usize },
    Tamper { arch: Arch, idx: usize },
    /// a listed ancillary file is served as a symlink to an extra payload entry (relative) or to
    /// a file outside the target (absolute) that holds the vouched bytes
    AsSymlink { idx: usize, abs: bool },
    /// stream ends cleanly after `keep` entries
    CutBoundary { arch: Arch, keep: usize },
    /// stream ends in the middle of entry `entry`
    CutMid { arch: Arch, entry: usize },
    /// compressed stream truncated
    CutCompressed { arch: Arch },
    Missing { arch: Arch },
    Man(ManAlt),
    /// the snapshot message declares no compression for this location (outside the property's
    /// quantifier: the message comes from the aggregator, not the mirror) — observation only
    DeclaredUncompressed { arch: Arch },
    /// target pre-state: a non-empty directory sits where this file must land
    PreDirAt { path: String },
    /// target pre-state: a regular file sits where this directory must be
    PreFileAt { path: String },
}

impl Alt {
    fn arch(&self) -> Option<Arch> {
        match self {
            Alt::Add { arch, .. }
            | Alt::Remove { arch, .. }
            | Alt::Tamper { arch, .. }
            | Alt::CutBoundary { arch, .. }
            | Alt::CutMid { arch, .. }
            | Alt::CutCompressed { arch }
            | Alt::DeclaredUncompressed { arch }
            | Alt::Missing { arch } => Some(arch.clone()),
            Alt::AsSymlink { .. } | Alt::Man(_) => Some(Arch::Anc),
            Alt::PreDirAt { .. } | Alt::PreFileAt { .. } => None,
        }
    }
    fn is_stream_fault(&self) -> bool {
        matches!(self, Alt::CutBoundary { .. } | Alt::CutMid { .. } | Alt::CutCompressed { .. } | Alt::Missing { .. })
    }
}

/// what the pace of the mirror decides for one transfer
#[derive(Clone, Copy, Debug, Serialize, Deserialize, PartialEq, Eq, Hash)]
enum Step {
    /// the transfer completes
    Complete,
    /// everything served so far is received and unpacked, the end of the transfer is pending
    Hold,
    /// the mirror answers with an error
    Fail,
}

/// Pace of the mirror. `Free`: no pacing (what the first version of this check did). `Steps`: the
/// transfers are served one after the other in this order (max_parallel_downloads = 20, so the
/// client has all of them in flight); a step only starts when the task of the previous one is
/// over (for the ancillary archive: verified, moved and its unpack directory emptied).
#[derive(Clone, Debug, Default, Serialize, Deserialize, PartialEq, Eq, Hash)]
enum Schedule {
    #[default]
    Free,
    Steps(Vec<(Arch, Step)>),
}

#[derive(Clone, Debug, Serialize, Deserialize, PartialEq, Eq, Hash)]
struct Case {
    config: Config,
    alts: Vec<Alt>,
    #[serde(default)]
    schedule: Schedule,
}

impl Case {
    fn new(config: Config, alts: Vec<Alt>) -> Case {
        Case { config, alts, schedule: Schedule::Free }
    }
    /// restrictive permissions only bite a client that is not root
    fn needs_unprivileged(&self) -> bool {
        self.alts.iter().any(|a| matches!(a, Alt::Add { extra, .. } if extra.starts_with("dir0")))
    }
    fn holds(&self) -> bool {
        matches!(&self.schedule, Schedule::Steps(s) if s.iter().any(|(_, k)| *k == Step::Hold))
    }
}

fn sha_hex(b: &[u8]) -> String {
    hex::encode(Sha256::digest(b))
}

fn trio(n: u64) -> [String; 3] {
    [format!("immutable/{n:05}.chunk"), format!("immutable/{n:05}.primary"), format!("immutable/{n:05}.secondary")]
}

fn body(tag: &str) -> Vec<u8> {
    // tagged, a little longer than a tar block so that mid-entry cuts leave a partial file
    let mut v = format!("{tag}\n").into_bytes();
    while v.len() < 700 {
        v.extend_from_slice(b"0123456789abcdef");
    }
    v
}

fn imm_honest(n: u64) -> Vec<Entry> {
    trio(n).iter().map(|p| Entry { path: p.clone(), kind: Kind::File(body(&format!("IMM|{n}|honest|{p}"))) }).collect()
}

/// files the honest aggregator lists in the ancillary manifest, in archive order
fn anc_listed(layout: Layout) -> Vec<(String, Vec<u8>)> {
    let mut paths: Vec<String> = trio(BEACON + 1).to_vec();
    match layout {
        Layout::Legacy => {
            paths.push("ledger/637".into());
            paths.push("ledger/737".into());
        }
        Layout::InMemory => {
            paths.push("ledger/737/meta".into());
            paths.push("ledger/737/state".into());
            paths.push("ledger/737/tables/tvar".into());
        }
    }
    paths.into_iter().map(|p| (p.clone(), body(&format!("ANC|honest|{p}")))).collect()
}

struct Extra {
    name: String,
    entry: Entry,
}

fn mk_extra(origin: &str, path: &str, kind: Option<Kind>) -> Extra {
    let kind = kind.unwrap_or_else(|| Kind::File(body(&format!("{origin}|extra|{path}"))));
    let name = match &kind {
        Kind::File(_) => format!("file:{path}"),
        Kind::Dir => format!("dir:{path}"),
        Kind::Symlink(t) => format!("symlink:{path}->{t}"),
        Kind::Hardlink(t) => format!("hardlink:{path}->{t}"),
        Kind::RestrictedDir { mode, .. } => format!("dir{mode:04o}-with-file:{path}"),
    };
    Extra { name, entry: Entry { path: path.to_string(), kind } }
}

/// entries a hostile mirror may add to the archive of immutable `n`
fn imm_extras(n: u64) -> Vec<Extra> {
    let o = format!("IMM|{n}");
    let own = format!("{n:05}");
    let mut v = vec![];
    for p in [
        "ledger/999",
        "ledger/999/state",
        "volatile/blocks-0.dat",
        "stray-root.txt",
        "user-notes.txt",
        "clean",
        "protocolMagicId",
        MANIFEST,
        "00001.chunk",
        "immutable/stray.txt",
        "immutable/user-extra.txt",
        "immutable/sub/nested.txt",
        "../escape-dotdot.txt",
        "immutable/../ledger/dotdot-mid",
        "./ledger/dot-prefixed",
        "ledger",
        "immutable",
    ] {
        v.push(mk_extra(&o, p, None));
    }
    v.push(mk_extra(&o, &format!("immutable/{own}.chunk/evil"), None));
    v.push(mk_extra(&o, &format!("{OUT}/escape-abs.txt"), None));
    for m in 0..=BEACON + 2 {
        if m != n {
            v.push(mk_extra(&o, &format!("immutable/{m:05}.chunk"), None));
        }
    }
    v.push(mk_extra(&o, "volatile", Some(Kind::Dir)));
    v.push(mk_extra(&o, "immutable/emptydir", Some(Kind::Dir)));
    for (p, t) in [
        ("ledger", "ledger-out"),
        ("volatile", "vol-out"),
        ("immutable", "imm-out"),
        ("stray-link", "victim.txt"),
        ("clean", "victim-clean"),
        ("protocolMagicId", "victim-magic"),
        ("immutable/dirlink", "vdir"),
        ("immutable/filelink", "victim.txt"),
    ] {
        v.push(mk_extra(&o, p, Some(Kind::Symlink(format!("{OUT}/{t}")))));
    }
    // named like files the signed manifest vouches for (both layouts)
    for p in ["ledger/737/meta", "ledger/737"] {
        v.push(mk_extra(&o, p, None));
    }
    for (p, mode) in [("immutable/restricted", 0o555u32), ("ledger/999", 0o555), ("immutable/restricted", 0o000)] {
        v.push(mk_extra(&o, p, Some(Kind::RestrictedDir { mode, inner: body(&format!("{o}|extra|{p}/state")) })));
    }
    v.push(mk_extra(&o, "ledger/hardlink", Some(Kind::Hardlink(format!("immutable/{own}.chunk")))));
    v.push(mk_extra(&o, "stray-hardlink", Some(Kind::Hardlink(format!("{OUT}/victim.txt")))));
    v
}

/// entries a hostile mirror may add to the ancillary archive (none of them listed in the manifest)
fn anc_extras() -> Vec<Extra> {
    let o = "ANC";
    let mut v = vec![];
    for p in [
        "ledger/evil-unlisted",
        "ledger/737/evil",
        "volatile/blocks-0.dat",
        "stray-root.txt",
        "user-notes.txt",
        "clean",
        "protocolMagicId",
        "immutable/stray.txt",
        "immutable/00001.chunk",
        "immutable/00005.chunk",
        "../escape-dotdot.txt",
        "../ledger/escape-into-target",
        "up/evil.txt",
    ] {
        v.push(mk_extra(o, p, None));
    }
    v.push(mk_extra(o, &format!("{OUT}/escape-abs.txt"), None));
    v.push(mk_extra(o, "volatile", Some(Kind::Dir)));
    v.push(mk_extra(o, "up", Some(Kind::Symlink("..".into()))));
    v.push(mk_extra(o, "ledger-link", Some(Kind::Symlink(format!("{OUT}/victim.txt")))));
    v.push(mk_extra(o, "volatile", Some(Kind::Symlink(format!("{OUT}/vol-out")))));
    v.push(mk_extra(o, "clean", Some(Kind::Symlink(format!("{OUT}/victim-clean")))));
    for (p, mode) in [("ledger/999", 0o555u32), ("ledger/999", 0o000), ("volatile", 0o555)] {
        v.push(mk_extra(o, p, Some(Kind::RestrictedDir { mode, inner: body(&format!("{o}|extra|{p}/state")) })));
    }
    v.push(mk_extra(o, "ledger/hard-unlisted", Some(Kind::Hardlink("immutable/00004.chunk".into()))));
    v
}

struct Keys {
    configured: ManifestSigner,
    other: ManifestSigner,
}

fn keys() -> &'static Keys {
    static K: OnceLock<Keys> = OnceLock::new();
    K.get_or_init(|| Keys {
        configured: ManifestSigner::from_secret_key(ManifestVerifierSecretKey::from_bytes(&[0x19u8; 32]).expect("secret key")),
        other: ManifestSigner::from_secret_key(ManifestVerifierSecretKey::from_bytes(&[0x91u8; 32]).expect("secret key")),
    })
}

/// the producer side, as the aggregator does it: hash of the manifest signed with the key
fn sign_as_aggregator(signer: &ManifestSigner, data: &BTreeMap<String, String>) -> String {
    let m = AncillaryFilesManifest::new_without_signature(data.iter().map(|(k, v)| (PathBuf::from(k), v.clone())).collect());
    let sig: ManifestSignature = signer.sign(&m.compute_hash());
    serde_json::to_value(sig).expect("signature json").as_str().expect("signature string").to_string()
}

fn manifest_json(data: &BTreeMap<String, String>, sig: &Option<String>) -> Vec<u8> {
    let mut o = serde_json::Map::new();
    o.insert("data".into(), json!(data));
    if let Some(s) = sig {
        o.insert("signature".into(), json!(s));
    }
    serde_json::to_vec(&Value::Object(o)).unwrap()
}

/// what the holder of the configured key really signed (the honest manifest of this layout)
struct Signed {
    data: BTreeMap<String, String>,
    sig: String,
}

fn signed(layout: Layout) -> Signed {
    let data: BTreeMap<String, String> = anc_listed(layout).iter().map(|(p, c)| (p.clone(), sha_hex(c))).collect();
    let sig = sign_as_aggregator(&keys().configured, &data);
    Signed { data, sig }
}

/// one archive as the mirror serves it
struct Delivered {
    /// every entry of the archive as built
    all: Vec<Entry>,
    /// how many of them are delivered completely before the stream ends
    keep_full: usize,
    /// the stream ends in the middle of this entry (index into `all`)
    mid: Option<usize>,
    missing: bool,
    truncate_compressed: bool,
}

impl Delivered {
    fn delivered(&self) -> &[Entry] {
        &self.all[..self.keep_full]
    }
}

fn apply_arch(arch: &Arch, cfg: &Config, alts: &[Alt]) -> Delivered {
    let mine: Vec<&Alt> = alts.iter().filter(|a| a.arch().as_ref() == Some(arch)).collect();
    let listed = anc_listed(cfg.layout);
    let mut list: Vec<(Option<usize>, Entry)> = match arch {
        Arch::Imm(n) => imm_honest(*n).into_iter().enumerate().map(|(i, e)| (Some(i), e)).collect(),
        Arch::Anc => listed
            .iter()
            .enumerate()
            .map(|(i, (p, c))| (Some(i), Entry { path: p.clone(), kind: Kind::File(c.clone()) }))
            .collect(),
    };
    // manifest state (ancillary only)
    let sg = signed(cfg.layout);
    let mut data = sg.data.clone();
    let mut sig = Some(sg.sig.clone());
    let mut resign_other = false;
    let mut man_present = true;
    let mut man_raw: Option<Vec<u8>> = None;
    let mut before_manifest: Vec<Entry> = vec![];
    let mut second: Option<bool> = None; // Some(true) = evil last
    let extras: Vec<Extra> = match arch {
        Arch::Imm(n) => imm_extras(*n),
        Arch::Anc => anc_extras(),
    };
    let mut adds: Vec<(&Pos, Entry)> = vec![];
    for a in &mine {
        match a {
            Alt::Remove { idx, .. } => list.retain(|(t, _)| *t != Some(*idx)),
            Alt::Tamper { idx, .. } => {
                for (t, e) in list.iter_mut() {
                    if *t == Some(*idx) {
                        e.kind = Kind::File(body(&format!("{}|tampered|{}", if *arch == Arch::Anc { "ANC" } else { "IMM" }, e.path)));
                    }
                }
            }
            Alt::AsSymlink { idx, abs } => {
                if let Some(pos) = list.iter().position(|(t, _)| *t == Some(*idx)) {
                    let path = list[pos].1.path.clone();
                    let honest = list[pos].1.kind.clone();
                    let target = if *abs {
                        format!("{OUT}/anc-honest-copy-{idx}")
                    } else {
                        format!("{}anc-payload-{idx}", "../".repeat(path.matches('/').count()))
                    };
                    list[pos].1.kind = Kind::Symlink(target);
                    if !*abs {
                        list.insert(pos, (None, Entry { path: format!("anc-payload-{idx}"), kind: honest }));
                    }
                }
            }
            Alt::Add { pos, extra, .. } => {
                if let Some(x) = extras.iter().find(|x| &x.name == extra) {
                    adds.push((pos, x.entry.clone()));
                }
            }
            Alt::Man(m) => match m {
                ManAlt::HashChanged(i) => {
                    if let Some((p, _)) = listed.get(*i) {
                        data.insert(p.clone(), sha_hex(b"some other content"));
                    }
                }
                ManAlt::EntryRemoved(i) => {
                    if let Some((p, _)) = listed.get(*i) {
                        data.remove(p);
                    }
                }
                ManAlt::EntryAddedFilePresent => {
                    let c = body("ANC|extra|ledger/evil-listed");
                    data.insert("ledger/evil-listed".into(), sha_hex(&c));
                    before_manifest.push(Entry { path: "ledger/evil-listed".into(), kind: Kind::File(c) });
                }
                ManAlt::EntryAddedFileAbsent => {
                    data.insert("ledger/evil-absent".into(), sha_hex(b"absent"));
                }
                ManAlt::SigRemoved => sig = None,
                ManAlt::SigAltered => {
                    if let Some(s) = &sig {
                        // flip one bit of the signature bytes, re-encode with the real type
                        let parsed: ManifestSignature = serde_json::from_value(json!(s)).expect("own signature parses");
                        let mut bytes = hex::decode(parsed.to_bytes_hex().expect("hex")).expect("hex");
                        bytes[7] ^= 0x10;
                        sig = Some(match ManifestSignature::from_bytes(&bytes) {
                            Ok(k) => serde_json::to_value(k).unwrap().as_str().unwrap().to_string(),
                            Err(_) => format!("{s}00"),
                        });
                    }
                }
                ManAlt::SigOtherKey => resign_other = true,
                ManAlt::Missing => man_present = false,
                ManAlt::Garbage => man_raw = Some(b"this is not json".to_vec()),
                ManAlt::MergeWithNext(i) => {
                    // in manifest order (BTreeMap<PathBuf>), which for these names is the listed order
                    if let (Some((k1, _)), Some((k2, c2))) = (listed.get(*i), listed.get(*i + 1))
                        && let (Some(h1), Some(h2)) = (data.get(k1).cloned(), data.get(k2).cloned())
                    {
                        data.remove(k1);
                        data.remove(k2);
                        let merged = format!("{k1}{h1}{k2}");
                        data.insert(merged.clone(), h2);
                        before_manifest.push(Entry { path: merged, kind: Kind::File(c2.clone()) });
                    }
                }
                ManAlt::SecondEvilLast => second = Some(true),
                ManAlt::SecondEvilFirst => second = Some(false),
            },
            _ => {}
        }
    }
    if *arch == Arch::Anc {
        for e in before_manifest {
            list.push((None, e));
        }
        let evil_manifest = |list: &mut Vec<(Option<usize>, Entry)>| {
            let c = body("ANC|extra|ledger/evil-second-manifest");
            let mut d = sg.data.clone();
            d.insert("ledger/evil-second-manifest".into(), sha_hex(&c));
            let s = sign_as_aggregator(&keys().other, &d);
            list.push((None, Entry { path: "ledger/evil-second-manifest".into(), kind: Kind::File(c) }));
            list.push((None, Entry { path: MANIFEST.into(), kind: Kind::File(manifest_json(&d, &Some(s))) }));
        };
        if second == Some(false) {
            evil_manifest(&mut list);
        }
        if man_present {
            if resign_other {
                sig = Some(sign_as_aggregator(&keys().other, &data));
            }
            let bytes = man_raw.unwrap_or_else(|| manifest_json(&data, &sig));
            list.push((Some(listed.len()), Entry { path: MANIFEST.into(), kind: Kind::File(bytes) }));
        }
        if second == Some(true) {
            evil_manifest(&mut list);
        }
    }
    for (pos, e) in adds {
        match pos {
            Pos::First => list.insert(0, (None, e)),
            Pos::Last => list.push((None, e)),
            Pos::Before(i) => match list.iter().position(|(t, _)| *t == Some(*i)) {
                Some(p) => list.insert(p, (None, e)),
                None => list.push((None, e)),
            },
        }
    }
    let entries: Vec<Entry> = list.into_iter().map(|(_, e)| e).collect();
    // stream faults
    let mut keep_full = entries.len();
    let mut mid: Option<usize> = None;
    let mut missing = false;
    let mut truncate_compressed = false;
    for a in &mine {
        match a {
            Alt::CutBoundary { keep, .. } => keep_full = keep_full.min(*keep),
            Alt::CutMid { entry, .. } => {
                let e = (*entry).min(entries.len().saturating_sub(1));
                if e < keep_full {
                    keep_full = e;
                    mid = Some(e);
                }
            }
            Alt::CutCompressed { .. } => truncate_compressed = true,
            Alt::Missing { .. } => missing = true,
            _ => {}
        }
    }
    if mid.is_some_and(|m| m != keep_full) {
        mid = None;
    }
    Delivered { all: entries, keep_full, mid, missing, truncate_compressed }
}

// ------------------------------------------------------------------------------------------------
// archives on the mirror
// ------------------------------------------------------------------------------------------------

fn subst(s: &str, out: &Path) -> String {
    s.replace(OUT, &out.to_string_lossy())
}

fn is_plain(path: &str) -> bool {
    !path.starts_with('/') && !path.split('/').any(|c| c == ".." || c == ".")
}

/// tar bytes of the archive; returns the offset at which each entry ends
fn tar_bytes(entries: &[Entry], out: &Path) -> (Vec<u8>, Vec<usize>) {
    let mut b = tar::Builder::new(Vec::<u8>::new());
    let mut ends = vec![];
    for e in entries {
        let path = subst(&e.path, out);
        let mut h = tar::Header::new_gnu();
        h.set_mtime(1_700_000_000);
        h.set_uid(0);
        h.set_gid(0);
        match &e.kind {
            Kind::File(c) => {
                h.set_entry_type(tar::EntryType::Regular);
                h.set_mode(0o644);
                h.set_size(c.len() as u64);
                if is_plain(&path) {
                    b.append_data(&mut h, &path, &c[..]).expect("tar append");
                } else {
                    // the builder refuses `..` and absolute names; a mirror does not: raw header
                    let name = path.as_bytes();
                    assert!(name.len() < 100, "raw tar name too long: {path}");
                    h.as_old_mut().name[..name.len()].copy_from_slice(name);
                    h.set_cksum();
                    b.append(&h, &c[..]).expect("tar append raw");
                }
            }
            Kind::Dir => {
                h.set_entry_type(tar::EntryType::Directory);
                h.set_mode(0o755);
                h.set_size(0);
                b.append_data(&mut h, format!("{path}/"), std::io::empty()).expect("tar append dir");
            }
            Kind::RestrictedDir { mode, inner } => {
                h.set_entry_type(tar::EntryType::Regular);
                h.set_mode(0o644);
                h.set_size(inner.len() as u64);
                b.append_data(&mut h, format!("{path}/state"), &inner[..]).expect("tar append");
                let mut d = tar::Header::new_gnu();
                d.set_mtime(1_700_000_000);
                d.set_uid(0);
                d.set_gid(0);
                d.set_entry_type(tar::EntryType::Directory);
                d.set_mode(*mode);
                d.set_size(0);
                b.append_data(&mut d, format!("{path}/"), std::io::empty()).expect("tar append dir");
            }
            Kind::Symlink(t) | Kind::Hardlink(t) => {
                h.set_entry_type(if matches!(e.kind, Kind::Symlink(_)) { tar::EntryType::Symlink } else { tar::EntryType::Link });
                h.set_mode(0o777);
                h.set_size(0);
                b.append_link(&mut h, &path, subst(t, out)).expect("tar append link");
            }
        }
        ends.push(b.get_ref().len());
    }
    let bytes = b.into_inner().expect("tar finish");
    (bytes, ends)
}

fn compress(comp: Comp, tar: &[u8]) -> Vec<u8> {
    match comp {
        Comp::Zstd => zstd::encode_all(tar, 1).expect("zstd"),
        Comp::Gzip => {
            let mut enc = flate2::write::GzEncoder::new(Vec::new(), flate2::Compression::fast());
            enc.write_all(tar).expect("gzip");
            enc.finish().expect("gzip")
        }
    }
}

/// the bytes the mirror holds for this archive (None: nothing there)
fn archive_file(d: &Delivered, comp: Comp, out: &Path) -> Option<Vec<u8>> {
    if d.missing {
        return None;
    }
    let (full, ends) = tar_bytes(&d.all, out);
    let tar: Vec<u8> = if d.keep_full == d.all.len() && d.mid.is_none() {
        full
    } else {
        let start = if d.keep_full == 0 { 0 } else { ends[d.keep_full - 1] };
        match d.mid {
            None => full[..start].to_vec(),
            Some(m) => {
                let end = ends[m];
                // inside the entry: past its header when it has data, inside the header otherwise
                let cut = if end - start > 512 { start + 512 + (end - start - 512) / 2 } else { start + 256 };
                full[..cut].to_vec()
            }
        }
    };
    let mut z = compress(comp, &tar);
    if d.truncate_compressed {
        let n = z.len() * 2 / 3;
        z.truncate(n);
    }
    Some(z)
}

// ------------------------------------------------------------------------------------------------
// directory snapshots
// ------------------------------------------------------------------------------------------------

#[derive(Clone, PartialEq, Eq, Debug)]
enum Node {
    File(Vec<u8>),
    Dir,
    Symlink(String),
    Other,
}

type Snap = BTreeMap<String, Node>;

fn snap_into(root: &Path, rel: &str, out: &mut Snap) {
    let dir = if rel.is_empty() { root.to_path_buf() } else { root.join(rel) };
    let Ok(rd) = std::fs::read_dir(&dir) else { return };
    let mut names: Vec<String> = rd.flatten().map(|e| e.file_name().to_string_lossy().into_owned()).collect();
    names.sort();
    for n in names {
        let r = if rel.is_empty() { n.clone() } else { format!("{rel}/{n}") };
        let p = root.join(&r);
        let Ok(md) = std::fs::symlink_metadata(&p) else { continue };
        let ft = md.file_type();
        if ft.is_symlink() {
            let t = std::fs::read_link(&p).map(|t| t.to_string_lossy().into_owned()).unwrap_or_default();
            out.insert(r, Node::Symlink(t));
        } else if ft.is_dir() {
            out.insert(r.clone(), Node::Dir);
            snap_into(root, &r, out);
        } else if ft.is_file() {
            out.insert(r, Node::File(std::fs::read(&p).unwrap_or_default()));
        } else {
            out.insert(r, Node::Other);
        }
    }
}

fn snap(root: &Path) -> Snap {
    let mut s = Snap::new();
    snap_into(root, "", &mut s);
    s
}

fn show(n: &Node) -> String {
    match n {
        Node::File(c) => {
            let first = c.split(|b| *b == b'\n').next().unwrap_or(&[]);
            let t = String::from_utf8_lossy(&first[..first.len().min(70)]).into_owned();
            format!("file[{}B \"{}\"]", c.len(), t)
        }
        Node::Dir => "dir".into(),
        Node::Symlink(t) => format!("symlink->{t}"),
        Node::Other => "special".into(),
    }
}

// ------------------------------------------------------------------------------------------------
// one case on the real client
// ------------------------------------------------------------------------------------------------

/// The only double on the download path: it forwards every call, untouched, to the real
/// `RetryDownloader(HttpFileDownloader)` and decides WHEN a transfer is served and whether its end
/// is reported (a mirror's pace, an open connection, an error answer). It never sees a byte.
struct Pace {
    inner: Arc<dyn FileDownloader>,
    state: Mutex<PaceState>,
}

#[derive(Default)]
struct PaceState {
    steps: Vec<(Arch, Step)>,
    /// index of the step that may run now
    next: usize,
    /// set when the previous step was the ancillary transfer completing: its task still has to
    /// verify, move and empty the unpack directory
    ancillary_settles_in: Option<(PathBuf, std::time::Instant)>,
    /// transfers the client has asked for so far
    requested: BTreeSet<Arch>,
    /// calls of the client that have not returned (waiting for their turn, running or pending)
    in_flight: usize,
    /// calls forwarded to the real downloader right now
    running: usize,
    /// the transfer that is to be answered with an error has been asked for
    fail_requested: bool,
    stalled_since: Option<std::time::Instant>,
}

/// how long nothing must move before the pace concludes that the client does not ask for a
/// transfer in this phase (the ancillary task asks after a round trip to the blocking pool)
const STALL_MS: u128 = 400;

/// keeps the counters right when the client drops (aborts) a call
struct Counted<'a> {
    pace: &'a Pace,
    running: bool,
}

impl Drop for Counted<'_> {
    fn drop(&mut self) {
        let mut st = self.pace.state.lock().unwrap();
        st.in_flight -= 1;
        if self.running {
            st.running -= 1;
        }
    }
}

impl Pace {
    fn arm(&self, schedule: &Schedule) {
        let mut st = self.state.lock().unwrap();
        *st = PaceState::default();
        if let Schedule::Steps(steps) = schedule {
            st.steps = steps.clone();
        }
    }
    fn arch_of(location: &str) -> Arch {
        match location.rsplit('/').next().unwrap_or("").strip_prefix("imm-").and_then(|r| r.split('.').next()).and_then(|n| n.parse().ok()) {
            Some(n) => Arch::Imm(n),
            None => Arch::Anc,
        }
    }
    fn ancillary_unpack_dir_present(target: &Path) -> bool {
        std::fs::read_dir(target)
            .map(|rd| rd.flatten().any(|e| e.file_name().to_string_lossy().starts_with("ancillary-")))
            .unwrap_or(false)
    }
}

#[async_trait::async_trait]
impl FileDownloader for Pace {
    async fn download_unpack(
        &self,
        location: &FileDownloaderUri,
        file_size: u64,
        target_dir: &Path,
        compression_algorithm: Option<CompressionAlgorithm>,
        download_event_type: DownloadEvent,
    ) -> mithril_common::StdResult<()> {
        let arch = Self::arch_of(location.as_str());
        let mine = {
            let st = self.state.lock().unwrap();
            st.steps.iter().position(|(a, _)| *a == arch).map(|i| (i, st.steps[i].1))
        };
        let Some((index, step)) = mine else {
            // no pacing for this transfer
            return self.inner.download_unpack(location, file_size, target_dir, compression_algorithm, download_event_type).await;
        };
        {
            let mut st = self.state.lock().unwrap();
            st.requested.insert(arch.clone());
            st.in_flight += 1;
            if step == Step::Fail {
                st.fail_requested = true;
            }
        }
        let mut counted = Counted { pace: self, running: false };
        // wait for my turn (bounded: a schedule that can not proceed must not hang the sweep)
        let started = std::time::Instant::now();
        loop {
            let ready = {
                let mut st = self.state.lock().unwrap();
                let settling = match &st.ancillary_settles_in {
                    Some((target, since)) => Self::ancillary_unpack_dir_present(target) && since.elapsed().as_millis() < 1500,
                    None => false,
                };
                if !settling {
                    st.ancillary_settles_in = None;
                }
                if st.next >= index {
                    // my turn (or my step was passed over before the client asked for this transfer)
                    !settling
                } else {
                    // a step whose transfer the client does not ask for while nothing else moves
                    // (it runs that transfer in a later phase, or never) is passed over
                    let waiting_for = st.steps[st.next].0.clone();
                    if !settling && st.running == 0 && !st.requested.contains(&waiting_for) {
                        let since = *st.stalled_since.get_or_insert_with(std::time::Instant::now);
                        if since.elapsed().as_millis() >= STALL_MS {
                            st.next += 1;
                            st.stalled_since = None;
                        }
                    } else {
                        st.stalled_since = None;
                    }
                    false
                }
            };
            if ready || started.elapsed().as_secs() > 20 {
                break;
            }
            tokio::time::sleep(std::time::Duration::from_millis(1)).await;
        }
        let advance = |settle: Option<PathBuf>| {
            let mut st = self.state.lock().unwrap();
            st.next = st.next.max(index + 1);
            st.ancillary_settles_in = settle.map(|p| (p, std::time::Instant::now()));
        };
        match step {
            Step::Fail => {
                advance(None);
                Err(anyhow::anyhow!("mirror answers 500 for {}", location.as_str()))
            }
            Step::Complete | Step::Hold => {
                self.state.lock().unwrap().running += 1;
                counted.running = true;
                let r = self.inner.download_unpack(location, file_size, target_dir, compression_algorithm, download_event_type).await;
                self.state.lock().unwrap().running -= 1;
                counted.running = false;
                // the ancillary archive is unpacked into <target>/ancillary-<id>: its task goes on after this call
                let settle = if arch == Arch::Anc && step == Step::Complete { target_dir.parent().map(|p| p.to_path_buf()) } else { None };
                advance(settle);
                if step == Step::Hold && r.is_ok() {
                    // The end of the transfer is pending as long as the client has other calls in
                    // flight: only an abort of the task ends it. When the client waits for nothing
                    // else and never asked for the transfer that is to fail (it runs it in a later
                    // phase), the mirror ends the transfer - a hang is not C19's subject.
                    let mut alone_since: Option<std::time::Instant> = None;
                    loop {
                        tokio::time::sleep(std::time::Duration::from_millis(1)).await;
                        let st = self.state.lock().unwrap();
                        if st.in_flight == 1 && !st.fail_requested {
                            if alone_since.get_or_insert_with(std::time::Instant::now).elapsed().as_millis() >= STALL_MS {
                                break;
                            }
                        } else {
                            alone_since = None;
                        }
                    }
                }
                r
            }
        }
    }
}

struct Worker {
    client: Client,
    pace: Arc<Pace>,
    base: PathBuf,
}

static WORKER_SEQ: AtomicUsize = AtomicUsize::new(0);
static SCRATCH: OnceLock<PathBuf> = OnceLock::new();

thread_local! {
    static WORKER: std::cell::RefCell<Option<Worker>> = const { std::cell::RefCell::new(None) };
}

fn new_worker() -> Worker {
    let i = WORKER_SEQ.fetch_add(1, Ordering::SeqCst);
    let base = SCRATCH.get().expect("scratch set").join(format!("w{i}"));
    std::fs::create_dir_all(&base).expect("worker dir");
    let logger = slog::Logger::root(slog::Discard, slog::o!());
    let feedback = FeedbackSender::new(&[]);
    // the composition `ClientBuilder::build` makes by default, with the 5 s pause between attempts removed
    let downloader = Arc::new(RetryDownloader::new(
        Arc::new(HttpFileDownloader::new(feedback, logger).expect("HttpFileDownloader::new")),
        FileDownloadRetryPolicy { attempts: 2, delay_between_attempts: std::time::Duration::from_secs(0) },
    ));
    let pace = Arc::new(Pace { inner: downloader, state: Mutex::new(PaceState::default()) });
    let downloader = pace.clone();
    let vk = keys().configured.verification_key().to_json_hex().expect("verification key hex");
    let client = ClientBuilder::new(AggregatorDiscoveryType::Url("http://127.0.0.1:9/".to_string()))
        .set_genesis_verification_key(GenesisVerificationKey::JsonHex(
            // download_unpack never consults it; any well-formed Ed25519 key does
            keys().other.verification_key().to_json_hex().expect("verification key hex"),
        ))
        .with_http_file_downloader(downloader)
        .set_ancillary_verification_key(vk)
        .build()
        .expect("ClientBuilder::build");
    Worker { client, pace, base }
}

fn with_worker<T>(f: impl FnOnce(&Worker) -> T) -> T {
    WORKER.with(|w| {
        let mut w = w.borrow_mut();
        if w.is_none() {
            *w = Some(new_worker());
        }
        f(w.as_ref().unwrap())
    })
}

fn user_files() -> Vec<(&'static str, Vec<u8>)> {
    vec![
        ("user-notes.txt", body("USER|user-notes.txt")),
        ("immutable/user-extra.txt", body("USER|immutable/user-extra.txt")),
        ("immutable/00001.chunk", body("USER|immutable/00001.chunk")),
        ("ledger/old-ledger", body("USER|ledger/old-ledger")),
        ("volatile/blocks-9.dat", body("USER|volatile/blocks-9.dat")),
    ]
}

/// remove a case directory whatever permissions the unpacked archives left in it (the worker may not be root)
fn force_remove(dir: &Path) {
    use std::os::unix::fs::PermissionsExt;
    fn open_up(dir: &Path) {
        let _ = std::fs::set_permissions(dir, std::fs::Permissions::from_mode(0o700));
        if let Ok(rd) = std::fs::read_dir(dir) {
            for e in rd.flatten() {
                if e.file_type().map(|t| t.is_dir()).unwrap_or(false) {
                    open_up(&e.path());
                }
            }
        }
    }
    if std::fs::symlink_metadata(dir).is_ok() {
        open_up(dir);
        let _ = std::fs::remove_dir_all(dir);
    }
}

fn write_file(p: &Path, c: &[u8]) {
    if let Some(d) = p.parent() {
        std::fs::create_dir_all(d).expect("mkdir");
    }
    std::fs::write(p, c).expect("write");
}

static T_SETUP: AtomicUsize = AtomicUsize::new(0);
static T_SNAP: AtomicUsize = AtomicUsize::new(0);
static T_RUN: AtomicUsize = AtomicUsize::new(0);
static T_CLEAN: AtomicUsize = AtomicUsize::new(0);

struct Observed {
    /// the per-worker case directory (removed from every reported text)
    root: String,
    result: Result<(), String>,
    before: Snap,
    after: Snap,
    anc: Option<Delivered>,
    imm: BTreeMap<u64, Delivered>,
}

fn execute(w: &Worker, case: &Case) -> Observed {
    let cfg = &case.config;
    let t0 = std::time::Instant::now();
    let root = w.base.join("case");
    force_remove(&root);
    let target = root.join("target");
    let out = root.join("outside");
    let mirror = root.join("mirror");
    std::fs::create_dir_all(&mirror).expect("mirror");
    // things outside the target a hostile archive may aim at
    write_file(&out.join("victim.txt"), b"VICTIM|victim.txt");
    write_file(&out.join("victim-clean"), b"VICTIM|clean");
    write_file(&out.join("victim-magic"), b"VICTIM|magic");
    write_file(&out.join("vdir/victim-in-dir.txt"), b"VICTIM|in-dir");
    for d in ["ledger-out", "vol-out", "imm-out"] {
        std::fs::create_dir_all(out.join(d)).expect("outside dir");
    }
    for (i, (_, c)) in anc_listed(cfg.layout).iter().enumerate() {
        write_file(&out.join(format!("anc-honest-copy-{i}")), c);
    }
    // target pre-state
    match cfg.pre {
        Pre::Missing => {}
        Pre::Empty => std::fs::create_dir_all(&target).expect("target"),
        Pre::UserFiles | Pre::UserFilesNoOverride => {
            std::fs::create_dir_all(&target).expect("target");
            // pre-state faults first: they decide what kind of node sits at a path
            for a in &case.alts {
                match a {
                    Alt::PreDirAt { path } => write_file(&target.join(path).join("keep.txt"), &body(&format!("USER|{path}/keep.txt"))),
                    Alt::PreFileAt { path } => write_file(&target.join(path), &body(&format!("USER|{path}"))),
                    _ => {}
                }
            }
            for (p, c) in user_files() {
                let full = target.join(p);
                // not where a pre-state fault put a node of another kind
                let blocked = full.exists()
                    || full.ancestors().skip(1).take_while(|a| a.starts_with(&target)).any(|a| a.exists() && !a.is_dir());
                if !blocked {
                    write_file(&full, &c);
                }
            }
        }
    }
    // the mirror
    let mut imm = BTreeMap::new();
    for n in 0..=BEACON {
        let d = apply_arch(&Arch::Imm(n), cfg, &case.alts);
        if let Some(bytes) = archive_file(&d, cfg.comp, &out) {
            std::fs::write(mirror.join(format!("imm-{n:05}.tar.z")), bytes).expect("write archive");
        }
        imm.insert(n, d);
    }
    let anc = apply_arch(&Arch::Anc, cfg, &case.alts);
    if let Some(bytes) = archive_file(&anc, cfg.comp, &out) {
        std::fs::write(mirror.join("ancillary.tar.z"), bytes).expect("write archive");
    }
    let alg = Some(match cfg.comp {
        Comp::Zstd => CompressionAlgorithm::Zstandard,
        Comp::Gzip => CompressionAlgorithm::Gzip,
    });
    let declared = |arch: &Arch| if case.alts.iter().any(|a| matches!(a, Alt::DeclaredUncompressed { arch: x } if x == arch)) { None } else { alg };
    let imm_uncompressed = (0..=BEACON).any(|n| declared(&Arch::Imm(n)).is_none());
    let message = CardanoDatabaseSnapshotMessage {
        hash: "c19-snapshot".into(),
        merkle_root: "c19-merkle-root".into(),
        network: NETWORK.into(),
        beacon: CardanoDbBeacon::new(7, BEACON),
        certificate_hash: "c19-certificate".into(),
        total_db_size_uncompressed: 10_000,
        digests: DigestsMessagePart { size_uncompressed: 0, locations: vec![] },
        immutables: ImmutablesMessagePart {
            average_size_uncompressed: 2_100,
            locations: vec![ImmutablesLocation::CloudStorage {
                uri: MultiFilesUri::Template(TemplateUri(format!("file://{}/imm-{{immutable_file_number}}.tar.z", mirror.display()))),
                compression_algorithm: if imm_uncompressed { None } else { alg },
            }],
        },
        ancillary: AncillaryMessagePart {
            size_uncompressed: 5_000,
            locations: vec![AncillaryLocation::CloudStorage {
                uri: format!("file://{}/ancillary.tar.z", mirror.display()),
                compression_algorithm: declared(&Arch::Anc),
            }],
        },
        cardano_node_version: "10.4.1".into(),
        created_at: Default::default(),
    };
    let options = DownloadUnpackOptions {
        allow_override: cfg.pre == Pre::UserFiles,
        include_ancillary: cfg.ancillary,
        max_parallel_downloads: if case.schedule == Schedule::Free { cfg.parallel } else { 20 },
    };
    w.pace.arm(&case.schedule);
    let t1 = std::time::Instant::now();
    let before = snap(&root);
    let t2 = std::time::Instant::now();
    let range = cfg.range.to_client();
    let result = catch(|| {
        // a runtime per case: dropping it waits for every blocking unpack task, so nothing
        // writes after the "after" snapshot is taken
        let rt = tokio::runtime::Builder::new_current_thread().enable_all().max_blocking_threads(8).build().expect("runtime");
        let r = rt.block_on(async {
            tokio::time::timeout(std::time::Duration::from_secs(60), w.client.cardano_database_v2().download_unpack(&message, &range, &target, options)).await
        });
        drop(rt);
        match r {
            Ok(r) => r.map_err(|e| format!("{e:#}")),
            Err(_) => Err("HARNESS-TIMEOUT: download_unpack did not return within 60 s".to_string()),
        }
    });
    let result = match result {
        Ok(r) => r,
        Err(p) => Err(format!("PANIC: {p} at {}", mc_core::last_panic_location())),
    };
    let t3 = std::time::Instant::now();
    let after = snap(&root);
    let t4 = std::time::Instant::now();
    force_remove(&root);
    let t5 = std::time::Instant::now();
    T_SETUP.fetch_add((t1 - t0).as_micros() as usize, Ordering::Relaxed);
    T_SNAP.fetch_add(((t2 - t1) + (t4 - t3)).as_micros() as usize, Ordering::Relaxed);
    T_RUN.fetch_add((t3 - t2).as_micros() as usize, Ordering::Relaxed);
    T_CLEAN.fetch_add((t5 - t4).as_micros() as usize, Ordering::Relaxed);
    let root_s = root.to_string_lossy().into_owned();
    let result = result.map_err(|e| e.replace(&root_s, "<case>"));
    Observed { root: root_s, result, before, after, anc: if cfg.ancillary { Some(anc) } else { None }, imm }
}

// ------------------------------------------------------------------------------------------------
// the oracle
// ------------------------------------------------------------------------------------------------

/// tar semantics of an entry name (independent restatement): leading `/` and `.` components are
/// dropped, a name with `..` is not unpacked at all
fn landing_path(raw: &str) -> Option<String> {
    let mut parts = vec![];
    for c in raw.split('/') {
        match c {
            "" | "." => {}
            ".." => return None,
            x => parts.push(x),
        }
    }
    Some(parts.join("/"))
}

/// Is the ancillary archive, as delivered, what the key holder vouched for?
/// Some(true): manifest signed by the configured key over exactly these names and hashes, every
/// listed file delivered as a regular file with that hash. Some(false): not so. None: the
/// reference does not decide (stream broke after a complete valid prefix; listed file served
/// through a link).
fn reference_valid(d: &Delivered, sg: &Signed) -> Option<bool> {
    if d.missing {
        return Some(false);
    }
    if d.truncate_compressed {
        // how much of the archive a decoder still yields from a truncated stream is its own business
        return None;
    }
    let es = d.delivered();
    let mut eff: BTreeMap<String, &Kind> = BTreeMap::new();
    for e in es {
        if let Some(p) = landing_path(&e.path) {
            eff.insert(p, &e.kind);
        }
    }
    let Some(Kind::File(mbytes)) = eff.get(MANIFEST) else { return Some(false) };
    let Ok(v) = serde_json::from_slice::<Value>(mbytes) else { return Some(false) };
    let Some(data) = v.get("data").and_then(|d| d.as_object()) else { return Some(false) };
    let mut served: BTreeMap<String, String> = BTreeMap::new();
    for (k, h) in data {
        let Some(h) = h.as_str() else { return Some(false) };
        served.insert(k.clone(), h.to_string());
    }
    if served != sg.data || v.get("signature").and_then(|s| s.as_str()) != Some(sg.sig.as_str()) {
        return Some(false);
    }
    let mut through_link = false;
    for (p, h) in &sg.data {
        // a link at the path or at one of its ancestors: not decided here
        let mut anc = String::new();
        for c in p.split('/') {
            if !anc.is_empty() {
                anc.push('/');
            }
            anc.push_str(c);
            if matches!(eff.get(&anc), Some(Kind::Symlink(_)) | Some(Kind::Hardlink(_))) {
                through_link = true;
            }
        }
        match eff.get(p) {
            Some(Kind::File(c)) if &sha_hex(c) == h => {}
            Some(Kind::Symlink(_)) | Some(Kind::Hardlink(_)) => {}
            _ => return Some(false),
        }
    }
    if through_link {
        return None;
    }
    if d.mid.is_some() { None } else { Some(true) }
}

fn trio_number(rel: &str) -> Option<u64> {
    let name = rel.strip_prefix("immutable/")?;
    if name.contains('/') {
        return None;
    }
    let (num, ext) = name.split_once('.')?;
    if !matches!(ext, "chunk" | "primary" | "secondary") || num.len() < 5 || !num.bytes().all(|b| b.is_ascii_digit()) {
        return None;
    }
    let n: u64 = num.parse().ok()?;
    if format!("{n:05}") == num { Some(n) } else { None }
}

#[derive(Default)]
struct Judgement {
    violations: Vec<(String, String)>,
    kept_from_ancillary: usize,
    kept_immutables: usize,
    unexpected_dirs: usize,
    preexisting_removed: usize,
    raw_downloads_left: usize,
    target_changed: bool,
}

fn content_through(after: &Snap, key: &str, depth: usize) -> Option<(Vec<u8>, String)> {
    // follow symlinks inside the snapshot; returns content and the final key
    match after.get(key)? {
        Node::File(c) => Some((c.clone(), key.to_string())),
        Node::Symlink(t) if depth < 8 => {
            if t.starts_with('/') {
                return None; // absolute: judged by the caller
            }
            let mut parts: Vec<&str> = key.split('/').collect();
            parts.pop();
            for c in t.split('/') {
                match c {
                    "" | "." => {}
                    ".." => {
                        parts.pop()?;
                    }
                    x => parts.push(x),
                }
            }
            content_through(after, &parts.join("/"), depth + 1)
        }
        _ => None,
    }
}

fn judge(case: &Case, obs: &Observed) -> Judgement {
    let cfg = &case.config;
    let mut j = Judgement::default();
    let sg = signed(cfg.layout);
    let refv = obs.anc.as_ref().map(|d| reference_valid(d, &sg));
    let requested = cfg.range.numbers();
    let describe = |keys: &[String]| -> String {
        keys.iter()
            .map(|k| format!("{k}: {} (before: {})", obs.after.get(k).map(show).unwrap_or("absent".into()), obs.before.get(k).map(show).unwrap_or("absent".into())))
            .collect::<Vec<_>>()
            .join("; ")
            .replace(&obs.root, "<case>")
    };
    // where each served name lands: origin of unexpected nodes
    let mut origin: BTreeMap<String, String> = BTreeMap::new();
    for (n, d) in &obs.imm {
        for e in &d.all {
            if let Some(p) = landing_path(&e.path.replace(OUT, "/outside-abs")) {
                if matches!(e.kind, Kind::RestrictedDir { .. }) {
                    origin.entry(format!("{p}/state")).or_insert(format!("IMM|{n}"));
                }
                origin.entry(p).or_insert(format!("IMM|{n}"));
            }
        }
    }
    if let Some(d) = &obs.anc {
        for e in &d.all {
            if let Some(p) = landing_path(&e.path.replace(OUT, "/outside-abs")) {
                if matches!(e.kind, Kind::RestrictedDir { .. }) {
                    origin.entry(format!("{p}/state")).or_insert("ANC".into());
                }
                origin.entry(p).or_insert("ANC".into());
            }
        }
    }
    let mut changed: Vec<String> = vec![];
    for (k, n) in &obs.after {
        if obs.before.get(k) != Some(n) {
            changed.push(k.clone());
        }
    }
    let removed: Vec<String> = obs.before.keys().filter(|k| !obs.after.contains_key(*k)).cloned().collect();

    // (A) nothing outside the target directory is created, changed or removed
    let outside: Vec<String> = changed
        .iter()
        .chain(removed.iter())
        .filter(|k| !(k.as_str() == "target" || k.starts_with("target/")))
        .cloned()
        .collect();
    if !outside.is_empty() {
        // classify by what was written: ancillary files moved through a link, a marker written
        // through a link, anything else
        let mut buckets: BTreeMap<&str, Vec<String>> = BTreeMap::new();
        for k in &outside {
            let anc_bytes = matches!(obs.after.get(k), Some(Node::File(c)) if c.starts_with(b"ANC|"));
            let marker = matches!(obs.after.get(k), Some(Node::File(c)) if c.is_empty() || c == NETWORK_MAGIC.as_bytes())
                && matches!(obs.before.get(k), Some(Node::File(c)) if c.starts_with(b"VICTIM|"));
            let key = if anc_bytes || (k.starts_with("outside/ledger-out/") && obs.after.get(k) != Some(&Node::Dir)) {
                "C19/ancillary-files-moved-outside-target-through-unpacked-symlink"
            } else if marker {
                "C19/bootstrap-marker-written-outside-target-through-unpacked-symlink"
            } else if obs.after.get(k) == Some(&Node::Dir) {
                continue;
            } else {
                "C19/write-outside-target-directory"
            };
            buckets.entry(key).or_default().push(k.clone());
        }
        if buckets.is_empty() {
            buckets.insert("C19/write-outside-target-directory", outside.clone());
        }
        for (key, ks) in buckets {
            j.violations.push((
                key.into(),
                format!("nodes outside the target directory were created/changed/removed: {}", describe(&ks)),
            ));
        }
    }
    for k in &removed {
        if k.starts_with("target/") {
            j.preexisting_removed += 1;
        }
    }

    // (B) every new or changed node below the target is one the property allows
    for k in &changed {
        let Some(rel) = k.strip_prefix("target/") else { continue };
        let bare_unpack_dir = rel.starts_with("ancillary-") && !rel.contains('/');
        if !bare_unpack_dir {
            j.target_changed = true;
        }
        let node = &obs.after[k];
        if rel.split('/').next().is_some_and(|f| f.starts_with("ancillary-")) {
            if !rel.contains('/') {
                // the bare directory: judged through what is below it. (An EMPTY one can be re-created by
                // the detached unpack thread of a download that failed before any byte was read - tar
                // creates its destination directory; timing dependent, not counted.)
                continue;
            }
            // root causes differ: the removal is never reached (abort of the task), it runs and
            // fails (permissions carried by the archive), or it is skipped on an error return
            let key = if case.holds() {
                "C19/ancillary-temp-dir-left-behind-after-abort"
            } else if case.needs_unprivileged() {
                "C19/ancillary-temp-dir-left-behind-after-failed-removal"
            } else {
                "C19/ancillary-temp-dir-left-behind"
            };
            let all: Vec<String> = changed.iter().filter(|c| c.strip_prefix("target/").is_some_and(|r| r.starts_with("ancillary-"))).cloned().collect();
            j.violations.push((
                key.into(),
                format!("the client's ancillary unpack directory and what the mirror's archive put into it are still in the target: {}", describe(&all).replace(char::is_control, " ")),
            ));
            continue;
        }
        if *node == Node::Dir {
            continue; // directories are judged through what they contain
        }
        let content: Option<Vec<u8>> = match node {
            Node::File(c) => Some(c.clone()),
            _ => None,
        };
        let from_anc = content.as_ref().is_some_and(|c| c.starts_with(b"ANC|"))
            || (content.is_none() && origin.get(rel).map(|o| o == "ANC").unwrap_or(false));
        // ancillary verification failed (or the option is off): nothing of that archive stays
        if from_anc && (!cfg.ancillary || refv == Some(Some(false))) {
            let key = if case.alts.iter().any(|a| matches!(a, Alt::Man(ManAlt::MergeWithNext(_)))) {
                "C19/manifest-hash-concatenation-ambiguity"
            } else {
                "C19/ancillary-file-kept-although-verification-must-fail"
            };
            let note = if key.ends_with("ambiguity") {
                " (the served manifest replaces two signed entries by ONE entry whose name is name1‖hash1‖name2: it has the same manifest hash, so the honest signature verifies, although the key holder never signed that name and the two signed names are gone)"
            } else {
                ""
            };
            j.violations.push((
                key.into(),
                format!(
                    "the ancillary archive as delivered is not vouched by the configured key (reference verdict: invalid){note}, yet `{rel}` from it is in the target: {}",
                    describe(std::slice::from_ref(k))
                ),
            ));
            continue;
        }
        // immutable file of the requested range (with the ancillary option also trio BEACON+1)
        if let Some(n) = trio_number(rel)
            && requested.contains(&n)
        {
            j.kept_immutables += 1;
            if from_anc {
                j.kept_from_ancillary += 1;
            }
            continue;
        }
        // ancillary file vouched by the signed manifest, with the vouched bytes
        let imm_bytes = content.as_ref().is_some_and(|c| c.starts_with(b"IMM|"));
        if cfg.ancillary
            && let Some(h) = sg.data.get(rel)
            && !(imm_bytes && !rel.starts_with("immutable/"))
        {
            if imm_bytes {
                // trio BEACON+1 belongs to the ancillary archive alone: only the vouched bytes may sit there
                j.violations.push((
                    "C19/immutable-archive-entry-under-ancillary-trio-name-kept".into(),
                    format!(
                        "`{rel}` is outside the requested range {requested:?}; the signed manifest vouches it with sha256 {h}, but it holds bytes an IMMUTABLE archive carried (the clean-up expects the name whatever archive wrote it): {}",
                        describe(std::slice::from_ref(k))
                    ),
                ));
                continue;
            }
            let ok = match node {
                Node::File(c) => &sha_hex(c) == h,
                Node::Symlink(_) => content_through(&obs.after, k, 0)
                    .is_some_and(|(c, fin)| &sha_hex(&c) == h && fin.starts_with("target/")),
                _ => false,
            };
            if ok {
                j.kept_from_ancillary += 1;
                continue;
            }
            let key = if matches!(node, Node::Symlink(_)) {
                "C19/listed-ancillary-file-restored-as-symlink"
            } else {
                "C19/ancillary-content-differs-from-manifest"
            };
            j.violations.push((
                key.into(),
                format!("`{rel}` is listed in the signed manifest with sha256 {h} but the restored node does not hold these bytes inside the target: {}", describe(std::slice::from_ref(k))),
            ));
            continue;
        }
        // the client's own markers
        if rel == "clean" && matches!(node, Node::File(c) if c.is_empty()) {
            continue;
        }
        if rel == "protocolMagicId" && matches!(node, Node::File(c) if c == NETWORK_MAGIC.as_bytes()) {
            continue;
        }
        // anything else must not be there
        let org = match &content {
            Some(c) if c.starts_with(b"IMM|") => "IMM".to_string(),
            Some(c) if c.starts_with(b"ANC|") => "ANC".to_string(),
            _ => origin.get(rel).map(|o| o.split('|').next().unwrap_or("").to_string()).unwrap_or_default(),
        };
        let first = rel.split('/').next().unwrap_or("");
        let _ = first;
        let key = if org == "ANC" {
            "C19/unvouched-ancillary-entry-kept"
        } else if org == "IMM" {
            if rel.starts_with("immutable/") && obs.before.contains_key(k) {
                // the name was there before, so a clean-up by name keeps it — with the archive's bytes
                "C19/preexisting-file-in-immutable-dir-overwritten-by-archive-entry"
            } else if let Some(n) = trio_number(rel) {
                // inside what the clean-up of today tolerates (0..=beacon, +1 with ancillary) or beyond it
                if n <= BEACON + if cfg.ancillary { 1 } else { 0 } {
                    "C19/immutable-number-outside-range-survives"
                } else {
                    "C19/immutable-number-beyond-beacon-survives"
                }
            } else if let Some(inner) = rel.strip_prefix("immutable/") {
                let top = inner.split('/').next().unwrap_or("");
                let under_expected_name = inner.contains('/')
                    && trio_number(&format!("immutable/{top}")).is_some_and(|n| requested.contains(&n) || (cfg.ancillary && n == BEACON + 1));
                if under_expected_name {
                    "C19/entry-nested-under-expected-immutable-name-survives"
                } else if case.needs_unprivileged() {
                    // the clean-up runs and fails on the permissions the archive carried
                    "C19/unexpected-entry-in-immutable-dir-survives-failed-removal"
                } else {
                    "C19/unexpected-entry-in-immutable-dir-survives"
                }
            } else {
                "C19/immutable-archive-entry-outside-immutable-dir-survives"
            }
        } else if case.alts.iter().any(|a| matches!(a, Alt::DeclaredUncompressed { .. })) {
            // the raw download, stored under the download id: outside the property's quantifier
            j.raw_downloads_left += 1;
            continue;
        } else {
            "C19/unexplained-node-in-target"
        };
        j.violations.push((
            key.into(),
            format!(
                "after the download the target holds `{rel}`, which is neither an immutable file of the requested range {:?}{}, nor a file vouched by the signed manifest, nor a client marker: {}",
                requested,
                if cfg.ancillary { format!(" (+{} with ancillary)", BEACON + 1) } else { String::new() },
                describe(std::slice::from_ref(k))
            ),
        ));
    }
    // directories nobody may create: only reported as an observation
    for k in &changed {
        if let Some(rel) = k.strip_prefix("target/")
            && obs.after[k] == Node::Dir
            && !obs.before.contains_key(k)
        {
            let has_allowed_child = obs.after.range(format!("{k}/")..).take_while(|(c, _)| c.starts_with(&format!("{k}/"))).any(|(_, n)| *n != Node::Dir);
            if !has_allowed_child && !matches!(rel, "immutable" | "ledger" | "volatile") && !rel.starts_with("ancillary-") {
                j.unexpected_dirs += 1;
            }
        }
    }

    // (C) completeness of the honest download
    let mirror_lets_everything_complete = match &case.schedule {
        Schedule::Free => true,
        Schedule::Steps(s) => s.iter().all(|(_, k)| *k == Step::Complete),
    };
    if case.alts.is_empty() && mirror_lets_everything_complete && matches!(cfg.pre, Pre::Empty | Pre::UserFiles) {
        if let Err(e) = &obs.result {
            j.violations.push(("C19/honest-download-fails".into(), format!("honest mirror, honest manifest, yet download_unpack returned an error: {e}")));
        } else {
            let mut missing = vec![];
            for n in &requested {
                for e in imm_honest(*n) {
                    if obs.after.get(&format!("target/{}", e.path)) != Some(&match e.kind { Kind::File(c) => Node::File(c), _ => Node::Other }) {
                        missing.push(e.path);
                    }
                }
            }
            if cfg.ancillary {
                for (p, c) in anc_listed(cfg.layout) {
                    if obs.after.get(&format!("target/{p}")) != Some(&Node::File(c)) {
                        missing.push(p);
                    }
                }
            }
            if obs.after.get("target/clean") != Some(&Node::File(vec![])) {
                missing.push("clean".into());
            }
            if obs.after.get("target/protocolMagicId") != Some(&Node::File(NETWORK_MAGIC.as_bytes().to_vec())) {
                missing.push("protocolMagicId".into());
            }
            if cfg.pre == Pre::UserFiles {
                for (p, c) in user_files() {
                    let legit_overwrite = trio_number(p).is_some_and(|n| requested.contains(&n));
                    if !legit_overwrite && obs.after.get(&format!("target/{p}")) != Some(&Node::File(c)) {
                        missing.push(format!("user file {p}"));
                    }
                }
            }
            if !missing.is_empty() {
                j.violations.push((
                    "C19/honest-download-incomplete".into(),
                    format!("honest download returned Ok but these are missing or differ from what the mirror/manifest holds: {missing:?}"),
                ));
            }
        }
    }
    j
}

// ------------------------------------------------------------------------------------------------
// the enumerated space
// ------------------------------------------------------------------------------------------------

fn configs(thorough: bool) -> Vec<Config> {
    let mut v = vec![];
    let ranges = [
        RangeSel::Full,
        RangeSel::From(2),
        RangeSel::Range(2, 3),
        RangeSel::Range(1, 2),
        RangeSel::Range(2, 2),
        RangeSel::UpTo(1),
    ];
    let mk = |range: &RangeSel, ancillary, pre, comp, layout| Config { range: range.clone(), ancillary, pre, comp, layout, parallel: 1 };
    if thorough {
        for r in &ranges {
            for anc in [false, true] {
                if anc && !r.numbers().contains(&BEACON) {
                    continue;
                }
                for pre in [Pre::Empty, Pre::UserFiles] {
                    for comp in [Comp::Zstd, Comp::Gzip] {
                        for layout in [Layout::InMemory, Layout::Legacy] {
                            if !anc && layout == Layout::Legacy {
                                continue;
                            }
                            v.push(mk(r, anc, pre, comp, layout));
                        }
                    }
                }
            }
        }
    } else {
        v.push(mk(&RangeSel::Range(2, 3), true, Pre::Empty, Comp::Zstd, Layout::InMemory));
        v.push(mk(&RangeSel::Full, true, Pre::UserFiles, Comp::Gzip, Layout::Legacy));
        v.push(mk(&RangeSel::From(2), true, Pre::UserFiles, Comp::Zstd, Layout::InMemory));
        v.push(mk(&RangeSel::Range(1, 2), false, Pre::Empty, Comp::Zstd, Layout::InMemory));
        v.push(mk(&RangeSel::UpTo(1), false, Pre::UserFiles, Comp::Gzip, Layout::InMemory));
        v.push(mk(&RangeSel::Range(2, 2), false, Pre::Empty, Comp::Gzip, Layout::InMemory));
    }
    v
}

/// configurations in which the client must not touch the disk at all, and parallel honest runs
fn side_cases(thorough: bool) -> Vec<Case> {
    let mut v = vec![];
    for c in configs(thorough) {
        // honest download with the default parallelism
        v.push(Case::new(Config { parallel: 20, ..c.clone() }, vec![]));
    }
    for anc in [false, true] {
        let config = Config { range: RangeSel::Range(2, 3), ancillary: anc, pre: Pre::Empty, comp: Comp::Zstd, layout: Layout::InMemory, parallel: 1 };
        v.push(Case::new(config.clone(), vec![Alt::DeclaredUncompressed { arch: Arch::Imm(2) }]));
        if anc {
            v.push(Case::new(config, vec![Alt::DeclaredUncompressed { arch: Arch::Anc }]));
        }
    }
    for pre in [Pre::UserFilesNoOverride, Pre::Missing] {
        for anc in [false, true] {
            let config = Config { range: RangeSel::Range(2, 3), ancillary: anc, pre, comp: Comp::Zstd, layout: Layout::InMemory, parallel: 1 };
            v.push(Case::new(config.clone(), vec![]));
            v.push(Case::new(config, vec![Alt::Add { arch: Arch::Imm(2), pos: Pos::First, extra: "file:ledger/999".into() }]));
        }
    }
    v
}

#[derive(Clone, Copy, PartialEq)]
enum Width {
    /// first and last archive of the range, entries added first / last
    Quick,
    /// every archive of the range, entries added at every position
    Wide,
    /// representative subset of the added entries (one per path class), used for pairs
    Core,
}

const CORE_IMM: [&str; 16] = [
    "file:ledger/999",
    "file:volatile/blocks-0.dat",
    "file:stray-root.txt",
    "file:clean",
    "file:immutable/stray.txt",
    "file:immutable/{own}.chunk/evil",
    "file:immutable/00000.chunk",
    "file:immutable/00004.chunk",
    "file:immutable/00005.chunk",
    "file:../escape-dotdot.txt",
    "file:@OUT@/escape-abs.txt",
    "dir:volatile",
    "symlink:ledger->@OUT@/ledger-out",
    "symlink:clean->@OUT@/victim-clean",
    "symlink:immutable/dirlink->@OUT@/vdir",
    "hardlink:ledger/hardlink->immutable/{own}.chunk",
];

const CORE_ANC: [&str; 10] = [
    "file:ledger/evil-unlisted",
    "file:volatile/blocks-0.dat",
    "file:stray-root.txt",
    "file:clean",
    "file:immutable/00001.chunk",
    "file:../ledger/escape-into-target",
    "file:up/evil.txt",
    "symlink:up->..",
    "symlink:volatile->@OUT@/vol-out",
    "hardlink:ledger/hard-unlisted->immutable/00004.chunk",
];

fn singles(cfg: &Config, width: Width) -> Vec<Alt> {
    let wide = width == Width::Wide;
    let mut v = vec![];
    let nums: Vec<u64> = cfg.range.numbers().into_iter().collect();
    let archives: Vec<u64> = if wide {
        nums.clone()
    } else {
        let mut a = vec![nums[0], *nums.last().unwrap()];
        a.dedup();
        a
    };
    for n in &archives {
        let arch = Arch::Imm(*n);
        let positions: Vec<Pos> = if wide { vec![Pos::First, Pos::Before(1), Pos::Before(2), Pos::Last] } else { vec![Pos::First, Pos::Last] };
        for x in imm_extras(*n) {
            if width == Width::Core && !CORE_IMM.iter().any(|c| c.replace("{own}", &format!("{n:05}")) == x.name) {
                continue;
            }
            for pos in &positions {
                v.push(Alt::Add { arch: arch.clone(), pos: pos.clone(), extra: x.name.clone() });
            }
        }
        for idx in 0..3 {
            v.push(Alt::Remove { arch: arch.clone(), idx });
            v.push(Alt::CutBoundary { arch: arch.clone(), keep: idx });
            v.push(Alt::CutMid { arch: arch.clone(), entry: idx });
        }
        v.push(Alt::Tamper { arch: arch.clone(), idx: 0 });
        v.push(Alt::CutCompressed { arch: arch.clone() });
        v.push(Alt::Missing { arch: arch.clone() });
    }
    if cfg.ancillary {
        let arch = Arch::Anc;
        let listed = anc_listed(cfg.layout);
        let nl = listed.len();
        let positions: Vec<Pos> = if wide {
            vec![Pos::First, Pos::Before(3), Pos::Before(nl), Pos::Last]
        } else if width == Width::Core {
            vec![Pos::First, Pos::Last]
        } else {
            vec![Pos::First, Pos::Before(nl), Pos::Last]
        };
        for x in anc_extras() {
            if width == Width::Core && !CORE_ANC.contains(&x.name.as_str()) {
                continue;
            }
            for pos in &positions {
                v.push(Alt::Add { arch: arch.clone(), pos: pos.clone(), extra: x.name.clone() });
            }
        }
        for idx in 0..nl {
            v.push(Alt::Remove { arch: arch.clone(), idx });
            v.push(Alt::Tamper { arch: arch.clone(), idx });
            v.push(Alt::AsSymlink { idx, abs: false });
            if width != Width::Core {
                v.push(Alt::AsSymlink { idx, abs: true });
            }
            v.push(Alt::Man(ManAlt::HashChanged(idx)));
            v.push(Alt::Man(ManAlt::EntryRemoved(idx)));
            if idx + 1 < nl {
                v.push(Alt::Man(ManAlt::MergeWithNext(idx)));
            }
        }
        for m in [
            ManAlt::EntryAddedFilePresent,
            ManAlt::EntryAddedFileAbsent,
            ManAlt::SigRemoved,
            ManAlt::SigAltered,
            ManAlt::SigOtherKey,
            ManAlt::Missing,
            ManAlt::Garbage,
            ManAlt::SecondEvilLast,
            ManAlt::SecondEvilFirst,
        ] {
            v.push(Alt::Man(m));
        }
        for k in 0..=nl {
            v.push(Alt::CutBoundary { arch: arch.clone(), keep: k });
            v.push(Alt::CutMid { arch: arch.clone(), entry: k });
        }
        v.push(Alt::CutCompressed { arch: arch.clone() });
        v.push(Alt::Missing { arch: arch.clone() });
    }
    if cfg.pre == Pre::UserFiles {
        // a directory where a file must land (unpack of an immutable / move of an ancillary file fails there)
        v.push(Alt::PreDirAt { path: trio(nums[0])[1].clone() });
        v.push(Alt::PreFileAt { path: "immutable".into() });
        if cfg.ancillary {
            for (p, _) in anc_listed(cfg.layout) {
                v.push(Alt::PreDirAt { path: p });
            }
            v.push(Alt::PreFileAt { path: "ledger".into() });
        }
    }
    v
}

fn compatible(a: &Alt, b: &Alt) -> bool {
    if let (Some(x), Some(y)) = (a.arch(), b.arch())
        && x == y
        && (a.is_stream_fault() && b.is_stream_fault())
    {
        return false;
    }
    match (a, b) {
        (Alt::Missing { arch }, o) | (o, Alt::Missing { arch }) if o.arch().as_ref() == Some(arch) => false,
        (Alt::PreDirAt { path: p }, Alt::PreDirAt { path: q })
        | (Alt::PreDirAt { path: p }, Alt::PreFileAt { path: q })
        | (Alt::PreFileAt { path: p }, Alt::PreDirAt { path: q })
        | (Alt::PreFileAt { path: p }, Alt::PreFileAt { path: q }) => !(p.starts_with(q.as_str()) || q.starts_with(p.as_str())),
        _ => a != b,
    }
}

fn pair_configs() -> Vec<Config> {
    let mk = |range: RangeSel, ancillary, pre, comp, layout| Config { range, ancillary, pre, comp, layout, parallel: 1 };
    vec![
        mk(RangeSel::Range(2, 3), true, Pre::Empty, Comp::Zstd, Layout::InMemory),
        mk(RangeSel::From(3), true, Pre::UserFiles, Comp::Gzip, Layout::Legacy),
        mk(RangeSel::Range(1, 2), false, Pre::UserFiles, Comp::Zstd, Layout::InMemory),
    ]
}

/// a few two-step cases that the quick tier runs too: a hostile entry followed by a failure of the
/// same download (the clean-up must also run when the download fails)
fn combos(cfg: &Config) -> Vec<Case> {
    let nums: Vec<u64> = cfg.range.numbers().into_iter().collect();
    let (first, last) = (nums[0], *nums.last().unwrap());
    let mut v = vec![];
    let mut faults = vec![
        Alt::CutBoundary { arch: Arch::Imm(last), keep: 0 },
        Alt::CutMid { arch: Arch::Imm(last), entry: 0 },
        Alt::CutMid { arch: Arch::Imm(last), entry: 2 },
        Alt::CutCompressed { arch: Arch::Imm(last) },
        Alt::Missing { arch: Arch::Imm(last) },
    ];
    if cfg.ancillary {
        faults.push(Alt::Missing { arch: Arch::Anc });
        faults.push(Alt::CutMid { arch: Arch::Anc, entry: 1 });
        faults.push(Alt::Man(ManAlt::SigRemoved));
        faults.push(Alt::Man(ManAlt::SigOtherKey));
        faults.push(Alt::Tamper { arch: Arch::Anc, idx: 4 });
    }
    for extra in ["file:immutable/stray.txt", "file:immutable/sub/nested.txt", "file:immutable/00005.chunk", "symlink:immutable/dirlink->@OUT@/vdir"] {
        for f in &faults {
            let add = Alt::Add { arch: Arch::Imm(first), pos: Pos::First, extra: extra.into() };
            if compatible(&add, f) {
                v.push(Case::new(cfg.clone(), vec![add, f.clone()]));
            }
        }
    }
    v
}

/// Pace of the mirror (range 2..=3 with ancillary, empty target, default parallelism): every
/// completion ORDER of the three transfers, and every (held, failing) pair: one transfer is
/// received and unpacked but its end is pending when another one is answered with an error, so
/// that the client aborts the batch (`abort_all`) while the held task is suspended.
fn paced_cases(thorough: bool) -> Vec<Case> {
    let mut v = vec![];
    let layouts: &[Layout] = if thorough { &[Layout::InMemory, Layout::Legacy] } else { &[Layout::InMemory] };
    let tasks = [Arch::Imm(2), Arch::Imm(3), Arch::Anc];
    const ORDER_EXTRAS: [&str; 7] = [
        "file:immutable/00004.chunk",
        "file:ledger/737/meta",
        "file:ledger/737",
        "file:immutable/00005.chunk",
        "file:immutable/stray.txt",
        "file:ledger/999",
        "symlink:ledger->@OUT@/ledger-out",
    ];
    for &layout in layouts {
        let config = Config { range: RangeSel::Range(2, 3), ancillary: true, pre: Pre::Empty, comp: Comp::Zstd, layout, parallel: 20 };
        let nl = anc_listed(layout).len();
        let failing_verification = [
            Alt::Man(ManAlt::SigRemoved),
            Alt::Man(ManAlt::SigOtherKey),
            Alt::Man(ManAlt::Missing),
            Alt::Tamper { arch: Arch::Anc, idx: 0 },
            Alt::Tamper { arch: Arch::Anc, idx: nl - 1 },
            Alt::CutMid { arch: Arch::Anc, entry: 1 },
            Alt::Missing { arch: Arch::Anc },
        ];
        for perm in mc_core::permutations(3) {
            let schedule = Schedule::Steps(perm.iter().map(|i| (tasks[*i].clone(), Step::Complete)).collect());
            v.push(Case { config: config.clone(), alts: vec![], schedule: schedule.clone() });
            for n in [2u64, 3] {
                for extra in ORDER_EXTRAS {
                    let add = Alt::Add { arch: Arch::Imm(n), pos: Pos::Last, extra: extra.into() };
                    v.push(Case { config: config.clone(), alts: vec![add.clone()], schedule: schedule.clone() });
                    if thorough {
                        for f in &failing_verification {
                            v.push(Case { config: config.clone(), alts: vec![add.clone(), f.clone()], schedule: schedule.clone() });
                        }
                    }
                }
            }
            for f in &failing_verification {
                v.push(Case { config: config.clone(), alts: vec![f.clone()], schedule: schedule.clone() });
            }
        }
        for held in &tasks {
            for failing in &tasks {
                if held == failing {
                    continue;
                }
                let mut steps: Vec<(Arch, Step)> = tasks.iter().filter(|t| *t != held && *t != failing).map(|t| (t.clone(), Step::Complete)).collect();
                steps.push((held.clone(), Step::Hold));
                steps.push((failing.clone(), Step::Fail));
                let schedule = Schedule::Steps(steps);
                let mut alts: Vec<Vec<Alt>> = vec![vec![]];
                match held {
                    Arch::Anc => {
                        // the transfer is pending after every number of entries
                        for keep in 0..=nl {
                            alts.push(vec![Alt::CutBoundary { arch: Arch::Anc, keep }]);
                        }
                        alts.push(vec![Alt::Man(ManAlt::Missing)]);
                        alts.push(vec![Alt::Man(ManAlt::SigRemoved)]);
                        for extra in ["file:ledger/evil-unlisted", "file:volatile/blocks-0.dat", "file:clean"] {
                            for pos in [Pos::First, Pos::Last] {
                                alts.push(vec![Alt::Add { arch: Arch::Anc, pos, extra: extra.into() }]);
                            }
                        }
                    }
                    Arch::Imm(n) => {
                        for keep in 0..3 {
                            alts.push(vec![Alt::CutBoundary { arch: Arch::Imm(*n), keep }]);
                        }
                        alts.push(vec![Alt::Add { arch: Arch::Imm(*n), pos: Pos::First, extra: "file:immutable/stray.txt".into() }]);
                        alts.push(vec![Alt::Add { arch: Arch::Imm(*n), pos: Pos::First, extra: "file:immutable/00005.chunk".into() }]);
                    }
                }
                for a in alts {
                    v.push(Case { config: config.clone(), alts: a, schedule: schedule.clone() });
                }
            }
        }
    }
    v
}

/// entries carrying restrictive permissions, together with a failing verification / download
/// (alone they are part of `singles`); executed by a client that is not root
fn restricted_permission_pairs(thorough: bool) -> Vec<Case> {
    let mut v = vec![];
    let layouts: &[Layout] = if thorough { &[Layout::InMemory, Layout::Legacy] } else { &[Layout::InMemory] };
    for &layout in layouts {
        let config = Config { range: RangeSel::Range(2, 3), ancillary: true, pre: Pre::Empty, comp: Comp::Zstd, layout, parallel: 1 };
        let nl = anc_listed(layout).len();
        let failing = [
            Alt::Man(ManAlt::SigRemoved),
            Alt::Man(ManAlt::Missing),
            Alt::Tamper { arch: Arch::Anc, idx: nl - 1 },
            Alt::Missing { arch: Arch::Imm(3) },
        ];
        for x in anc_extras().iter().filter(|x| matches!(x.entry.kind, Kind::RestrictedDir { .. })) {
            for pos in [Pos::First, Pos::Before(nl), Pos::Last] {
                for f in &failing {
                    v.push(Case::new(config.clone(), vec![Alt::Add { arch: Arch::Anc, pos: pos.clone(), extra: x.name.clone() }, f.clone()]));
                }
            }
        }
        for x in imm_extras(2).iter().filter(|x| matches!(x.entry.kind, Kind::RestrictedDir { .. })) {
            for pos in [Pos::First, Pos::Last] {
                for f in &failing {
                    v.push(Case::new(config.clone(), vec![Alt::Add { arch: Arch::Imm(2), pos: pos.clone(), extra: x.name.clone() }, f.clone()]));
                }
            }
        }
    }
    v
}

fn all_cases(thorough: bool) -> Vec<Case> {
    let mut v = vec![];
    for c in configs(thorough) {
        v.push(Case::new(c.clone(), vec![]));
        for a in singles(&c, if thorough { Width::Wide } else { Width::Quick }) {
            v.push(Case::new(c.clone(), vec![a]));
        }
    }
    v.extend(side_cases(thorough));
    for c in configs(false).iter().take(4) {
        v.extend(combos(c));
    }
    if thorough {
        for c in pair_configs() {
            let s = singles(&c, Width::Core);
            for i in 0..s.len() {
                for k in i + 1..s.len() {
                    if compatible(&s[i], &s[k]) {
                        v.push(Case::new(c.clone(), vec![s[i].clone(), s[k].clone()]));
                    }
                }
            }
        }
    }
    v.extend(paced_cases(thorough));
    v.extend(restricted_permission_pairs(thorough));
    // a case is listed once
    let mut seen = BTreeSet::new();
    v.retain(|c| seen.insert(serde_json::to_string(c).unwrap()));
    v
}

// ------------------------------------------------------------------------------------------------

fn report_to_json(r: &Report) -> Value {
    let mut nt: Vec<u64> = r.nontrivial.iter().copied().collect();
    nt.sort();
    json!({
        "evaluations": r.evaluations,
        "nontrivial": nt,
        "samples": r.samples,
        "extras": r.extras,
        "outcomes": r.outcomes,
        "violation_counts": r.violation_counts,
        "violations": r.violations.iter().map(|v| json!({"key": v.key, "what": v.what, "replay": v.replay})).collect::<Vec<_>>(),
    })
}

fn report_from_json(v: &Value) -> Report {
    let mut r = Report::new("fault_enumeration", "");
    r.evaluations = v["evaluations"].as_u64().unwrap_or(0);
    for h in v["nontrivial"].as_array().cloned().unwrap_or_default() {
        r.nontrivial.insert(h.as_u64().unwrap_or(0));
    }
    for s in v["samples"].as_array().cloned().unwrap_or_default() {
        r.samples.push(s);
    }
    for (k, x) in v["extras"].as_object().cloned().unwrap_or_default() {
        r.extras.insert(k, x);
    }
    for (k, x) in v["outcomes"].as_object().cloned().unwrap_or_default() {
        r.outcomes.insert(k, x.as_u64().unwrap_or(0));
    }
    for (k, x) in v["violation_counts"].as_object().cloned().unwrap_or_default() {
        r.violation_counts.insert(k, x.as_u64().unwrap_or(0));
    }
    for x in v["violations"].as_array().cloned().unwrap_or_default() {
        r.violations.push(mc_core::Violation {
            key: x["key"].as_str().unwrap_or("").to_string(),
            what: x["what"].as_str().unwrap_or("").to_string(),
            replay: x["replay"].clone(),
        });
    }
    r
}

const NOBODY: u32 = 65534;

fn running_as_root(scratch: &Path) -> bool {
    use std::os::unix::fs::MetadataExt;
    let probe = scratch.join("uid-probe");
    let _ = std::fs::write(&probe, b"");
    let uid = std::fs::metadata(&probe).map(|m| m.uid()).unwrap_or(1);
    let _ = std::fs::remove_file(&probe);
    uid == 0
}

/// Cases whose fault is a permission: root is not constrained by permissions, so they are executed
/// by this same binary re-started as `nobody` (setuid/setgid through `Command`), in a directory
/// handed over to that user; its partial report comes back on stdout.
fn run_unprivileged(ctx: &Ctx, cases: &[Case], verbose: bool) -> Result<Report, String> {
    use std::os::unix::process::CommandExt;
    let dir = SCRATCH.get().expect("scratch").join("unprivileged");
    std::fs::create_dir_all(&dir).map_err(|e| format!("unprivileged dir: {e}"))?;
    std::fs::write(dir.join("cases.json"), serde_json::to_vec(cases).unwrap()).map_err(|e| format!("cases file: {e}"))?;
    std::os::unix::fs::chown(&dir, Some(NOBODY), Some(NOBODY)).map_err(|e| format!("chown: {e}"))?;
    let exe = std::env::current_exe().map_err(|e| format!("current_exe: {e}"))?;
    let mut cmd = std::process::Command::new(exe);
    cmd.arg(&ctx.property).arg(ctx.tier.as_str()).arg("--unprivileged-worker").arg(&dir);
    cmd.env("HOME", &dir).env("TMPDIR", &dir);
    if verbose {
        cmd.env("C19_VERBOSE", "1");
    }
    cmd.uid(NOBODY).gid(NOBODY);
    cmd.stdin(std::process::Stdio::null()).stderr(std::process::Stdio::inherit());
    let out = cmd.output().map_err(|e| format!("cannot start the unprivileged worker: {e}"))?;
    if !out.status.success() {
        return Err(format!("unprivileged worker ended with {}", out.status));
    }
    let txt = String::from_utf8_lossy(&out.stdout);
    let line = txt.lines().rev().find(|l| l.starts_with("{")).ok_or("unprivileged worker printed no report")?;
    let v: Value = serde_json::from_str(line).map_err(|e| format!("unprivileged worker report: {e}"))?;
    if v["uid"].as_u64() != Some(NOBODY as u64) {
        return Err(format!("unprivileged worker ran as uid {}", v["uid"]));
    }
    Ok(report_from_json(&v["report"]))
}

fn unprivileged_worker(ctx: &Ctx, dir: &Path) -> ! {
    use std::os::unix::fs::MetadataExt;
    SCRATCH.set(dir.to_path_buf()).expect("scratch once");
    let cases: Vec<Case> = serde_json::from_slice(&std::fs::read(dir.join("cases.json")).expect("cases file")).expect("cases json");
    let verbose = std::env::var("C19_VERBOSE").is_ok();
    let mut rep = Report::new("fault_enumeration", "");
    for p in par_map(&cases, ctx.threads(), |_, c| run_case(c, verbose)) {
        rep.merge(p);
    }
    let probe = dir.join("uid-probe");
    std::fs::write(&probe, b"").expect("probe");
    let uid = std::fs::metadata(&probe).map(|m| m.uid()).unwrap_or(0);
    println!("{}", json!({"uid": uid, "report": report_to_json(&rep)}));
    std::process::exit(0)
}

fn run_case(case: &Case, verbose: bool) -> Report {
    let mut rep = Report::new("fault_enumeration", "");
    rep.eval();
    let obs = with_worker(|w| execute(w, case));
    let j = judge(case, &obs);
    let cj = serde_json::to_value(case).expect("case json");
    if verbose {
        eprintln!("case: {cj}");
        eprintln!("result: {:?}", obs.result);
        for (k, n) in &obs.after {
            if obs.before.get(k) != Some(n) {
                eprintln!("  + {k}: {}", show(n));
            }
        }
        for k in obs.before.keys() {
            if !obs.after.contains_key(k) {
                eprintln!("  - {k}");
            }
        }
    }
    let ok = obs.result.is_ok();
    if obs.result.as_ref().is_err_and(|e| e.starts_with("PANIC")) {
        rep.add_extra("panics_observed", 1);
    }
    if j.target_changed || ok {
        rep.nontrivial(&cj.to_string());
    }
    let anc_state = match (&obs.anc, j.kept_from_ancillary > 0) {
        (None, _) => "no-ancillary",
        (Some(_), true) => "ancillary-kept",
        (Some(_), false) => "ancillary-not-kept",
    };
    rep.outcome(&format!("{}|{}|{}", if ok { "download-ok" } else { "download-err" }, anc_state, if j.violations.is_empty() { "listing-allowed" } else { "listing-VIOLATES" }));
    if std::env::var("C19_TRACE").is_ok() {
        eprintln!("TRACE\t{}\t{}\t{}\t{}\t{cj}", if ok { "ok" } else { "err" }, j.kept_immutables, j.kept_from_ancillary, j.violations.iter().map(|v| v.0.clone()).collect::<Vec<_>>().join(","));
    }
    if let Some(d) = &obs.anc {
        match reference_valid(d, &signed(case.config.layout)) {
            Some(true) => rep.add_extra("ancillary_reference_valid", 1),
            Some(false) => rep.add_extra("ancillary_reference_invalid", 1),
            None => rep.add_extra("ancillary_reference_undecided", 1),
        }
    }
    rep.add_extra("kept_immutable_files", j.kept_immutables as u64);
    rep.add_extra("kept_ancillary_files", j.kept_from_ancillary as u64);
    rep.add_extra("observed_unexpected_empty_dirs", j.unexpected_dirs as u64);
    rep.add_extra("observed_preexisting_nodes_removed", j.preexisting_removed as u64);
    rep.add_extra("observed_raw_downloads_left_in_target_when_message_declares_no_compression", j.raw_downloads_left as u64);
    if !case.alts.is_empty() && j.violations.is_empty() && j.target_changed {
        rep.sample(json!({"case": cj, "download": if ok { "ok" } else { "err" }, "verdict": "listing allowed"}));
    }
    let mut seen = BTreeSet::new();
    for (key, what) in j.violations {
        if seen.insert(key.clone()) {
            if std::env::var("C19_DUMP").is_ok() {
                eprintln!("DUMP\t{key}\t{}\t{cj}", if ok { "ok" } else { "err" });
            }
            rep.violation(
                &key,
                format!("{what} || case: {cj} || download_unpack returned {}", match &obs.result { Ok(()) => "Ok".to_string(), Err(e) => format!("Err({})", e.chars().take(200).collect::<String>()) }),
                cj.clone(),
            );
        }
    }
    rep
}

pub fn run(ctx: &Ctx) -> ! {
    if let Some(i) = ctx.extra_args.iter().position(|a| a == "--unprivileged-worker") {
        unprivileged_worker(ctx, Path::new(&ctx.extra_args[i + 1]));
    }
    SCRATCH.set(ctx.scratch()).expect("scratch once");
    let root = running_as_root(SCRATCH.get().unwrap());
    if std::env::var("C19_LOUD").is_ok() {
        let _ = std::panic::take_hook();
    }
    let thorough = ctx.tier.pick(false, true);
    let mut rep = Report::new(
        "fault_enumeration",
        "every configuration of the lattice (range x ancillary option x target pre-state x compression x ledger layout) x \
         every single alteration (thorough: also every compatible pair, on three configurations) of what the mirror serves \
         (entries added at each position, removed, tampered, served as links; manifest alterations; stream cut after / \
         inside each entry, truncated compressed stream, missing archive) and of the target pre-state (directory / file \
         in the way of each listed file) is pushed through the real Client::cardano_database_v2().download_unpack with the \
         real HttpFileDownloader on file:// archives; plus, for range 2..=3 with ancillary: every completion order of the \
         three transfers and every abort of the batch while one transfer is pending (paced mirror), and entries with \
         restrictive permissions executed by a non-root client; a case is non-trivial when the download wrote something into the \
         target directory or succeeded; distinct = distinct (configuration, alterations)",
    );
    rep.max_samples = 8;
    if let Some(path) = &ctx.replay {
        let v = mc_core::load_replay(path);
        let case: Case = serde_json::from_value(v).unwrap_or_else(|e| {
            eprintln!("replay file does not describe a C19 case: {e}");
            std::process::exit(2)
        });
        let r = if root && case.needs_unprivileged() {
            run_unprivileged(ctx, std::slice::from_ref(&case), true).unwrap_or_else(|e| {
                let mut r = Report::new("fault_enumeration", "");
                r.machinery_error(e);
                r
            })
        } else {
            run_case(&case, true)
        };
        rep.merge(r);
        rep.nontrivial(&0);
        rep.nontrivial(&1);
        rep.finish(ctx);
    }
    let mut cases = all_cases(thorough);
    // VERIF_SEED permutes the order only
    if ctx.seed != 0 {
        let mut keyed: Vec<(u64, Case)> = cases.drain(..).enumerate().map(|(i, c)| (mc_core::mix(ctx.seed, i as u64), c)).collect();
        keyed.sort_by_key(|(k, _)| *k);
        cases = keyed.into_iter().map(|(_, c)| c).collect();
    }
    rep.extra("beacon_immutable_file_number", json!(BEACON));
    rep.extra("configurations", json!(configs(thorough).len()));
    rep.extra("cases_with_no_alteration", json!(cases.iter().filter(|c| c.alts.is_empty()).count()));
    rep.extra("cases_with_one_alteration", json!(cases.iter().filter(|c| c.alts.len() == 1).count()));
    rep.extra("cases_with_two_alterations", json!(cases.iter().filter(|c| c.alts.len() == 2).count()));
    rep.extra("max_simultaneous_alterations", json!(if thorough { 2 } else { 1 }));
    rep.extra(
        "alphabet",
        json!({
            "entries_added_to_an_immutable_archive": imm_extras(2).iter().map(|x| x.name.clone()).collect::<Vec<_>>(),
            "entries_added_to_the_ancillary_archive": anc_extras().iter().map(|x| x.name.clone()).collect::<Vec<_>>(),
            "manifest_alterations": ["HashChanged(i)", "EntryRemoved(i)", "MergeWithNext(i)", "EntryAddedFilePresent", "EntryAddedFileAbsent", "SigRemoved", "SigAltered", "SigOtherKey", "Missing", "Garbage", "SecondEvilLast", "SecondEvilFirst"],
            "stream_faults_per_archive": ["CutBoundary(k) for every k", "CutMid(entry) for every entry", "CutCompressed", "Missing"],
            "pace_of_the_mirror": ["every completion order of the transfers (range 2..=3 + ancillary)", "every (held, failing) pair: Hold = received and unpacked but pending, Fail = error answer, the rest completes first", "held ancillary transfer pending after every number of entries"],
            "other": ["Remove(i)", "Tamper(i)", "AsSymlink(i, relative|absolute)", "PreDirAt(each listed ancillary file, first immutable .primary)", "PreFileAt(ledger|immutable)"],
        }),
    );
    rep.extra("cases_with_paced_mirror", json!(cases.iter().filter(|c| c.schedule != Schedule::Free).count()));
    rep.extra("cases_with_abort_while_a_transfer_is_pending", json!(cases.iter().filter(|c| c.holds()).count()));
    let (unpriv, cases): (Vec<Case>, Vec<Case>) = cases.into_iter().partition(|c| root && c.needs_unprivileged());
    rep.extra("cases_run_by_a_client_that_is_not_root", json!(if root { unpriv.len() } else { cases.iter().filter(|c| c.needs_unprivileged()).count() }));
    let parts = par_map(&cases, ctx.threads(), |_, c| run_case(c, false));
    for p in parts {
        rep.merge(p);
    }
    if !unpriv.is_empty() {
        match run_unprivileged(ctx, &unpriv, false) {
            Ok(r) => rep.merge(r),
            Err(e) => rep.machinery_error(e),
        }
    }
    if std::env::var("C19_PROFILE").is_ok() {
        eprintln!(
            "profile (cpu-seconds over all workers): setup {:.1} snapshots {:.1} download_unpack {:.1} cleanup {:.1}",
            T_SETUP.load(Ordering::Relaxed) as f64 / 1e6,
            T_SNAP.load(Ordering::Relaxed) as f64 / 1e6,
            T_RUN.load(Ordering::Relaxed) as f64 / 1e6,
            T_CLEAN.load(Ordering::Relaxed) as f64 / 1e6
        );
    }
    rep.assume("max_parallel_downloads = 1 in altered cases (archives are fetched one after the other, immutables ascending, then ancillary), so that the outcome of a failing download is deterministic; the honest download is also run with the default 20");
    rep.assume("pace of the mirror (order of completion, a transfer whose end is pending, an error answer) is played by a wrapper around the real RetryDownloader(HttpFileDownloader) that only decides when a call is forwarded and whether its return is reported; 'pending' means: everything served so far received and unpacked, the call never returns");
    rep.assume("the bytes of immutable files of the requested range are C10's business");
    rep.assume("directories are not counted as files: an empty directory left behind is reported as an observation only");
    rep.assume("entries carrying restrictive permissions are run by this binary re-started as uid/gid 65534 when the check itself runs as root (root is not constrained by permission bits)");
    rep.assume("the tar / zstd / flate2 crates the client links are part of the code under test, not of the oracle; the harness writes archives with the same crates' encoders");
    rep.finish(ctx)
}
