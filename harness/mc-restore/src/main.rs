//! mc-restore: serves C19 (see /verif/DESIGN.md §4)
mod c19;

fn main() {
    let ctx = mc_core::Ctx::from_args();
    mc_core::quiet_panics();
    match ctx.property.as_str() {
        "C19" => c19::run(&ctx),
        other => {
            eprintln!("mc-restore does not serve {other}");
            std::process::exit(2);
        }
    }
}
