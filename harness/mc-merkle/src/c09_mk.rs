//! C09, part 2 — the generic `MKTree` / `MKProof` (Merkle mountain range) through its public API.
//!
//! Seam: `MKTree::<MKTreeStoreInMemory>::new`, `compute_root`, `compute_proof`, `MKProof::verify`,
//! `MKProof::root`, `MKProof::contains`, `MKProof::leaves`, `MKProof::{to_bytes, from_bytes}`.
//! Private proof fields are reached through mirror structs converted over the real byte format.

use blake2::{Blake2s256, Digest};
use crate::c09_util::{Label, violation};
use mc_core::{Report, catch};
use mithril_merkle_tree::{MKProof, MKTree, MKTreeNode, MKTreeStoreInMemory};
use serde::{Deserialize, Serialize};
use serde_json::{Value, json};

pub type Bytes = Vec<u8>;

// ---- mirrors of the private proof structs (same field order ⇒ same bincode bytes) -------------

#[derive(Serialize, Deserialize, Clone, PartialEq, Eq, Hash, Debug)]
pub struct PNode {
    pub hash: Bytes,
}

#[derive(Serialize, Deserialize, Clone, PartialEq, Eq, Hash, Debug)]
pub struct PProof {
    pub inner_root: PNode,
    pub inner_leaves: Vec<(u64, PNode)>,
    pub inner_proof_size: u64,
    pub inner_proof_items: Vec<PNode>,
}

pub fn node(b: &[u8]) -> PNode {
    PNode { hash: b.to_vec() }
}

impl PProof {
    pub fn to_real(&self) -> Option<MKProof> {
        let bytes = bincode::serde::encode_to_vec(self, bincode::config::standard()).ok()?;
        MKProof::from_bytes(&bytes).ok()
    }
    pub fn from_real(p: &MKProof) -> PProof {
        let bytes = p.to_bytes().expect("MKProof::to_bytes");
        let (m, used): (PProof, usize) =
            bincode::serde::decode_from_slice(&bytes, bincode::config::standard()).expect("mirror of MKProof decodes");
        assert_eq!(used, bytes.len(), "mirror of MKProof consumes all bytes");
        m
    }
    pub fn to_json(&self) -> Value {
        json!({
            "root": hex::encode(&self.inner_root.hash),
            "leaves": self.inner_leaves.iter().map(|(p, n)| json!([p.to_string(), hex::encode(&n.hash)])).collect::<Vec<_>>(),
            "size": self.inner_proof_size.to_string(),
            "items": self.inner_proof_items.iter().map(|n| hex::encode(&n.hash)).collect::<Vec<_>>(),
        })
    }
    pub fn from_json(v: &Value) -> PProof {
        let hx = |s: &Value| hex::decode(s.as_str().unwrap_or("")).expect("hex");
        PProof {
            inner_root: PNode { hash: hx(&v["root"]) },
            inner_leaves: v["leaves"]
                .as_array()
                .map(|a| a.iter().map(|e| (e[0].as_str().unwrap_or("0").parse().expect("pos"), PNode { hash: hx(&e[1]) })).collect())
                .unwrap_or_default(),
            inner_proof_size: v["size"].as_str().unwrap_or("0").parse().expect("size"),
            inner_proof_items: v["items"].as_array().map(|a| a.iter().map(|e| PNode { hash: hx(e) }).collect()).unwrap_or_default(),
        }
    }
}

// ---- independent description of the committed tree ----------------------------------------------

pub fn h2(l: &[u8], r: &[u8]) -> Bytes {
    let mut h = Blake2s256::new();
    h.update(l);
    h.update(r);
    h.finalize().to_vec()
}

/// MMR position of the i-th leaf and size of an MMR of n leaves (closed forms, not the library's code)
pub fn leaf_pos(i: u64) -> u64 {
    2 * i - i.count_ones() as u64
}
pub fn mmr_size(n: u64) -> u64 {
    2 * n - n.count_ones() as u64
}

/// the hash expression of the root: children in the order in which they are hashed
#[derive(Clone, Debug)]
pub struct Expr {
    pub hash: Bytes,
    pub kids: Option<Box<(Expr, Expr)>>,
}

fn perfect(leaves: &[Bytes]) -> Expr {
    if leaves.len() == 1 {
        return Expr { hash: leaves[0].clone(), kids: None };
    }
    let (l, r) = leaves.split_at(leaves.len() / 2);
    let (l, r) = (perfect(l), perfect(r));
    Expr { hash: h2(&l.hash, &r.hash), kids: Some(Box::new((l, r))) }
}

/// mountains left to right, then bagged from the right: H(right ‖ left)
pub fn root_expr(leaves: &[Bytes]) -> Expr {
    let n = leaves.len();
    assert!(n > 0);
    let mut peaks = vec![];
    let mut off = 0;
    for b in (0..usize::BITS).rev() {
        let sz = 1usize << b;
        if n & sz != 0 {
            peaks.push(perfect(&leaves[off..off + sz]));
            off += sz;
        }
    }
    let mut acc = peaks.pop().unwrap();
    while let Some(left) = peaks.pop() {
        acc = Expr { hash: h2(&acc.hash, &left.hash), kids: Some(Box::new((acc, left))) };
    }
    acc
}

pub fn inner_hashes(e: &Expr, out: &mut Vec<Bytes>) {
    if let Some(k) = &e.kids {
        out.push(e.hash.clone());
        inner_hashes(&k.0, out);
        inner_hashes(&k.1, out);
    }
}

/// all frontiers (cuts) of the expression, each in hashing order
pub fn frontiers(e: &Expr) -> Vec<Vec<Bytes>> {
    let mut out = vec![vec![e.hash.clone()]];
    if let Some(k) = &e.kids {
        let (a, b) = (frontiers(&k.0), frontiers(&k.1));
        for x in &a {
            for y in &b {
                let mut f = x.clone();
                f.extend(y.iter().cloned());
                out.push(f);
            }
        }
    }
    out
}

pub struct World {
    pub leaves: Vec<Bytes>,
    pub tree: MKTree<MKTreeStoreInMemory>,
    pub root: Bytes,
    pub expr: Expr,
    /// every hash of the expression that is not a leaf (root included unless n = 1)
    pub inner: Vec<Bytes>,
    /// does the harness' own description of the hash structure reproduce the real root? It is needed
    /// only to *make* the designed same-root forgeries; every oracle works without it.
    pub reference_ok: bool,
}

pub fn leaf_name(i: usize) -> Bytes {
    format!("{}tx-{i}", (i * 7 + 3) % 10).into_bytes()
}
pub fn outsider() -> Bytes {
    b"4tx-outsider".to_vec()
}

impl World {
    pub fn new(leaves: Vec<Bytes>) -> Result<World, String> {
        let nodes: Vec<MKTreeNode> = leaves.iter().map(|l| MKTreeNode::new(l.clone())).collect();
        // the real code may panic after a change: that is a failure to build, not a harness crash
        let (tree, root) = catch(|| -> Result<_, String> {
            let tree = MKTree::<MKTreeStoreInMemory>::new(&nodes).map_err(|e| format!("MKTree::new: {e}"))?;
            let root = tree.compute_root().map_err(|e| format!("compute_root: {e}"))?.to_vec();
            Ok((tree, root))
        })
        .map_err(|p| format!("panic: {p}"))??;
        let expr = root_expr(&leaves);
        let mut inner = vec![];
        inner_hashes(&expr, &mut inner);
        let reference_ok = expr.hash == root;
        Ok(World { leaves, tree, root, expr, inner, reference_ok })
    }
    pub fn members(n: usize) -> Result<World, String> {
        World::new((0..n).map(leaf_name).collect())
    }
    pub fn n(&self) -> usize {
        self.leaves.len()
    }
    pub fn index_of(&self, item: &[u8]) -> Option<usize> {
        self.leaves.iter().position(|l| l == item)
    }
    pub fn honest(&self, idx: &[usize]) -> Result<MKProof, String> {
        let sel: Vec<MKTreeNode> = idx.iter().map(|&i| MKTreeNode::new(self.leaves[i].clone())).collect();
        catch(|| self.tree.compute_proof(&sel).map_err(|e| format!("{e}"))).map_err(|p| format!("panic: {p}"))?
    }
}

#[derive(Clone, Copy, PartialEq, Eq, Debug)]
pub enum Verdict {
    /// verifies and carries the committed root
    Accepted,
    /// verifies, but for another root (a verifier comparing roots turns it down)
    OtherRoot,
    Rejected,
    Panicked,
    Undecodable,
}

/// classify an item that a verified proof vouches for but that is not a committed leaf
pub fn false_item_key(prefix: &str, inner: &[Bytes], item: &[u8]) -> String {
    if inner.iter().any(|h| h == item) {
        format!("C09/{prefix}:inner-node-accepted-as-leaf")
    } else {
        format!("C09/{prefix}:non-member-accepted")
    }
}

/// probes handed to the real `contains`
pub fn probes(w: &World) -> Vec<Bytes> {
    let mut p = w.leaves.clone();
    p.push(outsider());
    p.extend(w.inner.iter().cloned());
    p.push(vec![]);
    p
}

pub fn eval_proof<'a>(rep: &mut Report, w: &World, p: &PProof, label: impl Into<Label<'a>>, count_distinct: bool) -> Verdict {
    let label: Label = label.into();
    rep.eval();
    let Some(real) = p.to_real() else {
        rep.outcome("mkproof:undecodable");
        return Verdict::Undecodable;
    };
    let verdict = match catch(|| real.verify().is_ok()) {
        Err(_) => Verdict::Panicked,
        Ok(false) => Verdict::Rejected,
        Ok(true) => {
            if real.root().to_vec() == w.root {
                Verdict::Accepted
            } else {
                Verdict::OtherRoot
            }
        }
    };
    match verdict {
        Verdict::Accepted => rep.outcome("mkproof:accepted"),
        Verdict::OtherRoot => rep.outcome("mkproof:verifies-for-another-root(=not accepted)"),
        Verdict::Rejected => {
            if !label.is_honest() && w.n() == 5 && rep.extras.get("mkproof_sample_rejected_mutant").is_none() {
                rep.extra("mkproof_sample_rejected_mutant", json!({"made_by": label.to_string(), "n": w.n(), "proof": p.to_json()}));
            }
            rep.outcome("mkproof:rejected")
        }
        Verdict::Panicked => {
            rep.add_extra("panics_observed", 1);
            rep.outcome("mkproof:panicked(=not accepted)")
        }
        Verdict::Undecodable => {}
    }
    if count_distinct || verdict == Verdict::Accepted {
        rep.nontrivial(&("mk", &w.leaves, p));
    }
    if verdict != Verdict::Accepted {
        return verdict;
    }
    let replay = || json!({"part": "mkproof", "committed": w.leaves.iter().map(hex::encode).collect::<Vec<_>>(), "proof": p.to_json(), "made_by": label.to_string()});
    let committed_hex = || w.leaves.iter().map(|l| String::from_utf8_lossy(l).to_string()).collect::<Vec<_>>();
    let mut all_true = true;
    // (a) every (position, item) the proof states
    for (j, (pos, item)) in p.inner_leaves.iter().enumerate() {
        let idx = w.index_of(&item.hash);
        let truthful = idx.map(|i| *pos == leaf_pos(i as u64)).unwrap_or(false);
        if truthful {
            continue;
        }
        all_true = false;
        // an entry that repeats the position of an earlier entry is a root cause of its own
        // … but only when the earlier entry carries a DIFFERENT leaf: then one of the two is left
        // unverified. An identical repetition leaves nothing unverified; such an entry is judged by
        // whatever else is false about it.
        let shadowed = p.inner_leaves[..j].iter().any(|(q, it)| q == pos && it != item);
        let (key, what) = if shadowed {
            (
                "C09/mkproof:entry-repeating-a-position-is-not-verified".to_string(),
                format!("item {} is stated at position {pos}, a position at which an earlier entry of the proof states a different leaf", hex::encode(&item.hash)),
            )
        } else {
            match idx {
                None => (
                    false_item_key("mkproof", &w.inner, &item.hash),
                    format!("it vouches for item {} (at position {pos}) which is not a committed leaf", hex::encode(&item.hash)),
                ),
                Some(i) => (
                    "C09/mkproof:leaf-at-wrong-position".to_string(),
                    format!("it states committed leaf #{i} at tree position {pos}; it is committed at position {}", leaf_pos(i as u64)),
                ),
            }
        };
        violation(rep, &key, || {
            (format!("MKProof verifies against the committed root although {what}; committed leaves {:?}; proof made by: {label}", committed_hex()), replay())
        });
    }
    // (b) what the real accessors tell a caller (items the proof states are judged under (a))
    let stated = |x: &[u8]| p.inner_leaves.iter().any(|(_, it)| it.hash == x);
    for pr in probes(w) {
        let said = catch(|| real.contains(&[MKTreeNode::new(pr.clone())]).is_ok()).unwrap_or(false);
        if said && w.index_of(&pr).is_none() && !stated(&pr) {
            all_true = false;
            rep.violation(
                "C09/mkproof:contains-accepts-item-the-proof-does-not-state",
                format!("MKProof verifies against the committed root and contains({}) succeeds although the proof does not state that item and it is not a committed leaf; proof made by: {label}", hex::encode(&pr)),
                replay(),
            );
        }
    }
    for l in real.leaves() {
        if w.index_of(&l).is_none() && !stated(&l) {
            all_true = false;
            rep.violation(
                "C09/mkproof:leaves-lists-item-the-proof-does-not-state",
                format!("MKProof verifies against the committed root and leaves() lists {} which the proof does not state and which is not a committed leaf; proof made by: {label}", hex::encode(&*l)),
                replay(),
            );
        }
    }
    if all_true && !label.is_honest() && w.n() == 5 && rep.extras.get("mkproof_sample_accepted_mutant").is_none() {
        rep.extra("mkproof_sample_accepted_mutant", json!({"made_by": label.to_string(), "n": w.n(), "proof": p.to_json()}));
    }
    verdict
}

fn subset_indices(mask: u32, n: usize) -> Vec<usize> {
    (0..n).filter(|i| mask >> i & 1 == 1).collect()
}

/// completeness: every non-empty subset of every size, asked for in ascending and in descending order
pub fn honest_sweep(n: usize) -> Report {
    let mut rep = Report::new("exploration", "");
    let w = match World::members(n) {
        Ok(w) => w,
        Err(e) => {
            // completeness is part of C09: a list that cannot be committed has no verifying proof
            rep.eval();
            violation(&mut rep, "C09/mkproof:honest-proof-rejected", || {
                (format!("a tree of {n} leaves cannot be built or its root computed: {e}"), json!({"part": "mkproof-honest", "n": n}))
            });
            return rep;
        }
    };
    if !w.reference_ok {
        // recorded, not fatal: only the designed same-root forgeries need the reference structure
        rep.add_extra("mktree_sizes_where_reference_structure_differs", 1);
    }
    for mask in 1u32..(1u32 << n) {
        let idx = subset_indices(mask, n);
        let mut orders = vec![idx.clone()];
        if idx.len() > 1 {
            let mut r = idx.clone();
            r.reverse();
            orders.push(r);
        }
        for order in orders {
            let bad = |rep: &mut Report, key: &str, what: String| {
                rep.violation(key, what, json!({"part": "mkproof-honest", "n": n, "indices": order}));
            };
            let real = match catch(|| w.honest(&order)) {
                Ok(Ok(p)) => p,
                other => {
                    rep.eval();
                    bad(&mut rep, "C09/mkproof:proof-generation-fails", format!("compute_proof fails for n={n} leaves {order:?}: {:?}", other.map(|r| r.err())));
                    continue;
                }
            };
            let p = PProof::from_real(&real);
            let v = eval_proof(&mut rep, &w, &p, "honest", true);
            if v != Verdict::Accepted {
                bad(&mut rep, "C09/mkproof:honest-proof-rejected", format!("the proof generated for n={n} leaves {order:?} is not accepted ({v:?})"));
            }
            let want: Vec<MKTreeNode> = order.iter().map(|&i| MKTreeNode::new(w.leaves[i].clone())).collect();
            if real.contains(&want).is_err() {
                bad(&mut rep, "C09/mkproof:honest-proof-does-not-contain-its-leaves", format!("contains() fails on the leaves the proof was made for (n={n}, {order:?})"));
            }
            let mut got: Vec<Bytes> = real.leaves().iter().map(|l| l.to_vec()).collect();
            let mut exp: Vec<Bytes> = order.iter().map(|&i| w.leaves[i].clone()).collect();
            got.sort();
            exp.sort();
            if got != exp {
                bad(&mut rep, "C09/mkproof:honest-proof-lists-other-leaves", format!("leaves() differs from the requested leaves (n={n}, {order:?})"));
            }
            // JSON wire form too
            match serde_json::to_string(&real).ok().and_then(|s| serde_json::from_str::<MKProof>(&s).ok()) {
                Some(back) if back == real => {}
                _ => bad(&mut rep, "C09/mkproof:json-round-trip-changes-proof", format!("proof for n={n} {order:?} does not survive JSON")),
            }
            if n == 5 && order == [1, 3] {
                rep.sample(json!({"part": "mkproof", "kind": "honest proof", "n": n, "leaves": order, "proof": p.to_json()}));
            }
        }
    }
    rep
}

pub struct Material {
    pub item_alphabet: Vec<(String, Bytes)>,
    pub pos_alphabet: Vec<u64>,
    pub size_alphabet: Vec<u64>,
}

pub fn material(w: &World) -> Material {
    let mut item_alphabet = vec![];
    for (i, l) in w.leaves.iter().enumerate() {
        item_alphabet.push((format!("member{i}"), l.clone()));
    }
    item_alphabet.push(("outsider".into(), outsider()));
    for (i, h) in w.inner.iter().enumerate() {
        item_alphabet.push((format!("inner{i}"), h.clone()));
    }
    item_alphabet.push(("hash-of-outsider-pair".into(), h2(&outsider(), &outsider())));
    let sz = mmr_size(w.n() as u64);
    let mut pos_alphabet: Vec<u64> = (0..=sz + 3).collect();
    pos_alphabet.push(u64::MAX);
    let mut size_alphabet: Vec<u64> = (0..=sz + 4).collect();
    size_alphabet.extend([2 * sz + 1, u64::MAX >> 1, u64::MAX]);
    Material { item_alphabet, pos_alphabet, size_alphabet }
}

/// every single structural mutation of a proof
pub fn mutations(c: &PProof, m: &Material) -> Vec<(String, PProof)> {
    let mut out: Vec<(String, PProof)> = vec![];
    let mut push = |label: String, p: PProof| {
        if p != *c {
            out.push((label, p));
        }
    };
    for j in 0..c.inner_leaves.len() {
        for (name, it) in &m.item_alphabet {
            let mut x = c.clone();
            x.inner_leaves[j].1 = node(it);
            push(format!("leaf[{j}].item:={name}"), x);
        }
        for &p in &m.pos_alphabet {
            let mut x = c.clone();
            x.inner_leaves[j].0 = p;
            push(format!("leaf[{j}].position:={p}"), x);
        }
        let mut x = c.clone();
        x.inner_leaves.remove(j);
        push(format!("leaf[{j}] dropped"), x);
        let mut x = c.clone();
        x.inner_leaves.insert(j, c.inner_leaves[j].clone());
        push(format!("leaf[{j}] duplicated"), x);
        if j + 1 < c.inner_leaves.len() {
            let mut x = c.clone();
            x.inner_leaves.swap(j, j + 1);
            push(format!("leaves[{j},{}] swapped", j + 1), x);
            let mut x = c.clone();
            let (a, b) = (c.inner_leaves[j].0, c.inner_leaves[j + 1].0);
            x.inner_leaves[j].0 = b;
            x.inner_leaves[j + 1].0 = a;
            push(format!("positions of leaves[{j},{}] swapped", j + 1), x);
        }
    }
    // a further claim
    for (name, it) in &m.item_alphabet {
        for &p in &m.pos_alphabet {
            let mut x = c.clone();
            x.inner_leaves.push((p, node(it)));
            push(format!("leaf appended:=({p},{name})"), x);
        }
    }
    for &s in &m.size_alphabet {
        let mut x = c.clone();
        x.inner_proof_size = s;
        push(format!("size:={s}"), x);
    }
    for (name, it) in &m.item_alphabet {
        let mut x = c.clone();
        x.inner_root = node(it);
        push(format!("root:={name}"), x);
    }
    for v in 0..c.inner_proof_items.len() {
        let mut x = c.clone();
        x.inner_proof_items.remove(v);
        push(format!("item[{v}] dropped"), x);
        let mut x = c.clone();
        x.inner_proof_items.insert(v, c.inner_proof_items[v].clone());
        push(format!("item[{v}] duplicated"), x);
        if v + 1 < c.inner_proof_items.len() {
            let mut x = c.clone();
            x.inner_proof_items.swap(v, v + 1);
            push(format!("items[{v},{}] swapped", v + 1), x);
        }
        for (name, it) in &m.item_alphabet {
            let mut x = c.clone();
            x.inner_proof_items[v] = node(it);
            push(format!("item[{v}]:={name}"), x);
        }
    }
    for (name, it) in &m.item_alphabet {
        let mut x = c.clone();
        x.inner_proof_items.push(node(it));
        push(format!("item appended:={name}"), x);
        let mut x = c.clone();
        x.inner_proof_items.insert(0, node(it));
        push(format!("item prepended:={name}"), x);
    }
    out
}

pub fn mutation_sweep(n: usize, mask: u32, depth: usize, chunk: usize, chunks: usize) -> Report {
    let mut rep = Report::new("exploration", "");
    let Ok(w) = World::members(n) else {
        return rep; // reported by the honest sweep as a completeness violation
    };
    let m = material(&w);
    let idx = subset_indices(mask, n);
    let Ok(real) = w.honest(&idx) else {
        return rep; // reported by the honest sweep
    };
    let honest = PProof::from_real(&real);
    let singles = mutations(&honest, &m);
    for (i, (label, p)) in singles.iter().enumerate() {
        if i % chunks != chunk {
            continue;
        }
        rep.add_extra("mkproof_single_mutants", 1);
        eval_proof(&mut rep, &w, p, label, true);
        if depth >= 2 {
            let pairs = mutations(p, &m);
            rep.add_extra("mkproof_paired_mutants", pairs.len() as u64);
            for (label2, p2) in &pairs {
                eval_proof(&mut rep, &w, p2, Label(label, label2), false);
            }
        }
    }
    rep
}

/// Designed forgeries: honest proofs of *another* list whose tree has the same root — the lists
/// obtained by cutting the committed tree's hash expression at inner nodes (any frontier).
pub fn frontier_sweep(n: usize) -> Report {
    let mut rep = Report::new("exploration", "");
    let Ok(w) = World::members(n) else {
        return rep; // reported by the honest sweep as a completeness violation
    };
    if !w.reference_ok {
        // the frontiers are cuts of the harness' reference expression: without it there is nothing to cut
        rep.add_extra("designed_forgery_families_skipped_without_reference_structure", 1);
        return rep;
    }
    let mut fs = frontiers(&w.expr);
    fs.sort();
    fs.dedup();
    for f in fs {
        if f == w.leaves || f.len() > 12 {
            continue;
        }
        rep.add_extra("mkproof_frontiers_tried", 1);
        let Ok(other) = World::new(f.clone()) else { continue };
        if other.root != w.root {
            continue;
        }
        rep.add_extra("mkproof_frontiers_with_same_root", 1);
        for mask in 1u32..(1u32 << f.len()) {
            let idx = subset_indices(mask, f.len());
            let Ok(real) = other.honest(&idx) else { continue };
            let p = PProof::from_real(&real);
            let made = format!("honest proof of the {}-leaf list obtained by cutting the committed tree at inner nodes (same root)", f.len());
            eval_proof(&mut rep, &w, &p, &made, true);
        }
    }
    rep
}

/// honest proofs of list A against the root of a neighbouring list B
pub fn cross_root_sweep(n: usize) -> Report {
    let mut rep = Report::new("exploration", "");
    let Ok(a) = World::members(n) else { return rep };
    let mut neighbours: Vec<Vec<Bytes>> = vec![];
    for j in 0..n {
        let mut b = a.leaves.clone();
        b[j] = outsider();
        neighbours.push(b);
        if j + 1 < n {
            let mut b = a.leaves.clone();
            b.swap(j, j + 1);
            neighbours.push(b);
        }
    }
    let mut b = a.leaves.clone();
    b.push(leaf_name(n));
    neighbours.push(b);
    if n > 1 {
        let mut b = a.leaves.clone();
        b.pop();
        neighbours.push(b);
    }
    for b in neighbours {
        let Ok(wb) = World::new(b) else { continue };
        for mask in 1u32..(1u32 << n) {
            let idx = subset_indices(mask, n);
            let Ok(real) = a.honest(&idx) else { continue };
            let mut p = PProof::from_real(&real);
            eval_proof(&mut rep, &wb, &p, "honest proof of a neighbouring list", true);
            // … and with the root field rewritten to the neighbour's root
            p.inner_root = node(&wb.root);
            eval_proof(&mut rep, &wb, &p, "honest proof of a neighbouring list, root field rewritten", true);
        }
    }
    rep
}

pub fn replay(rep: &mut Report, v: &Value) {
    if v["part"] == "mkproof-large" {
        rep.merge(large_size_sweep(v["n"].as_u64().unwrap_or(17) as usize, false));
        return;
    }
    if v["part"] == "mkproof-honest" {
        rep.merge(honest_sweep(v["n"].as_u64().unwrap_or(1) as usize));
        return;
    }
    if v["part"] == "mktree-root" {
        rep.merge(root_commitment_sweep(v["n"].as_u64().unwrap_or(1) as usize));
        return;
    }
    let leaves: Vec<Bytes> = v["committed"].as_array().map(|a| a.iter().map(|s| hex::decode(s.as_str().unwrap_or("")).expect("hex")).collect()).unwrap_or_default();
    let w = World::new(leaves).expect("world");
    let p = PProof::from_json(&v["proof"]);
    let verdict = eval_proof(rep, &w, &p, v["made_by"].as_str().unwrap_or("replay"), true);
    eprintln!("replay (mkproof): verdict {verdict:?}");
}

/// larger sizes: selected subsets (same selection as for the STM tree), honest proof plus its single mutations
pub fn large_size_sweep(n: usize, mutate: bool) -> Report {
    let mut rep = Report::new("exploration", "");
    let w = match World::members(n) {
        Ok(w) => w,
        Err(e) => {
            rep.eval();
            violation(&mut rep, "C09/mkproof:honest-proof-rejected", || {
                (format!("a tree of {n} leaves cannot be built or its root computed: {e}"), json!({"part": "mkproof-large", "n": n}))
            });
            return rep;
        }
    };
    if !w.reference_ok {
        rep.add_extra("mktree_sizes_where_reference_structure_differs", 1);
    }
    let m = material(&w);
    for idx in crate::c09_stm::selected_subsets(n) {
        let Ok(real) = w.honest(&idx) else {
            rep.eval();
            violation(&mut rep, "C09/mkproof:proof-generation-fails", || (format!("compute_proof fails for n={n} leaves {idx:?}"), json!({"part": "mkproof-large", "n": n})));
            continue;
        };
        let p = PProof::from_real(&real);
        let v = eval_proof(&mut rep, &w, &p, "honest", true);
        if v != Verdict::Accepted {
            violation(&mut rep, "C09/mkproof:honest-proof-rejected", || {
                (format!("the proof generated for n={n} leaves {idx:?} is not accepted ({v:?})"), json!({"part": "mkproof-large", "n": n}))
            });
        }
        if mutate && idx.len() <= 2 {
            for (label, c) in mutations(&p, &m) {
                eval_proof(&mut rep, &w, &c, &label, true);
            }
        }
    }
    rep
}

/// Structure-independent soundness, through the real API only: the root commits to every leaf.
/// For every position j the tree over L and the tree over L' (= L with leaf j replaced by a value that
/// occurs nowhere else) must have different roots; if they are equal, the proof the real code makes for
/// L'_j from tree(L') is checked against root(L) and, when it verifies, reported.
pub fn root_commitment_sweep(n: usize) -> Report {
    let mut rep = Report::new("exploration", "");
    let Ok(w) = World::members(n) else {
        return rep; // reported by the honest / large-size sweep
    };
    for j in 0..n {
        rep.eval();
        rep.nontrivial(&("mk-root-commits", n, j));
        let mut l2 = w.leaves.clone();
        l2[j] = format!("6tx-never-used-{j}").into_bytes();
        let Ok(w2) = World::new(l2.clone()) else {
            rep.outcome("mktree:root-commitment:variant-cannot-be-built");
            continue;
        };
        if w2.root != w.root {
            rep.outcome("mktree:root-differs-when-a-leaf-is-replaced");
            continue;
        }
        rep.outcome("mktree:root-unchanged-when-a-leaf-is-replaced");
        // confirm: the foreign leaf is provable against the committed root
        let confirmed = w2
            .honest(&[j])
            .ok()
            .map(|p| {
                catch(|| p.verify().is_ok() && p.root().to_vec() == w.root && p.contains(&[MKTreeNode::new(l2[j].clone())]).is_ok()).unwrap_or(false)
            })
            .unwrap_or(false);
        if confirmed {
            violation(&mut rep, "C09/mktree:root-does-not-commit-to-leaf", || {
                (
                    format!(
                        "MKTree of {n} leaves: replacing leaf #{j} by {:?} leaves the root unchanged, and the proof generated for the replacement verifies against the root of the original list, which does not contain it",
                        String::from_utf8_lossy(&l2[j])
                    ),
                    json!({"part": "mktree-root", "n": n, "j": j, "leaves": w.leaves.iter().map(hex::encode).collect::<Vec<_>>(), "leaves_replaced": l2.iter().map(hex::encode).collect::<Vec<_>>()}),
                )
            });
        } else {
            rep.outcome("mktree:root-unchanged-but-replacement-not-provable");
        }
    }
    rep
}
