//! mc-merkle: serves C09 (see /verif/DESIGN.md §4)
mod c09;

fn main() {
    let ctx = mc_core::Ctx::from_args();
    mc_core::quiet_panics();
    match ctx.property.as_str() {
        "C09" => c09::run(&ctx),
        other => {
            eprintln!("mc-merkle does not serve {other}");
            std::process::exit(2);
        }
    }
}
