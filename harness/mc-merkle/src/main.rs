//! mc-merkle: serves C09 (see /verif/DESIGN.md §4)
#![allow(unexpected_cfgs)]

mod c09;
mod c09_agg;
mod c09_map;
mod c09_mk;
mod c09_stm;
mod c09_util;

// ---- source inclusion of the STM signer-registration Merkle tree -------------------------------
// `mithril-stm` keeps `membership_commitment` private, so the working-tree files are compiled into
// this crate as they are.  They refer to four names through `crate::`; the shim below supplies them
// from the public API of the real crate (and `codec.rs` is itself included from the working tree).
#[allow(unused_imports)]
pub(crate) use mithril_stm::{Stake, StmResult, VerificationKeyForConcatenation};

#[allow(dead_code, unused_imports)]
#[path = "/repo/mithril-stm/src/codec.rs"]
pub(crate) mod codec;

#[allow(dead_code, unused_imports, clippy::all)]
#[path = "/repo/mithril-stm/src/membership_commitment/merkle_tree/mod.rs"]
pub(crate) mod stm_merkle_tree;

fn main() {
    let ctx = mc_core::Ctx::from_args();
    mc_core::quiet_panics();
    if std::env::var("C09_DEBUG_PANICS").is_ok() {
        std::panic::set_hook(Box::new(|info| {
            let loc = info.location().map(|l| format!("{}:{}", l.file(), l.line())).unwrap_or_default();
            if loc.contains("mc-merkle/src") || loc.contains("mc-core") {
                eprintln!("harness panic at {loc}: {info}");
            }
        }));
    }
    match ctx.property.as_str() {
        "C09" => c09::run(&ctx),
        other => {
            eprintln!("mc-merkle does not serve {other}");
            std::process::exit(2);
        }
    }
}
