//! small helpers shared by the C09 parts

use mc_core::Report;
use serde_json::Value;
use std::fmt;

/// how a case was made: one or two mutation labels, formatted only when needed
#[derive(Clone, Copy)]
pub struct Label<'a>(pub &'a str, pub &'a str);

impl Label<'_> {
    pub fn is_honest(&self) -> bool {
        self.0 == "honest" && self.1.is_empty()
    }
}

impl fmt::Display for Label<'_> {
    fn fmt(&self, f: &mut fmt::Formatter<'_>) -> fmt::Result {
        if self.1.is_empty() { write!(f, "{}", self.0) } else { write!(f, "{} ; {}", self.0, self.1) }
    }
}

impl<'a> From<&'a str> for Label<'a> {
    fn from(s: &'a str) -> Self {
        Label(s, "")
    }
}
impl<'a> From<&'a String> for Label<'a> {
    fn from(s: &'a String) -> Self {
        Label(s.as_str(), "")
    }
}

/// record a violation; text and replay data are only built for the occurrences that are kept
pub fn violation(rep: &mut Report, key: &str, make: impl FnOnce() -> (String, Value)) {
    let seen = rep.violation_counts.get(key).copied().unwrap_or(0);
    if seen >= 6 {
        *rep.violation_counts.get_mut(key).unwrap() += 1;
    } else {
        let (what, replay) = make();
        rep.violation(key, what, replay);
    }
}
