//! C09, part 1b — the registration tree as it is actually used: through the public
//! registration → signer → clerk → `AggregateSignature::verify` path, with the real 104-byte
//! (verification key, stake) leaves. Proof components are mutated through the JSON form.
//!
//! Oracle: honest aggregates verify; an aggregate that verifies against the aggregate verification
//! key of a registration pairs every signature with a (key, stake) that is registered, at the
//! position the batch path states.

use blake2::{Blake2b, Digest, digest::consts::U32};
use crate::c09_util::Label;
use mc_core::{Report, catch};
use mithril_stm::{
    AggregateSignature, AggregateSignatureType, AggregateVerificationKey, AncillaryGenesisData, AncillaryProofInput, Clerk, Initializer,
    KeyRegistration, MithrilMembershipDigest, Parameters, Signer, SingleSignature,
};
use rand_chacha::ChaCha20Rng;
use rand_core::{RngCore, SeedableRng};
use serde_json::{Value, json};

type D = MithrilMembershipDigest;
const MSG: &[u8] = b"C09 message";

pub struct World {
    pub n: usize,
    /// (verification key bytes, stake) in tree order
    pub registered: Vec<(Vec<u8>, u64)>,
    pub closed: mithril_stm::ClosedKeyRegistration,
    pub avk: AggregateVerificationKey<D>,
    /// each registered party's signature over msg‖root, as JSON (indexes to be filled in)
    pub sig_json: Vec<Value>,
    /// an unregistered key pair with a valid BLS signature over msg‖root (made with blst directly)
    pub outsider_vk: Vec<u8>,
    pub outsider_sigma: Vec<u8>,
    /// hashes usable as path nodes: every value seen in an honest batch path of this registration
    pub value_alphabet: Vec<Value>,
    /// observations about the set-up that are recorded in the evidence instead of stopping the run
    pub notes: Vec<&'static str>,
}

/// why a registration could not be set up
pub enum SetupError {
    /// a call into the code under test failed or panicked: a completeness violation
    RealCode(String),
    /// serde of real values failed on the harness side: no verdict possible
    Harness(String),
}

fn bytes_of(v: &Value) -> Vec<u8> {
    v.as_array().map(|a| a.iter().map(|b| b.as_u64().unwrap_or(0) as u8).collect()).unwrap_or_default()
}
fn to_jbytes(b: &[u8]) -> Value {
    Value::Array(b.iter().map(|x| json!(*x)).collect())
}

fn params(n: usize, k: usize) -> Parameters {
    Parameters { m: n as u64, k: k as u64, phi_f: 1.0 }
}

impl World {
    pub fn new(n: usize) -> Result<World, SetupError> {
        match catch(|| World::build(n)) {
            Ok(r) => r,
            Err(p) => Err(SetupError::RealCode(format!("panic: {p} at {}", mc_core::last_panic_location()))),
        }
    }

    fn build(n: usize) -> Result<World, SetupError> {
        use SetupError::{Harness, RealCode};
        let mut notes: Vec<&'static str> = vec![];
        let p = params(n, 1);
        let mut rng = ChaCha20Rng::from_seed([0xC9u8; 32]);
        // distinct stakes: the tree orders leaves by stake first
        let inits: Vec<Initializer> = (0..n).map(|i| Initializer::new(p, 10 + i as u64, &mut rng)).collect();
        let mut reg = KeyRegistration::initialize();
        for i in &inits {
            reg.register(i.stake, &i.get_verification_key_proof_of_possession_for_concatenation()).map_err(|e| RealCode(format!("register: {e}")))?;
        }
        let closed = reg.close_registration(&p).map_err(|e| RealCode(format!("close: {e}")))?;
        let mut signers: Vec<Signer<D>> = vec![];
        for i in inits {
            signers.push(i.try_create_signer::<D>(&closed).map_err(|e| RealCode(format!("signer: {e}")))?);
        }
        let clerk = Clerk::<D>::new_clerk_from_closed_key_registration(&p, &closed);
        let avk = clerk.compute_aggregate_verification_key();
        // tree position of every party: as the signers report it; it is expected to follow the stake
        // order (independent expectation), a different but consistent order is only noted
        let mut by_position: Vec<Option<((Vec<u8>, u64), Value)>> = vec![None; n];
        for (i, s) in signers.iter().enumerate() {
            let sig: SingleSignature = s.sign(MSG).ok_or_else(|| RealCode("a signer lost every lottery with phi_f = 1".into()))?;
            let sj = serde_json::to_value(&sig).map_err(|e| Harness(e.to_string()))?;
            let pos = sj["signer_index"].as_u64().unwrap_or(u64::MAX) as usize;
            if pos != i && !notes.contains(&"tree positions do not follow the stake order; the positions the signers report are used") {
                notes.push("tree positions do not follow the stake order; the positions the signers report are used");
            }
            let vk = serde_json::to_value(s.get_bls_verification_key()).map_err(|e| Harness(e.to_string()))?;
            match by_position.get_mut(pos) {
                Some(slot @ None) => *slot = Some(((bytes_of(&vk), s.get_stake()), sj)),
                _ => return Err(RealCode(format!("the signers report tree positions that are not a permutation of 0..{n} (party {i} reports {pos})"))),
            }
        }
        let mut registered = vec![];
        let mut sig_json = vec![];
        for slot in by_position {
            let (party, sj) = slot.ok_or_else(|| RealCode("a tree position is reported by no signer".to_string()))?;
            registered.push(party);
            sig_json.push(sj);
        }
        // the outsider signs msg ‖ root with a key made by blst itself
        let avk_json = serde_json::to_value(avk.to_concatenation_aggregate_verification_key()).map_err(|e| Harness(e.to_string()))?;
        let root = bytes_of(&avk_json["mt_commitment"]["root"]);
        if root.len() != 32 || avk_json["mt_commitment"]["nr_leaves"].as_u64() != Some(n as u64) {
            // the outsider's signature is then over other bytes than the verifier uses and cannot pass the
            // BLS check; everything else is unaffected
            notes.push("aggregate verification key does not serialise as expected: the unregistered key's signature may not match msg‖root");
        }
        let mut msgp = MSG.to_vec();
        msgp.extend_from_slice(&root);
        let mut ikm = [0u8; 32];
        rng.fill_bytes(&mut ikm);
        let sk = blst::min_sig::SecretKey::key_gen(&ikm, &[]).map_err(|e| Harness(format!("{e:?}")))?;
        let outsider_vk = sk.sk_to_pk().to_bytes().to_vec();
        let outsider_sigma = sk.sign(&msgp, &[], &[]).to_bytes().to_vec();
        let mut w = World { n, registered, closed, avk, sig_json, outsider_vk, outsider_sigma, value_alphabet: vec![], notes };
        // path-node alphabet
        let mut vals: Vec<Value> = vec![];
        for mask in 1u32..(1u32 << n) {
            let subset: Vec<usize> = (0..n).filter(|i| mask >> i & 1 == 1).collect();
            if let Ok(a) = w.honest(&subset) {
                for v in a["batch_proof"]["values"].as_array().cloned().unwrap_or_default() {
                    if !vals.contains(&v) {
                        vals.push(v);
                    }
                }
            }
        }
        vals.push(to_jbytes(&Blake2b::<U32>::digest([0u8])));
        vals.push(to_jbytes(&root));
        w.value_alphabet = vals;
        Ok(w)
    }

    /// party p's signature entry claiming the lottery indexes `idx`
    pub fn single(&self, p: usize, idx: &[usize]) -> Value {
        let mut s = self.sig_json[p].clone();
        s["indexes"] = json!(idx);
        s
    }

    /// the aggregate the real clerk builds when exactly the parties of `subset` sign (party j holds lottery index j)
    pub fn honest(&self, subset: &[usize]) -> Result<Value, String> {
        catch(|| self.honest_inner(subset)).map_err(|p| format!("panic: {p}"))?
    }

    fn honest_inner(&self, subset: &[usize]) -> Result<Value, String> {
        let sigs: Vec<SingleSignature> = subset
            .iter()
            .map(|&p| serde_json::from_value(self.single(p, &[p])).map_err(|e| format!("single signature from JSON: {e}")))
            .collect::<Result<_, _>>()?;
        let pr = params(self.n, subset.len());
        let clerk = Clerk::<D>::new_clerk_from_closed_key_registration(&pr, &self.closed);
        let (agg, _) = clerk
            .aggregate_signatures_with_type(&sigs, MSG, AggregateSignatureType::Concatenation, AncillaryProofInput::new(None, AncillaryGenesisData::new()))
            .map_err(|e| format!("aggregation: {e:#}"))?;
        serde_json::to_value(&agg).map_err(|e| e.to_string())
    }
}

#[derive(Clone, Copy, PartialEq, Eq, Debug)]
pub enum Verdict {
    Accepted,
    Rejected,
    Panicked,
    Undecodable,
}

pub fn eval<'a>(rep: &mut Report, w: &World, k: usize, agg: &Value, label: impl Into<Label<'a>>) -> Verdict {
    let label: Label = label.into();
    rep.eval();
    let Ok(real) = serde_json::from_value::<AggregateSignature<D>>(agg.clone()) else {
        rep.outcome("stm-aggregate:undecodable");
        return Verdict::Undecodable;
    };
    let pr = params(w.n, k);
    let verdict = match catch(|| real.verify(MSG, &w.avk, &pr, None, None).is_ok()) {
        Ok(true) => Verdict::Accepted,
        Ok(false) => Verdict::Rejected,
        Err(_) => Verdict::Panicked,
    };
    rep.nontrivial(&("agg", w.n, k, agg.to_string()));
    match verdict {
        Verdict::Accepted => rep.outcome("stm-aggregate:accepted"),
        Verdict::Rejected => rep.outcome("stm-aggregate:rejected"),
        Verdict::Panicked => {
            rep.add_extra("panics_observed", 1);
            rep.outcome("stm-aggregate:panicked(=not accepted)")
        }
        Verdict::Undecodable => {}
    }
    if verdict != Verdict::Accepted {
        return verdict;
    }
    let replay = || json!({"part": "stm-aggregate", "n": w.n, "k": k, "aggregate": agg, "made_by": label.to_string()});
    let sigs = agg["signatures"].as_array().cloned().unwrap_or_default();
    let indices: Vec<u64> = agg["batch_proof"]["indices"].as_array().map(|a| a.iter().map(|i| i.as_u64().unwrap_or(u64::MAX)).collect()).unwrap_or_default();
    if sigs.len() != indices.len() {
        rep.violation(
            "C09/stm-aggregate:signature-count-differs-from-position-count",
            format!("aggregate verifies with {} signatures and {} stated positions; made by: {label}", sigs.len(), indices.len()),
            replay(),
        );
        return verdict;
    }
    let mut all_true = true;
    for (entry, &idx) in sigs.iter().zip(&indices) {
        let party = (bytes_of(&entry[1][0]), entry[1][1].as_u64().unwrap_or(u64::MAX));
        let at = w.registered.get(idx as usize);
        if at == Some(&party) {
            continue;
        }
        all_true = false;
        let (key, what) = if idx as usize >= w.n {
            ("C09/stm-aggregate:position-beyond-registration-accepted", format!("a signature is tied to position {idx} of a registration of {} parties", w.n))
        } else if w.registered.contains(&party) {
            ("C09/stm-aggregate:party-at-wrong-position", format!("the party with stake {} is accepted at position {idx}, where another party is registered", party.1))
        } else {
            ("C09/stm-aggregate:unregistered-party-accepted", format!("a (key, stake={}) pair that is not registered is accepted at position {idx}", party.1))
        };
        rep.violation(key, format!("aggregate signature verifies although {what}; made by: {label}"), replay());
    }
    if all_true && !label.is_honest() && rep.extras.get("stm_aggregate_sample_accepted_mutant").is_none() {
        rep.extra("stm_aggregate_sample_accepted_mutant", json!({"made_by": label.to_string(), "n": w.n, "positions": indices}));
    }
    verdict
}

pub fn mutations(w: &World, subset: &[usize], honest: &Value) -> Vec<(String, Value)> {
    let mut out: Vec<(String, Value)> = vec![];
    let mut push = |label: String, v: Value| {
        if v != *honest {
            out.push((label, v));
        }
    };
    let sigs = honest["signatures"].as_array().cloned().unwrap_or_default();
    let indices = honest["batch_proof"]["indices"].as_array().cloned().unwrap_or_default();
    let values = honest["batch_proof"]["values"].as_array().cloned().unwrap_or_default();
    let p2 = w.n.next_power_of_two();
    // stated positions
    for j in 0..indices.len() {
        for i in (0..=(2 * p2 + 1) as u64).chain([u64::MAX - 1, u64::MAX]) {
            let mut x = honest.clone();
            x["batch_proof"]["indices"][j] = json!(i);
            push(format!("index[{j}]:={i}"), x);
        }
        let mut x = honest.clone();
        x["batch_proof"]["indices"].as_array_mut().unwrap().remove(j);
        push(format!("index[{j}] dropped"), x);
        let mut x = honest.clone();
        x["batch_proof"]["indices"].as_array_mut().unwrap().insert(j, indices[j].clone());
        push(format!("index[{j}] duplicated"), x);
        if j + 1 < indices.len() {
            let mut x = honest.clone();
            x["batch_proof"]["indices"].as_array_mut().unwrap().swap(j, j + 1);
            push(format!("indices[{j},{}] swapped", j + 1), x);
        }
    }
    for j in 0..sigs.len().saturating_sub(1) {
        let mut x = honest.clone();
        x["signatures"].as_array_mut().unwrap().swap(j, j + 1);
        push(format!("signatures[{j},{}] swapped", j + 1), x);
    }
    for j in 0..sigs.len() {
        let mut x = honest.clone();
        x["signatures"].as_array_mut().unwrap().remove(j);
        push(format!("signature[{j}] dropped"), x);
    }
    // path nodes
    for v in 0..values.len() {
        let mut x = honest.clone();
        x["batch_proof"]["values"].as_array_mut().unwrap().remove(v);
        push(format!("value[{v}] dropped"), x);
        let mut x = honest.clone();
        x["batch_proof"]["values"].as_array_mut().unwrap().insert(v, values[v].clone());
        push(format!("value[{v}] duplicated"), x);
        for (a, alt) in w.value_alphabet.iter().enumerate() {
            let mut x = honest.clone();
            x["batch_proof"]["values"][v] = alt.clone();
            push(format!("value[{v}]:=alphabet{a}"), x);
        }
    }
    for (a, alt) in w.value_alphabet.iter().enumerate() {
        let mut x = honest.clone();
        x["batch_proof"]["values"].as_array_mut().unwrap().push(alt.clone());
        push(format!("value appended:=alphabet{a}"), x);
        let mut x = honest.clone();
        x["batch_proof"]["values"].as_array_mut().unwrap().insert(0, alt.clone());
        push(format!("value prepended:=alphabet{a}"), x);
    }
    // the leaves: the (key, stake) a signature comes with
    for j in 0..sigs.len() {
        let lottery = sigs[j][0]["indexes"].clone();
        let lottery_idx: Vec<usize> = lottery.as_array().map(|a| a.iter().map(|i| i.as_u64().unwrap_or(0) as usize).collect()).unwrap_or_default();
        let stake = sigs[j][1][1].as_u64().unwrap_or(0);
        for s2 in [stake.wrapping_add(1), stake.wrapping_sub(1), 0, u64::MAX] {
            let mut x = honest.clone();
            x["signatures"][j][1][1] = json!(s2);
            push(format!("signature[{j}].stake:={s2}"), x);
        }
        for (q, (vk, st)) in w.registered.iter().enumerate() {
            let mut x = honest.clone();
            x["signatures"][j][1] = json!([to_jbytes(vk), st]);
            push(format!("signature[{j}].party:=registered party {q} (signature kept)"), x);
            // the other registered party's own valid signature in this slot (only if it is not in the aggregate already)
            if !subset.contains(&q) {
                let mut x = honest.clone();
                x["signatures"][j] = json!([w.single(q, &lottery_idx), [to_jbytes(vk), st]]);
                push(format!("signature[{j}] replaced by the valid signature of registered party {q}, batch path kept"), x);
            }
        }
        for st in [stake, w.registered.last().map(|r| r.1).unwrap_or(stake), 1u64 << 40] {
            let mut x = honest.clone();
            x["signatures"][j] = json!([
                {"sigma": to_jbytes(&w.outsider_sigma), "indexes": lottery, "signer_index": sigs[j][0]["signer_index"]},
                [to_jbytes(&w.outsider_vk), st]
            ]);
            push(format!("signature[{j}] replaced by an unregistered key's valid signature with stake {st}"), x);
        }
        let mut x = honest.clone();
        x["signatures"][j][1][0] = to_jbytes(&w.outsider_vk);
        push(format!("signature[{j}].key:=unregistered key (signature kept)"), x);
    }
    // a further signature without a further position
    {
        let used: Vec<u64> = sigs.iter().flat_map(|e| e[0]["indexes"].as_array().cloned().unwrap_or_default()).filter_map(|i| i.as_u64()).collect();
        if let Some(free) = (0..w.n as u64).find(|i| !used.contains(i)) {
            let entry = json!([
                {"sigma": to_jbytes(&w.outsider_sigma), "indexes": [free], "signer_index": 0},
                [to_jbytes(&w.outsider_vk), 1u64 << 40]
            ]);
            let mut x = honest.clone();
            x["signatures"].as_array_mut().unwrap().push(entry.clone());
            push("an unregistered key's valid signature appended, batch path kept".into(), x);
            let mut x = honest.clone();
            x["signatures"].as_array_mut().unwrap().insert(0, entry);
            push("an unregistered key's valid signature prepended, batch path kept".into(), x);
            for (q, (vk, st)) in w.registered.iter().enumerate() {
                if !subset.contains(&q) {
                    let mut x = honest.clone();
                    x["signatures"].as_array_mut().unwrap().push(json!([w.single(q, &[free as usize]), [to_jbytes(vk), st]]));
                    push(format!("the valid signature of registered party {q} appended, batch path kept"), x);
                }
            }
        }
    }
    // designed: an unregistered key's valid signature rides on a registered party's position —
    // the position is stated twice and every path node is supplied twice (one-signer aggregates)
    if sigs.len() == 1 && indices.len() == 1 {
        let used: Vec<u64> = sigs[0][0]["indexes"].as_array().map(|a| a.iter().filter_map(|i| i.as_u64()).collect()).unwrap_or_default();
        if let Some(free) = (0..w.n as u64).find(|i| !used.contains(i)) {
            for outsider_first in [false, true] {
                let mut x = honest.clone();
                let entry = json!([
                    {"sigma": to_jbytes(&w.outsider_sigma), "indexes": [free], "signer_index": sigs[0][0]["signer_index"]},
                    [to_jbytes(&w.outsider_vk), 1u64 << 40]
                ]);
                let sl = x["signatures"].as_array_mut().unwrap();
                if outsider_first { sl.insert(0, entry) } else { sl.push(entry) }
                x["batch_proof"]["indices"].as_array_mut().unwrap().push(indices[0].clone());
                let doubled: Vec<Value> = values.iter().flat_map(|v| [v.clone(), v.clone()]).collect();
                x["batch_proof"]["values"] = Value::Array(doubled);
                push(
                    format!("an unregistered key's valid signature added {} at the same stated position, every path node doubled", if outsider_first { "before" } else { "after" }),
                    x,
                );
            }
        }
    }
    out
}

pub fn sweep(n: usize, depth: usize) -> Report {
    let mut rep = Report::new("exploration", "");
    for mask in 1u32..(1u32 << n) {
        rep.merge(sweep_one(n, mask, depth));
    }
    rep
}

/// one signer subset of one registration size
pub fn sweep_one(n: usize, mask: u32, depth: usize) -> Report {
    let mut rep = Report::new("exploration", "");
    let w = match World::new(n) {
        Ok(w) => w,
        Err(SetupError::Harness(e)) => {
            rep.machinery_error(format!("cannot serialise the values of a registration of {n} parties: {e}"));
            return rep;
        }
        Err(SetupError::RealCode(e)) => {
            // completeness is part of C09: the registration tree is built while the signers are created
            rep.eval();
            rep.violation(
                "C09/stm-aggregate:honest-aggregate-rejected",
                format!("a registration of {n} honest parties cannot be set up, so no aggregate can be produced: {e}"),
                json!({"part": "stm-aggregate-honest", "n": n, "subset": []}),
            );
            return rep;
        }
    };
    for note in &w.notes {
        rep.extra(&format!("stm_aggregate_note: {note}"), json!(true));
    }
    {
        let subset: Vec<usize> = (0..n).filter(|i| mask >> i & 1 == 1).collect();
        let k = subset.len();
        let honest = match w.honest(&subset) {
            Ok(h) => h,
            Err(e) => {
                rep.eval();
                rep.violation(
                    "C09/stm-aggregate:aggregation-fails",
                    format!("the clerk cannot aggregate the signatures of parties {subset:?} of {n}: {e}"),
                    json!({"part": "stm-aggregate-honest", "n": n, "subset": subset}),
                );
                return rep;
            }
        };
        let v = eval(&mut rep, &w, k, &honest, "honest");
        if v != Verdict::Accepted {
            rep.violation(
                "C09/stm-aggregate:honest-aggregate-rejected",
                format!("the aggregate of parties {subset:?} of {n} does not verify ({v:?})"),
                json!({"part": "stm-aggregate-honest", "n": n, "subset": subset}),
            );
            return rep;
        }
        let stated: Vec<u64> = honest["batch_proof"]["indices"].as_array().map(|a| a.iter().filter_map(|i| i.as_u64()).collect()).unwrap_or_default();
        if stated != subset.iter().map(|&p| p as u64).collect::<Vec<_>>() {
            rep.violation(
                "C09/stm-aggregate:honest-aggregate-states-other-positions",
                format!("the aggregate of parties {subset:?} states positions {stated:?}"),
                json!({"part": "stm-aggregate-honest", "n": n, "subset": subset}),
            );
        }
        // bytes and back
        if let Ok(real) = serde_json::from_value::<AggregateSignature<D>>(honest.clone()) {
            let back = real.to_bytes().and_then(|b| AggregateSignature::<D>::from_bytes(&b));
            let same = back.ok().and_then(|b| serde_json::to_value(&b).ok()) == Some(honest.clone());
            if !same {
                rep.violation(
                    "C09/stm-aggregate:byte-round-trip-changes-aggregate",
                    format!("the aggregate of parties {subset:?} of {n} does not survive to_bytes/from_bytes"),
                    json!({"part": "stm-aggregate-honest", "n": n, "subset": subset}),
                );
            }
        }
        if n == 3 && subset == [0, 2] {
            rep.sample(json!({"part": "stm-aggregate", "kind": "honest aggregate", "n": n, "signers": subset, "batch_path_positions": stated, "batch_path_values": honest["batch_proof"]["values"].as_array().map(|a| a.len())}));
        }
        let singles = mutations(&w, &subset, &honest);
        rep.add_extra("stm_aggregate_single_mutants", singles.len() as u64);
        for (label, m) in &singles {
            eval(&mut rep, &w, k, m, label);
            if depth >= 2 {
                for (label2, m2) in mutations(&w, &subset, m) {
                    rep.add_extra("stm_aggregate_paired_mutants", 1);
                    eval(&mut rep, &w, k, &m2, Label(label, &label2));
                }
            }
        }
    }
    rep
}

pub fn replay(rep: &mut Report, v: &Value) {
    let n = v["n"].as_u64().unwrap_or(1) as usize;
    if v["part"] == "stm-aggregate-honest" {
        rep.merge(sweep(n, 0));
        return;
    }
    let Ok(w) = World::new(n) else {
        eprintln!("replay (stm-aggregate): the registration cannot be set up");
        rep.merge(sweep_one(n, 1, 0));
        return;
    };
    let verdict = eval(rep, &w, v["k"].as_u64().unwrap_or(1) as usize, &v["aggregate"], v["made_by"].as_str().unwrap_or("replay"));
    eprintln!("replay (stm-aggregate): verdict {verdict:?}");
}
