//! C09, part 3 — the nested `MKMap` / `MKMapProof` keyed by `BlockRange`, and `MkSetProof` on top.
//!
//! Seam: `MKMap::new`, `MKMap::compute_root`, `MKMap::compute_proof`, `MKMapProof::{verify, compute_root,
//! contains, leaves, to_bytes, from_bytes}`, `MKMapNode::{Map, Tree, TreeNode}`, `MkSetProof::{new, verify,
//! merkle_root}`.

use crate::c09_mk::{self as mk, Bytes, PProof, h2, leaf_pos, node, root_expr};
use crate::c09_util::{Label, violation};
use mc_core::{Report, catch};
use mithril_common::entities::{BlockRange, IntoMKTreeNode, MkSetProof};
use mithril_merkle_tree::{MKMap, MKMapNode, MKMapProof, MKTree, MKTreeNode, MKTreeStoreInMemory};
use serde::{Deserialize, Serialize};
use serde_json::{Value, json};

type S = MKTreeStoreInMemory;
type RealMap = MKMap<BlockRange, MKMapNode<BlockRange, S>, S>;
type RealProof = MKMapProof<BlockRange>;

#[derive(Clone)]
pub struct Item(pub Bytes);
impl IntoMKTreeNode for Item {
    fn into_mk_tree_node(self) -> MKTreeNode {
        MKTreeNode::new(self.0)
    }
}

// ---- mirror of MKMapProof<BlockRange> ---------------------------------------------------------

#[derive(Serialize, Deserialize, Clone, PartialEq, Eq, Hash, Debug)]
pub struct PMapProof {
    pub master_proof: PProof,
    pub sub_proofs: Vec<(BlockRange, PMapProof)>,
}

impl PMapProof {
    pub fn to_real(&self) -> Option<RealProof> {
        let bytes = bincode::serde::encode_to_vec(self, bincode::config::standard()).ok()?;
        RealProof::from_bytes(&bytes).ok()
    }
    pub fn from_real(p: &RealProof) -> PMapProof {
        let bytes = p.to_bytes().expect("MKMapProof::to_bytes");
        let (m, used): (PMapProof, usize) =
            bincode::serde::decode_from_slice(&bytes, bincode::config::standard()).expect("mirror of MKMapProof decodes");
        assert_eq!(used, bytes.len());
        m
    }
    pub fn leaf_proof(p: PProof) -> PMapProof {
        PMapProof { master_proof: p, sub_proofs: vec![] }
    }
    pub fn to_json(&self) -> Value {
        json!({
            "master": self.master_proof.to_json(),
            "subs": self.sub_proofs.iter().map(|(k, p)| json!([[k.start.0, k.end.0], p.to_json()])).collect::<Vec<_>>(),
        })
    }
    pub fn from_json(v: &Value) -> PMapProof {
        PMapProof {
            master_proof: PProof::from_json(&v["master"]),
            sub_proofs: v["subs"]
                .as_array()
                .map(|a| {
                    a.iter()
                        .map(|e| (BlockRange::from(e[0][0].as_u64().unwrap_or(0)..e[0][1].as_u64().unwrap_or(0)), PMapProof::from_json(&e[1])))
                        .collect()
                })
                .unwrap_or_default(),
        }
    }
    /// every item stated anywhere in the proof
    pub fn stated_items(&self, out: &mut Vec<Bytes>) {
        for (_, it) in &self.master_proof.inner_leaves {
            out.push(it.hash.clone());
        }
        for (_, sp) in &self.sub_proofs {
            sp.stated_items(out);
        }
    }
}

// ---- independent description of the committed structure -----------------------------------------

#[derive(Clone, Debug, PartialEq, Eq, Hash)]
pub enum RefNode {
    /// a full tree over these leaves
    Tree(Vec<Bytes>),
    /// only the root of the tree over these leaves is stored in the map (`MKMapNode::TreeNode`)
    Compressed(Vec<Bytes>),
    Map(Vec<(BlockRange, RefNode)>),
}

pub fn key_bytes(k: &BlockRange) -> Bytes {
    format!("{}-{}", k.start.0, k.end.0).into_bytes()
}

impl RefNode {
    pub fn root(&self) -> Bytes {
        match self {
            RefNode::Tree(ls) | RefNode::Compressed(ls) => root_expr(ls).hash,
            RefNode::Map(_) => root_expr(&self.level_leaves()).hash,
        }
    }
    /// the leaves of the tree at this level (for a map: H(key ‖ sub-root) in key order)
    pub fn level_leaves(&self) -> Vec<Bytes> {
        match self {
            RefNode::Tree(ls) | RefNode::Compressed(ls) => ls.clone(),
            RefNode::Map(es) => {
                let mut es: Vec<&(BlockRange, RefNode)> = es.iter().collect();
                es.sort_by(|a, b| a.0.cmp(&b.0));
                es.iter().map(|(k, v)| h2(&key_bytes(k), &v.root())).collect()
            }
        }
    }
    fn sorted_entries(&self) -> Vec<&(BlockRange, RefNode)> {
        match self {
            RefNode::Map(es) => {
                let mut es: Vec<&(BlockRange, RefNode)> = es.iter().collect();
                es.sort_by(|a, b| a.0.cmp(&b.0));
                es
            }
            _ => vec![],
        }
    }
    /// every leaf of every tree of the structure (bottom items and map-level entries)
    pub fn committed(&self, out: &mut Vec<Bytes>) {
        out.extend(self.level_leaves());
        if let RefNode::Map(es) = self {
            for (_, v) in es {
                v.committed(out);
            }
        }
    }
    pub fn bottom_items(&self, provable_only: bool, out: &mut Vec<Bytes>) {
        match self {
            RefNode::Tree(ls) => out.extend(ls.iter().cloned()),
            RefNode::Compressed(ls) => {
                if !provable_only {
                    out.extend(ls.iter().cloned())
                }
            }
            RefNode::Map(es) => es.iter().for_each(|(_, v)| v.bottom_items(provable_only, out)),
        }
    }
    /// every hash that is an inner node of some tree of the structure
    pub fn inner(&self, out: &mut Vec<Bytes>) {
        mk::inner_hashes(&root_expr(&self.level_leaves()), out);
        if let RefNode::Map(es) = self {
            for (_, v) in es {
                v.inner(out);
            }
        }
    }
    pub fn keys(&self, out: &mut Vec<BlockRange>) {
        if let RefNode::Map(es) = self {
            for (k, v) in es {
                out.push(k.clone());
                v.keys(out);
            }
        }
    }
    pub fn subtrees(&self, out: &mut Vec<(BlockRange, RefNode)>) {
        if let RefNode::Map(es) = self {
            for (k, v) in es {
                out.push((k.clone(), v.clone()));
                v.subtrees(out);
            }
        }
    }
    fn to_real_node(&self) -> Result<MKMapNode<BlockRange, S>, String> {
        let nodes = |ls: &Vec<Bytes>| ls.iter().map(|l| MKTreeNode::new(l.clone())).collect::<Vec<_>>();
        Ok(match self {
            RefNode::Tree(ls) => MKTree::<S>::new(&nodes(ls)).map_err(|e| e.to_string())?.into(),
            RefNode::Compressed(ls) => MKMapNode::TreeNode(MKTree::<S>::new(&nodes(ls)).and_then(|t| t.compute_root()).map_err(|e| e.to_string())?),
            RefNode::Map(_) => self.to_real_map()?.into(),
        })
    }
    pub fn to_real_map(&self) -> Result<RealMap, String> {
        let RefNode::Map(es) = self else { return Err("not a map".into()) };
        let mut entries = vec![];
        for (k, v) in es {
            entries.push((k.clone(), v.to_real_node()?));
        }
        MKMap::new(&entries).map_err(|e| e.to_string())
    }
    pub fn to_json(&self) -> Value {
        match self {
            RefNode::Tree(ls) => json!({"tree": ls.iter().map(hex::encode).collect::<Vec<_>>()}),
            RefNode::Compressed(ls) => json!({"compressed": ls.iter().map(hex::encode).collect::<Vec<_>>()}),
            RefNode::Map(es) => json!({"map": es.iter().map(|(k, v)| json!([[k.start.0, k.end.0], v.to_json()])).collect::<Vec<_>>()}),
        }
    }
    pub fn from_json(v: &Value) -> RefNode {
        let ls = |a: &Value| a.as_array().map(|a| a.iter().map(|s| hex::decode(s.as_str().unwrap_or("")).expect("hex")).collect()).unwrap_or_default();
        if !v["tree"].is_null() {
            RefNode::Tree(ls(&v["tree"]))
        } else if !v["compressed"].is_null() {
            RefNode::Compressed(ls(&v["compressed"]))
        } else {
            RefNode::Map(
                v["map"]
                    .as_array()
                    .map(|a| a.iter().map(|e| (BlockRange::from(e[0][0].as_u64().unwrap_or(0)..e[0][1].as_u64().unwrap_or(0)), RefNode::from_json(&e[1]))).collect())
                    .unwrap_or_default(),
            )
        }
    }
    pub fn describe(&self) -> String {
        match self {
            RefNode::Tree(ls) => format!("tree{:?}", ls.iter().map(|l| String::from_utf8_lossy(l).to_string()).collect::<Vec<_>>()),
            RefNode::Compressed(ls) => format!("root-only{:?}", ls.iter().map(|l| String::from_utf8_lossy(l).to_string()).collect::<Vec<_>>()),
            RefNode::Map(es) => format!("map{{{}}}", es.iter().map(|(k, v)| format!("{}: {}", String::from_utf8_lossy(&key_bytes(k)), v.describe())).collect::<Vec<_>>().join(", ")),
        }
    }
}

pub struct World {
    pub reference: RefNode,
    pub real: RealMap,
    pub root: Bytes,
    pub committed: Vec<Bytes>,
    pub inner: Vec<Bytes>,
    /// does the harness' own description of the hash structure reproduce the real root? Where it does
    /// not, only the oracles that do not depend on hashes are applied (see `eval_proof`).
    pub reference_ok: bool,
}

pub fn outsider() -> Bytes {
    mk::outsider()
}

impl World {
    pub fn new(reference: RefNode) -> Result<World, String> {
        // the real code may panic after a change: that is a failure to build, not a harness crash
        let (real, root) = catch(|| -> Result<_, String> {
            let real = reference.to_real_map()?;
            let root = real.compute_root().map_err(|e| e.to_string())?.to_vec();
            Ok((real, root))
        })
        .map_err(|p| format!("panic: {p}"))??;
        let mut committed = vec![];
        reference.committed(&mut committed);
        let mut inner = vec![];
        reference.inner(&mut inner);
        let reference_ok = reference.root() == root;
        Ok(World { reference, real, root, committed, inner, reference_ok })
    }
    /// what the accessor clause treats as committed: with a usable reference structure every leaf of
    /// every tree of it; without one, everything but the value that is committed nowhere (map-level
    /// entries can then not be told from foreign hashes, so they get the benefit of the doubt)
    pub fn judged_committed(&self, x: &[u8]) -> bool {
        if self.reference_ok { self.is_committed(x) } else { x != outsider().as_slice() }
    }
    pub fn is_committed(&self, x: &[u8]) -> bool {
        self.committed.iter().any(|c| c == x)
    }
    pub fn honest(&self, items: &[Bytes]) -> Result<RealProof, String> {
        let sel: Vec<MKTreeNode> = items.iter().map(|l| MKTreeNode::new(l.clone())).collect();
        catch(|| self.real.compute_proof(&sel).map_err(|e| format!("{e:#}"))).map_err(|p| format!("panic: {p}"))?
    }
}

#[derive(Clone, Copy, PartialEq, Eq, Debug)]
pub enum Verdict {
    Accepted,
    OtherRoot,
    Rejected,
    Panicked,
    Undecodable,
}

struct Finding {
    key: String,
    what: String,
    /// the falsely vouched item, if the finding is about one
    item: Option<Bytes>,
}

/// (1) the keyed statements of the proof, level by level, against the reference structure
fn check_level(p: &PMapProof, m: &RefNode, inner: &[Bytes], path: &str, out: &mut Vec<Finding>) {
    let level = m.level_leaves();
    for (j, (pos, item)) in p.master_proof.inner_leaves.iter().enumerate() {
        let idx = level.iter().position(|l| *l == item.hash);
        if idx.map(|i| *pos == leaf_pos(i as u64)).unwrap_or(false) {
            continue;
        }
        // a repeated position is a root cause of its own only when the earlier entry states a different leaf
        let shadowed = p.master_proof.inner_leaves[..j].iter().any(|(q, it)| q == pos && it != item);
        // these are defects of the tree proof underneath (same classifier keys as in part 2)
        let key = if shadowed {
            "C09/mkproof:entry-repeating-a-position-is-not-verified".to_string()
        } else if let Some(_i) = idx {
            "C09/mkproof:leaf-at-wrong-position".to_string()
        } else {
            mk::false_item_key("mkproof", inner, &item.hash)
        };
        out.push(Finding {
            key,
            item: Some(item.hash.clone()),
            what: format!(
                "at {path}: item {} is stated at position {pos} of the tree whose leaves are {:?}{}",
                hex::encode(&item.hash),
                level.iter().map(hex::encode).collect::<Vec<_>>(),
                if shadowed { " (an earlier entry states a different leaf at this position)" } else { "" }
            ),
        });
    }
    let entries = m.sorted_entries();
    for (k, sp) in &p.sub_proofs {
        let link = h2(&key_bytes(k), &sp.master_proof.inner_root.hash);
        let here = format!("{path}/{}", String::from_utf8_lossy(&key_bytes(k)));
        match level.iter().position(|l| *l == link) {
            Some(i) if !entries.is_empty() => {
                let (ck, cv) = entries[i];
                if ck == k && cv.root() == sp.master_proof.inner_root.hash {
                    check_level(sp, cv, inner, &here, out);
                } else {
                    let mut sub_items = vec![];
                    sp.stated_items(&mut sub_items);
                    out.push(Finding {
                        item: sub_items.first().cloned(),
                        key: "C09/mkmap:key-and-sub-root-concatenation-is-ambiguous".into(),
                        what: format!(
                            "a sub-proof with root {} is attached under key {}: the hash of key‖root equals the committed entry for key {} with sub-root {}, which is a different (key, sub-tree) pair",
                            hex::encode(&sp.master_proof.inner_root.hash),
                            String::from_utf8_lossy(&key_bytes(k)),
                            String::from_utf8_lossy(&key_bytes(ck)),
                            hex::encode(cv.root())
                        ),
                    });
                }
            }
            _ => {
                // the link is not a committed entry of this level: it can only have been accepted through
                // a false entry of the master proof (reported above) — unless the master does not state it
                if !p.master_proof.inner_leaves.iter().any(|(_, it)| it.hash == link) {
                    out.push(Finding {
                        item: None,
                        key: "C09/mkmap:sub-proof-not-linked-to-master-proof".into(),
                        what: format!("at {here}: the sub-proof's key‖root hash {} is not among the entries the master proof states", hex::encode(&link)),
                    });
                } else if matches!(m, RefNode::Tree(_) | RefNode::Compressed(_)) {
                    // can only be reached through a false master entry, already reported
                }
            }
        }
    }
}

/// (1') the same walk without any hash of the reference structure: sub-proofs are followed by their
/// keys, and only what a tree-level proof states about items is judged (used when the reference
/// structure does not reproduce the real root, e.g. after a change of the hashing under test)
fn check_level_by_keys(p: &PMapProof, m: &RefNode, all_bottom: &[Bytes], path: &str, out: &mut Vec<Finding>) {
    match m {
        RefNode::Tree(ls) | RefNode::Compressed(ls) => {
            for (j, (pos, item)) in p.master_proof.inner_leaves.iter().enumerate() {
                let idx = ls.iter().position(|l| *l == item.hash);
                if idx.map(|i| *pos == leaf_pos(i as u64)).unwrap_or(false) {
                    continue;
                }
                let shadowed = p.master_proof.inner_leaves[..j].iter().any(|(q, it)| q == pos && it != item);
                let key = if shadowed {
                    "C09/mkproof:entry-repeating-a-position-is-not-verified"
                } else if idx.is_some() {
                    "C09/mkproof:leaf-at-wrong-position"
                } else if all_bottom.contains(&item.hash) {
                    "C09/mkmap:item-under-wrong-key"
                } else {
                    "C09/mkproof:non-member-accepted"
                };
                out.push(Finding {
                    key: key.into(),
                    item: Some(item.hash.clone()),
                    what: format!("at {path}: item {} is stated at position {pos} of the tree whose leaves are {:?}", hex::encode(&item.hash), ls.iter().map(hex::encode).collect::<Vec<_>>()),
                });
            }
            for (k, sp) in &p.sub_proofs {
                let mut items = vec![];
                sp.stated_items(&mut items);
                if !items.is_empty() {
                    out.push(Finding {
                        key: "C09/mkmap:sub-proof-below-a-tree-accepted".into(),
                        item: items.first().cloned(),
                        what: format!("at {path}: a sub-proof under key {} hangs below a tree, which has no keyed entries", String::from_utf8_lossy(&key_bytes(k))),
                    });
                }
            }
        }
        RefNode::Map(es) => {
            // the map-level entries are hashes: not judged here
            for (k, sp) in &p.sub_proofs {
                let here = format!("{path}/{}", String::from_utf8_lossy(&key_bytes(k)));
                match es.iter().find(|(ck, _)| ck == k) {
                    Some((_, cv)) => check_level_by_keys(sp, cv, all_bottom, &here, out),
                    None => {
                        let mut items = vec![];
                        sp.stated_items(&mut items);
                        if !items.is_empty() {
                            out.push(Finding {
                                key: "C09/mkmap:sub-proof-under-uncommitted-key".into(),
                                item: items.first().cloned(),
                                what: format!("at {here}: the map has no entry under that key, yet a sub-proof stating {} item(s) is attached there", items.len()),
                            });
                        }
                    }
                }
            }
        }
    }
}

pub fn eval_proof<'a>(rep: &mut Report, w: &World, p: &PMapProof, label: impl Into<Label<'a>>, count_distinct: bool) -> Verdict {
    let label: Label = label.into();
    rep.eval();
    let Some(real) = p.to_real() else {
        rep.outcome("mkmap:undecodable");
        return Verdict::Undecodable;
    };
    let verdict = match catch(|| real.verify().is_ok()) {
        Err(_) => Verdict::Panicked,
        Ok(false) => Verdict::Rejected,
        Ok(true) => {
            if real.compute_root().to_vec() == w.root {
                Verdict::Accepted
            } else {
                Verdict::OtherRoot
            }
        }
    };
    match verdict {
        Verdict::Accepted => rep.outcome("mkmap:accepted"),
        Verdict::OtherRoot => rep.outcome("mkmap:verifies-for-another-root(=not accepted)"),
        Verdict::Rejected => rep.outcome("mkmap:rejected"),
        Verdict::Panicked => {
            rep.add_extra("panics_observed", 1);
            rep.outcome("mkmap:panicked(=not accepted)")
        }
        Verdict::Undecodable => {}
    }
    if count_distinct || verdict == Verdict::Accepted {
        rep.nontrivial(&("map", &w.reference, p));
    }
    let replay = || json!({"part": "mkmap", "structure": w.reference.to_json(), "proof": p.to_json(), "made_by": label.to_string()});
    let root_hex = hex::encode(&w.root);
    let mut stated = vec![];
    p.stated_items(&mut stated);

    // MkSetProof wiring: an item the proof does not state and that is not committed must never pass
    let set_accepts = |items: Vec<Bytes>| -> bool {
        let sp = MkSetProof::new(items.into_iter().map(Item).collect::<Vec<_>>(), real.clone());
        catch(|| sp.verify().is_ok() && sp.merkle_root() == root_hex).unwrap_or(false)
    };
    {
        let mut items = vec![outsider()];
        if !stated.contains(&outsider()) {
            if set_accepts(items.clone()) {
                rep.violation(
                    "C09/mksetproof:verifies-item-the-proof-does-not-state",
                    format!("MkSetProof over an item the proof does not state verifies with the committed root; proof made by: {label}; structure {}", w.reference.describe()),
                    replay(),
                );
            }
            if let Some(first) = stated.iter().find(|s| w.is_committed(s)) {
                items.insert(0, first.clone());
                if set_accepts(items) {
                    rep.violation(
                        "C09/mksetproof:verifies-although-one-item-is-not-stated",
                        format!("MkSetProof over [a stated item, an item the proof does not state] verifies with the committed root; proof made by: {label}; structure {}", w.reference.describe()),
                        replay(),
                    );
                }
            }
        }
    }
    if verdict != Verdict::Accepted {
        return verdict;
    }

    let mut findings = vec![];
    if w.reference_ok {
        check_level(p, &w.reference, &w.inner, "", &mut findings);
    } else {
        let mut all_bottom = vec![];
        w.reference.bottom_items(false, &mut all_bottom);
        check_level_by_keys(p, &w.reference, &all_bottom, "", &mut findings);
        rep.add_extra("mkmap_accepted_cases_judged_without_hash_dependent_clauses", 1);
    }
    let any_keyed = !findings.is_empty();
    for f in findings {
        let set_too = match &f.item {
            Some(it) if !w.judged_committed(it) && set_accepts(vec![it.clone()]) => {
                rep.add_extra("mksetproof_accepts_uncommitted_item_too", 1);
                " — MkSetProof::verify over that item succeeds as well"
            }
            _ => "",
        };
        violation(rep, &f.key, || {
            (
                format!(
                    "MKMapProof verifies against the committed root although it states something false: {}{set_too}; structure {}; proof made by: {label}",
                    f.what,
                    w.reference.describe()
                ),
                replay(),
            )
        });
    }
    // (2) what the accessors tell a caller
    let mut probes = w.committed.clone();
    probes.push(outsider());
    probes.extend(w.inner.iter().cloned());
    probes.extend(stated.iter().cloned());
    probes.sort();
    probes.dedup();
    let mut intermediate_accepted = 0u64;
    let mut bottom = vec![];
    w.reference.bottom_items(false, &mut bottom);
    for pr in &probes {
        let said = catch(|| real.contains(&MKTreeNode::new(pr.clone())).is_ok()).unwrap_or(false);
        if !said {
            continue;
        }
        if !w.judged_committed(pr) {
            if !stated.contains(pr) {
                rep.violation(
                    "C09/mkmap:contains-accepts-item-the-proof-does-not-state",
                    format!("MKMapProof verifies and contains({}) succeeds although no (sub-)proof states that item and it is not committed; proof made by: {label}", hex::encode(pr)),
                    replay(),
                );
            } else if !any_keyed {
                rep.violation(
                    "C09/mkmap:uncommitted-item-accepted",
                    format!("MKMapProof verifies and contains({}) succeeds; the item is not a leaf of any committed tree; structure {}; proof made by: {label}", hex::encode(pr), w.reference.describe()),
                    replay(),
                );
            }
        } else if !bottom.contains(pr) {
            intermediate_accepted += 1;
        }
    }
    if intermediate_accepted > 0 {
        // allowed by the property as read here ("a committed leaf of that (sub-)tree"): map-level
        // entries H(key‖sub-root) are themselves leaves of the master tree. Counted, not judged.
        rep.add_extra("observed_map_level_entries_accepted_by_contains", intermediate_accepted);
    }
    for l in catch(|| real.leaves()).unwrap_or_default() {
        if !w.judged_committed(&l) && !stated.contains(&l.to_vec()) {
            rep.violation(
                "C09/mkmap:leaves-lists-item-the-proof-does-not-state",
                format!("leaves() lists {} which no (sub-)proof states; proof made by: {label}", hex::encode(&*l)),
                replay(),
            );
        }
    }
    if !any_keyed && !label.is_honest() && w.reference == flat(&[1, 2], 0, 0) && rep.extras.get("mkmap_sample_accepted_mutant").is_none() {
        rep.extra("mkmap_sample_accepted_mutant", json!({"made_by": label.to_string(), "structure": w.reference.describe(), "proof": p.to_json()}));
    }
    verdict
}

// ---- the structures enumerated -----------------------------------------------------------------

pub fn range(i: usize) -> BlockRange {
    BlockRange::from((15 * i as u64)..(15 * (i as u64 + 1)))
}

pub fn item_name(r: usize, j: usize) -> Bytes {
    // transaction hashes are hex strings: many start with a digit
    format!("{}tx-{r}-{j}", (r * 3 + j * 7 + 5) % 10).into_bytes()
}

/// one-level map: `sizes[i]` leaves under block range i; `compressed` bit i stores only the root
pub fn flat(sizes: &[usize], compressed: u32, first_range: usize) -> RefNode {
    RefNode::Map(
        sizes
            .iter()
            .enumerate()
            .map(|(i, &s)| {
                let ls: Vec<Bytes> = (0..s).map(|j| item_name(first_range + i, j)).collect();
                (range(first_range + i), if compressed >> i & 1 == 1 { RefNode::Compressed(ls) } else { RefNode::Tree(ls) })
            })
            .collect(),
    )
}

/// two-level map: outer keys are wider ranges, each holding a flat map
pub fn nested(groups: &[Vec<usize>]) -> RefNode {
    let mut first = 0;
    RefNode::Map(
        groups
            .iter()
            .enumerate()
            .map(|(g, sizes)| {
                let inner = flat(sizes, 0, first);
                first += sizes.len();
                (BlockRange::from((150 * g as u64)..(150 * (g as u64 + 1))), inner)
            })
            .collect(),
    )
}

fn subset<T: Clone>(mask: u32, v: &[T]) -> Vec<T> {
    v.iter().enumerate().filter(|(i, _)| mask >> i & 1 == 1).map(|(_, x)| x.clone()).collect()
}

/// completeness on one structure: every non-empty subset of its provable bottom items
pub fn honest_sweep(reference: &RefNode) -> Report {
    let mut rep = Report::new("exploration", "");
    let w = match World::new(reference.clone()) {
        Ok(w) => w,
        Err(e) => {
            // completeness is part of C09: a structure that cannot be committed has no verifying proof
            rep.eval();
            violation(&mut rep, "C09/mkmap:honest-proof-rejected", || {
                (format!("the map {} cannot be built or its root computed: {e}", reference.describe()), json!({"part": "mkmap-honest", "structure": reference.to_json()}))
            });
            return rep;
        }
    };
    if !w.reference_ok {
        // recorded, not fatal: the hash-dependent part of the oracle and the designed forgeries that
        // need the reference structure are replaced / skipped for this structure
        rep.add_extra("mkmap_structures_where_reference_structure_differs", 1);
    }
    let mut items = vec![];
    reference.bottom_items(true, &mut items);
    if items.len() > 16 {
        rep.machinery_error("structure too large for subset enumeration".into());
        return rep;
    }
    for mask in 1u32..(1u32 << items.len()) {
        let sel = subset(mask, &items);
        let bad = |rep: &mut Report, key: &str, what: String| {
            rep.violation(key, what, json!({"part": "mkmap-honest", "structure": reference.to_json(), "mask": mask}));
        };
        let real = match catch(|| w.honest(&sel)) {
            Ok(Ok(p)) => p,
            other => {
                rep.eval();
                bad(&mut rep, "C09/mkmap:proof-generation-fails", format!("compute_proof fails on {} for items #{mask:b}: {:?}", reference.describe(), other.map(|r| r.err())));
                continue;
            }
        };
        let p = PMapProof::from_real(&real);
        let v = eval_proof(&mut rep, &w, &p, "honest", true);
        if v != Verdict::Accepted {
            bad(&mut rep, "C09/mkmap:honest-proof-rejected", format!("the proof generated on {} for items #{mask:b} is not accepted ({v:?})", reference.describe()));
            continue;
        }
        for it in &sel {
            if real.contains(&MKTreeNode::new(it.clone())).is_err() {
                bad(&mut rep, "C09/mkmap:honest-proof-does-not-contain-its-items", format!("contains() fails for a requested item on {}", reference.describe()));
            }
        }
        let mut got: Vec<Bytes> = real.leaves().iter().map(|l| l.to_vec()).collect();
        let mut exp = sel.clone();
        got.sort();
        exp.sort();
        if got != exp {
            bad(&mut rep, "C09/mkmap:honest-proof-lists-other-items", format!("leaves() differs from the requested items on {}", reference.describe()));
        }
        let sp = MkSetProof::new(sel.iter().cloned().map(Item).collect::<Vec<_>>(), real.clone());
        if sp.verify().is_err() || sp.merkle_root() != hex::encode(&w.root) {
            bad(&mut rep, "C09/mksetproof:honest-proof-rejected", format!("MkSetProof over the requested items does not verify on {}", reference.describe()));
        }
        if *reference == flat(&[2, 2], 0, 0) && mask == 0b0110 {
            rep.sample(json!({"part": "mkmap", "kind": "honest map proof", "structure": reference.describe(), "items": sel.iter().map(|i| String::from_utf8_lossy(i).to_string()).collect::<Vec<_>>(), "proof": p.to_json()}));
        }
    }
    rep
}

// ---- mutations ----------------------------------------------------------------------------------

pub struct Material {
    pub mk: mk::Material,
    pub keys: Vec<BlockRange>,
    pub alt_subproofs: Vec<(String, PMapProof)>,
}

pub fn trivial_proof(item: &[u8]) -> PMapProof {
    PMapProof::leaf_proof(PProof { inner_root: node(item), inner_leaves: vec![(0, node(item))], inner_proof_size: 1, inner_proof_items: vec![] })
}

pub fn material(w: &World) -> Material {
    let mut items: Vec<(String, Bytes)> = vec![];
    for (i, c) in w.committed.iter().enumerate() {
        items.push((format!("committed{i}"), c.clone()));
    }
    items.push(("outsider".into(), outsider()));
    for (i, h) in w.inner.iter().enumerate() {
        items.push((format!("inner{i}"), h.clone()));
    }
    let mut keys = vec![];
    w.reference.keys(&mut keys);
    keys.push(range(9));
    keys.sort();
    keys.dedup();
    // link hashes under which foreign sub-proofs could hang
    items.push(("link(unknown-key,outsider)".into(), h2(&key_bytes(&range(9)), &outsider())));
    if let Some(k) = keys.first() {
        items.push(("link(known-key,outsider)".into(), h2(&key_bytes(k), &outsider())));
    }
    let max_level = {
        fn widest(m: &RefNode) -> usize {
            match m {
                RefNode::Map(es) => es.len().max(es.iter().map(|(_, v)| widest(v)).max().unwrap_or(0)),
                RefNode::Tree(ls) | RefNode::Compressed(ls) => ls.len(),
            }
        }
        widest(&w.reference) as u64
    };
    let sz = mk::mmr_size(max_level.max(1));
    let mut pos_alphabet: Vec<u64> = (0..=sz + 1).collect();
    pos_alphabet.push(u64::MAX);
    let mut size_alphabet: Vec<u64> = (0..=sz + 2).collect();
    size_alphabet.push(u64::MAX);
    // alternative sub-proofs
    let mut alt: Vec<(String, PMapProof)> = vec![];
    let mut subs = vec![];
    w.reference.subtrees(&mut subs);
    for (k, v) in &subs {
        let kname = String::from_utf8_lossy(&key_bytes(k)).to_string();
        match v {
            RefNode::Tree(ls) | RefNode::Compressed(ls) => {
                if let Ok(tw) = mk::World::new(ls.clone()) {
                    for mask in 1u32..(1u32 << ls.len()) {
                        let idx: Vec<usize> = (0..ls.len()).filter(|i| mask >> i & 1 == 1).collect();
                        if let Ok(pr) = tw.honest(&idx) {
                            alt.push((format!("honest proof of items #{mask:b} of the tree under {kname}"), PMapProof::leaf_proof(PProof::from_real(&pr))));
                        }
                    }
                    alt.push((format!("one-leaf proof of the root of the tree under {kname}"), trivial_proof(&tw.root)));
                }
            }
            RefNode::Map(_) => {
                alt.push((format!("one-leaf proof of the root of the map under {kname}"), trivial_proof(&v.root())));
            }
        }
    }
    alt.push(("one-leaf proof of an outsider".into(), trivial_proof(&outsider())));
    Material { mk: mk::Material { item_alphabet: items, pos_alphabet, size_alphabet }, keys, alt_subproofs: alt }
}

/// key‖sub-root boundary shifts that keep the concatenation unchanged
fn boundary_shifts(k: &BlockRange, root: &[u8]) -> Vec<(BlockRange, Bytes)> {
    let mut out = vec![];
    let (s, e) = (k.start.0, k.end.0);
    // move the last digit of the key into the sub-root
    if e >= 10 {
        let mut r = vec![b'0' + (e % 10) as u8];
        r.extend_from_slice(root);
        out.push((BlockRange::from(s..e / 10), r));
    }
    // move a leading digit of the sub-root into the key
    if let Some(&d) = root.first()
        && d.is_ascii_digit()
        && root.len() > 1
        && let Some(e2) = e.checked_mul(10).and_then(|x| x.checked_add((d - b'0') as u64))
    {
        out.push((BlockRange::from(s..e2), root[1..].to_vec()));
    }
    out
}

pub fn mutations(c: &PMapProof, m: &Material) -> Vec<(String, PMapProof)> {
    let mut out: Vec<(String, PMapProof)> = vec![];
    fn rec(c: &PMapProof, m: &Material, path: &str, rebuild: &dyn Fn(PMapProof) -> PMapProof, out: &mut Vec<(String, PMapProof)>) {
        // the tree proof of this level
        for (label, mp) in mk::mutations(&c.master_proof, &m.mk) {
            let mut x = c.clone();
            x.master_proof = mp;
            out.push((format!("{path}master: {label}"), rebuild(x)));
        }
        // the sub-proof list of this level
        for i in 0..c.sub_proofs.len() {
            let kname = String::from_utf8_lossy(&key_bytes(&c.sub_proofs[i].0)).to_string();
            let mut x = c.clone();
            x.sub_proofs.remove(i);
            out.push((format!("{path}sub-proof {kname} detached"), rebuild(x)));
            let mut x = c.clone();
            x.sub_proofs.insert(i, c.sub_proofs[i].clone());
            out.push((format!("{path}sub-proof {kname} duplicated"), rebuild(x)));
            if i + 1 < c.sub_proofs.len() {
                let mut x = c.clone();
                x.sub_proofs.swap(i, i + 1);
                out.push((format!("{path}sub-proofs {i},{} swapped", i + 1), rebuild(x)));
                let mut x = c.clone();
                let (a, b) = (c.sub_proofs[i].0.clone(), c.sub_proofs[i + 1].0.clone());
                x.sub_proofs[i].0 = b;
                x.sub_proofs[i + 1].0 = a;
                out.push((format!("{path}keys of sub-proofs {i},{} swapped", i + 1), rebuild(x)));
            }
            for k in &m.keys {
                if *k != c.sub_proofs[i].0 {
                    let mut x = c.clone();
                    x.sub_proofs[i].0 = k.clone();
                    out.push((format!("{path}sub-proof {kname} re-attached under {}", String::from_utf8_lossy(&key_bytes(k))), rebuild(x)));
                }
            }
            for (name, alt) in &m.alt_subproofs {
                if *alt != c.sub_proofs[i].1 {
                    let mut x = c.clone();
                    x.sub_proofs[i].1 = alt.clone();
                    out.push((format!("{path}sub-proof {kname} replaced by {name}"), rebuild(x)));
                }
            }
            for (k2, r2) in boundary_shifts(&c.sub_proofs[i].0, &c.sub_proofs[i].1.master_proof.inner_root.hash) {
                let mut x = c.clone();
                x.sub_proofs[i] = (k2.clone(), trivial_proof(&r2));
                out.push((
                    format!("{path}sub-proof {kname} replaced by a one-leaf proof of {} under key {} (same key‖root bytes)", hex::encode(&r2), String::from_utf8_lossy(&key_bytes(&k2))),
                    rebuild(x),
                ));
            }
            // inside the sub-proof
            let sub_path = format!("{path}{kname}/");
            let c2 = c.clone();
            let rb = move |sp: PMapProof| {
                let mut x = c2.clone();
                x.sub_proofs[i].1 = sp;
                rebuild(x)
            };
            rec(&c.sub_proofs[i].1, m, &sub_path, &rb, out);
        }
        for k in &m.keys {
            for (name, alt) in &m.alt_subproofs {
                let mut x = c.clone();
                x.sub_proofs.push((k.clone(), alt.clone()));
                out.push((format!("{path}sub-proof added under {}: {name}", String::from_utf8_lossy(&key_bytes(k))), rebuild(x)));
            }
        }
    }
    rec(c, m, "", &|x| x, &mut out);
    out.retain(|(_, p)| p != c);
    out
}

pub fn mutation_sweep(reference: &RefNode, mask: u32, depth: usize, chunk: usize, chunks: usize) -> Report {
    let mut rep = Report::new("exploration", "");
    let Ok(w) = World::new(reference.clone()) else {
        return rep; // reported by the honest sweep as a completeness violation
    };
    let m = material(&w);
    let mut items = vec![];
    reference.bottom_items(true, &mut items);
    let sel = subset(mask, &items);
    let Ok(real) = w.honest(&sel) else { return rep };
    let honest = PMapProof::from_real(&real);
    let singles = mutations(&honest, &m);
    for (i, (label, p)) in singles.iter().enumerate() {
        if i % chunks != chunk {
            continue;
        }
        rep.add_extra("mkmap_single_mutants", 1);
        eval_proof(&mut rep, &w, p, label, true);
        if depth >= 2 {
            let pairs = mutations(p, &m);
            rep.add_extra("mkmap_paired_mutants", pairs.len() as u64);
            for (label2, p2) in &pairs {
                eval_proof(&mut rep, &w, p2, Label(label, label2), false);
            }
        }
    }
    rep
}

/// all one-place variants of a structure: one bottom item replaced by a value used nowhere else, or
/// one key replaced by a key used nowhere else. Returns (what, variant, item to prove, key replaced?)
fn one_place_variants(m: &RefNode, path: &str, fresh: &mut u64) -> Vec<(String, RefNode, Bytes, bool)> {
    let mut out = vec![];
    match m {
        RefNode::Tree(ls) | RefNode::Compressed(ls) => {
            for j in 0..ls.len() {
                *fresh += 1;
                let item = format!("6tx-never-used-{fresh}").into_bytes();
                let mut l2 = ls.clone();
                l2[j] = item.clone();
                out.push((format!("item #{j} under {path} replaced by {:?}", String::from_utf8_lossy(&item)), RefNode::Tree(l2), item, false));
            }
        }
        RefNode::Map(es) => {
            for (i, (k, v)) in es.iter().enumerate() {
                let here = format!("{path}/{}", String::from_utf8_lossy(&key_bytes(k)));
                for (what, v2, item, is_key) in one_place_variants(v, &here, fresh) {
                    let mut e2 = es.clone();
                    e2[i].1 = v2;
                    out.push((what, RefNode::Map(e2), item, is_key));
                }
                // the key itself
                *fresh += 1;
                let k2 = BlockRange::from((100_000 + 15 * *fresh)..(100_000 + 15 * (*fresh + 1)));
                let mut below = vec![];
                v.bottom_items(false, &mut below);
                if let Some(item) = below.first() {
                    let mut e2 = es.clone();
                    e2[i].0 = k2.clone();
                    out.push((format!("key {here} replaced by {}", String::from_utf8_lossy(&key_bytes(&k2))), RefNode::Map(e2), item.clone(), true));
                }
            }
        }
    }
    out
}

/// Structure-independent soundness, through the real API only: the root of a map commits to every
/// item of every sub-tree and to every key. If a one-place variant has the same root, the proof the
/// real code generates from the variant is checked against the original root and, when it verifies, reported.
pub fn root_commitment_sweep(reference: &RefNode) -> Report {
    let mut rep = Report::new("exploration", "");
    // root-only ranges are provable once given as trees; their root is the same
    fn uncompress(m: &RefNode) -> RefNode {
        match m {
            RefNode::Compressed(ls) => RefNode::Tree(ls.clone()),
            RefNode::Tree(ls) => RefNode::Tree(ls.clone()),
            RefNode::Map(es) => RefNode::Map(es.iter().map(|(k, v)| (k.clone(), uncompress(v))).collect()),
        }
    }
    let reference = uncompress(reference);
    let Ok(w) = World::new(reference.clone()) else { return rep };
    let mut fresh = 0u64;
    for (what, variant, item, is_key) in one_place_variants(&reference, "", &mut fresh) {
        rep.eval();
        rep.nontrivial(&("map-root-commits", &reference, &what));
        let Ok(w2) = World::new(variant.clone()) else {
            rep.outcome("mkmap:root-commitment:variant-cannot-be-built");
            continue;
        };
        if w2.root != w.root {
            rep.outcome(if is_key { "mkmap:root-differs-when-a-key-is-replaced" } else { "mkmap:root-differs-when-an-item-is-replaced" });
            continue;
        }
        rep.outcome(if is_key { "mkmap:root-unchanged-when-a-key-is-replaced" } else { "mkmap:root-unchanged-when-an-item-is-replaced" });
        let confirmed = w2
            .honest(&[item.clone()])
            .ok()
            .map(|p| catch(|| p.verify().is_ok() && p.compute_root().to_vec() == w.root && p.contains(&MKTreeNode::new(item.clone())).is_ok()).unwrap_or(false))
            .unwrap_or(false);
        if confirmed {
            let key = if is_key { "C09/mkmap:root-does-not-commit-to-key" } else { "C09/mkmap:root-does-not-commit-to-leaf" };
            violation(&mut rep, key, || {
                (
                    format!(
                        "map {}: with {what} the root is unchanged, and the proof generated from the changed map for item {:?} verifies against the root of the original map, which does not contain that {}",
                        reference.describe(),
                        String::from_utf8_lossy(&item),
                        if is_key { "key" } else { "item" }
                    ),
                    json!({"part": "mkmap-root", "structure": reference.to_json(), "variant": variant.to_json(), "what": what}),
                )
            });
        } else {
            rep.outcome("mkmap:root-unchanged-but-replacement-not-provable");
        }
    }
    rep
}

pub fn replay(rep: &mut Report, v: &Value) {
    let reference = RefNode::from_json(&v["structure"]);
    if v["part"] == "mkmap-root" {
        rep.merge(root_commitment_sweep(&reference));
        return;
    }
    if v["part"] == "mkmap-honest" {
        rep.merge(honest_sweep(&reference));
        return;
    }
    let w = World::new(reference).expect("world");
    let p = PMapProof::from_json(&v["proof"]);
    let verdict = eval_proof(rep, &w, &p, v["made_by"].as_str().unwrap_or("replay"), true);
    eprintln!("replay (mkmap): verdict {verdict:?}");
}
