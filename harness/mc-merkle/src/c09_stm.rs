//! C09, part 1 — the STM signer-registration Merkle tree, compiled from the working-tree files by
//! source inclusion (see main.rs) so that byte-string leaves can be used.
//!
//! Seam: `MerkleTree::new`, `to_merkle_tree_batch_commitment`, `compute_merkle_tree_batch_path`,
//! `MerkleTreeBatchCommitment::verify_leaves_membership_from_batch_path`, `MerkleBatchPath::{to_bytes,from_bytes}`.

use crate::stm_merkle_tree::{MerkleBatchPath, MerkleTree, MerkleTreeBatchCommitment, MerkleTreeLeaf};
use blake2::{Blake2b, Digest, digest::consts::U32};
use crate::c09_util::{Label, violation};
use mc_core::{Report, catch};
use serde_json::{Value, json};

/// the hash the real registration tree uses (`MithrilMembershipDigest::ConcatenationHash`)
pub type H = Blake2b<U32>;

/// byte-string leaf (the trait wants `Copy`)
#[derive(Clone, Copy, PartialEq, Eq, Hash, Debug)]
pub struct BLeaf {
    len: u8,
    bytes: [u8; 64],
}

impl BLeaf {
    pub fn new(b: &[u8]) -> BLeaf {
        assert!(b.len() <= 64);
        let mut bytes = [0u8; 64];
        bytes[..b.len()].copy_from_slice(b);
        BLeaf { len: b.len() as u8, bytes }
    }
    pub fn as_slice(&self) -> &[u8] {
        &self.bytes[..self.len as usize]
    }
    pub fn hex(&self) -> String {
        hex::encode(self.as_slice())
    }
    pub fn from_hex(s: &str) -> BLeaf {
        BLeaf::new(&hex::decode(s).expect("leaf hex"))
    }
}

impl MerkleTreeLeaf for BLeaf {
    fn as_bytes_for_merkle_tree(&self) -> Vec<u8> {
        self.as_slice().to_vec()
    }
}

pub fn member(i: usize) -> BLeaf {
    BLeaf::new(&[0x4c, i as u8, 0xa5])
}
pub fn outsider() -> BLeaf {
    BLeaf::new(&[0x58, 0x00, 0xa5])
}
/// the byte string whose hash is the padding node `H([0])`
pub fn padding_preimage() -> BLeaf {
    BLeaf::new(&[0u8])
}

type Tree = MerkleTree<H, BLeaf>;
type Commitment = MerkleTreeBatchCommitment<H, BLeaf>;

/// one claim put before the verifier: leaves, their stated positions and the path nodes
#[derive(Clone, PartialEq, Eq, Hash, Debug)]
pub struct Case {
    pub leaves: Vec<BLeaf>,
    pub indices: Vec<usize>,
    pub values: Vec<Vec<u8>>,
}

impl Case {
    pub fn to_json(&self) -> Value {
        json!({
            "leaves": self.leaves.iter().map(|l| l.hex()).collect::<Vec<_>>(),
            "indices": self.indices.iter().map(|i| i.to_string()).collect::<Vec<_>>(),
            "values": self.values.iter().map(hex::encode).collect::<Vec<_>>(),
        })
    }
    pub fn from_json(v: &Value) -> Case {
        let strs = |k: &str| -> Vec<String> {
            v[k].as_array().map(|a| a.iter().map(|s| s.as_str().unwrap_or("").to_string()).collect()).unwrap_or_default()
        };
        Case {
            leaves: strs("leaves").iter().map(|s| BLeaf::from_hex(s)).collect(),
            indices: strs("indices").iter().map(|s| s.parse().expect("index")).collect(),
            values: strs("values").iter().map(|s| hex::decode(s).expect("value hex")).collect(),
        }
    }
}

/// a committed list together with everything derived from it by the real code
pub struct World {
    pub committed: Vec<BLeaf>,
    pub tree: Tree,
    pub commitment: Commitment,
    /// all node hashes of the real tree (read through its `Serialize` impl): mutation material only
    pub nodes: Vec<Vec<u8>>,
}

impl World {
    /// builds the tree with the real code; a panic of that code is a failure to build, not a harness crash
    pub fn try_new(committed: Vec<BLeaf>) -> Result<World, String> {
        let (tree, commitment) = catch(|| {
            let tree = Tree::new(&committed);
            let commitment = tree.to_merkle_tree_batch_commitment();
            (tree, commitment)
        })
        .map_err(|p| format!("MerkleTree::new panicked: {p}"))?;
        // node hashes are mutation material only; if the tree no longer serialises the way the harness
        // expects, the designed families that need them are skipped (nodes stays empty)
        let nodes: Vec<Vec<u8>> = serde_json::to_value(&tree)
            .ok()
            .and_then(|tv| {
                tv["nodes"].as_array().map(|a| a.iter().map(|n| n.as_array().map(|b| b.iter().map(|x| x.as_u64().unwrap_or(0) as u8).collect()).unwrap_or_default()).collect())
            })
            .unwrap_or_default();
        Ok(World { committed, tree, commitment, nodes })
    }
    pub fn new(committed: Vec<BLeaf>) -> World {
        World::try_new(committed).expect("tree can be built")
    }
    pub fn try_members(n: usize) -> Result<World, String> {
        World::try_new((0..n).map(member).collect())
    }
    pub fn nodes_ok(&self) -> bool {
        self.nodes.len() >= self.n()
    }
    pub fn n(&self) -> usize {
        self.committed.len()
    }
}

#[derive(Clone, Copy, PartialEq, Eq, Debug)]
pub enum Verdict {
    Accepted,
    Rejected,
    Panicked,
}

pub fn run_verify(commitment: &Commitment, case: &Case) -> Verdict {
    let path = MerkleBatchPath::<H>::new(case.values.clone(), case.indices.clone());
    match catch(|| commitment.verify_leaves_membership_from_batch_path(&case.leaves, &path).is_ok()) {
        Ok(true) => Verdict::Accepted,
        Ok(false) => Verdict::Rejected,
        Err(_) => Verdict::Panicked,
    }
}

/// The oracle: what an accepted claim states must be literally true of the committed list.
/// Returns (classifier key, explanation) of the first false statement.
pub fn false_statement(committed: &[BLeaf], case: &Case) -> Option<(&'static str, String)> {
    if case.leaves.len() != case.indices.len() {
        return Some((
            "C09/stm-batch-path:leaf-count-differs-from-index-count",
            format!("{} leaves for {} positions", case.leaves.len(), case.indices.len()),
        ));
    }
    for (leaf, &idx) in case.leaves.iter().zip(&case.indices) {
        if idx >= committed.len() {
            let key = "C09/stm-batch-path:index-beyond-leaf-count-accepted";
            return Some((key, format!("leaf {} accepted at position {idx} of a tree with {} leaves", leaf.hex(), committed.len())));
        }
        if committed[idx] != *leaf {
            return Some(if committed.contains(leaf) {
                (
                    "C09/stm-batch-path:leaf-at-wrong-position",
                    format!("committed leaf {} accepted at position {idx}, where {} is committed", leaf.hex(), committed[idx].hex()),
                )
            } else {
                (
                    "C09/stm-batch-path:non-member-leaf-accepted",
                    format!("leaf {} is not committed but was accepted at position {idx}", leaf.hex()),
                )
            });
        }
    }
    None
}

/// evaluate one case against a commitment; `label` says how the case was made
pub fn eval_case<'a>(rep: &mut Report, w: &World, case: &Case, label: impl Into<Label<'a>>, count_distinct: bool) -> Verdict {
    eval_case_against(rep, &w.committed, &w.commitment, case, label, count_distinct)
}

pub fn eval_case_against<'a>(
    rep: &mut Report,
    committed: &[BLeaf],
    commitment: &Commitment,
    case: &Case,
    label: impl Into<Label<'a>>,
    count_distinct: bool,
) -> Verdict {
    let label: Label = label.into();
    rep.eval();
    let v = run_verify(commitment, case);
    match v {
        Verdict::Accepted => {
            rep.outcome("stm:accepted");
            rep.nontrivial(&("stm", committed, case));
            if let Some((key, why)) = false_statement(committed, case) {
                violation(rep, key, || {
                    (
                        format!(
                            "STM batch path verified although it states something false about the committed list ({why}); case made by: {label}; committed = {:?}",
                            committed.iter().map(|l| l.hex()).collect::<Vec<_>>()
                        ),
                        json!({"part": "stm", "committed": committed.iter().map(|l| l.hex()).collect::<Vec<_>>(), "case": case.to_json(), "made_by": label.to_string()}),
                    )
                });
            } else if !label.is_honest() && committed.len() == 5 && rep.extras.get("stm_sample_accepted_mutant").is_none() {
                rep.extra("stm_sample_accepted_mutant", json!({"made_by": label.to_string(), "n": committed.len(), "case": case.to_json()}));
            }
        }
        Verdict::Rejected => {
            rep.outcome("stm:rejected");
            if !label.is_honest() && committed.len() == 5 && rep.extras.get("stm_sample_rejected_mutant").is_none() {
                rep.extra("stm_sample_rejected_mutant", json!({"made_by": label.to_string(), "n": committed.len(), "case": case.to_json()}));
            }
            if count_distinct {
                rep.nontrivial(&("stm", committed, case));
            }
        }
        Verdict::Panicked => {
            rep.outcome("stm:panicked(=not accepted)");
            rep.add_extra("panics_observed", 1);
            if count_distinct {
                rep.nontrivial(&("stm", committed, case));
            }
        }
    }
    v
}

fn subset_indices(mask: u32, n: usize) -> Vec<usize> {
    (0..n).filter(|i| mask >> i & 1 == 1).collect()
}

/// honest proof for a subset, produced by the real code
pub fn honest_case(w: &World, idx: &[usize]) -> Case {
    let path = w.tree.compute_merkle_tree_batch_path(idx.to_vec());
    Case { leaves: idx.iter().map(|&i| w.committed[i]).collect(), indices: path.indices.clone(), values: path.values.clone() }
}

pub fn try_honest_case(w: &World, idx: &[usize]) -> Option<Case> {
    catch(|| honest_case(w, idx)).ok()
}

fn cannot_build(rep: &mut Report, n: usize, e: &str, part: &str) {
    // completeness is part of C09: a list that cannot be committed has no verifying proof
    rep.eval();
    violation(rep, "C09/stm-batch-path:honest-proof-rejected", || (format!("the registration tree of {n} leaves cannot be built: {e}"), json!({"part": part, "n": n})));
}

/// completeness: every non-empty subset of every tree size (also through the byte codec)
pub fn honest_sweep(n: usize) -> Report {
    let mut rep = Report::new("exploration", "");
    let w = match World::try_members(n) {
        Ok(w) => w,
        Err(e) => {
            cannot_build(&mut rep, n, &e, "stm-honest");
            return rep;
        }
    };
    for mask in 1u32..(1u32 << n) {
        let idx = subset_indices(mask, n);
        let case = match catch(|| honest_case(&w, &idx)) {
            Ok(c) => c,
            Err(p) => {
                rep.eval();
                rep.violation(
                    "C09/stm-batch-path:proof-generation-panics",
                    format!("compute_merkle_tree_batch_path panicked for n={n} indices={idx:?}: {p}"),
                    json!({"part": "stm-honest", "n": n, "indices": idx}),
                );
                continue;
            }
        };
        let v = eval_case(&mut rep, &w, &case, "honest", true);
        if v != Verdict::Accepted {
            rep.violation(
                "C09/stm-batch-path:honest-proof-rejected",
                format!("the batch path generated for n={n} indices={idx:?} does not verify ({v:?})"),
                json!({"part": "stm-honest", "n": n, "indices": idx}),
            );
        }
        if case.indices != idx {
            rep.violation(
                "C09/stm-batch-path:honest-proof-states-other-positions",
                format!("the batch path generated for n={n} indices={idx:?} states positions {:?}", case.indices),
                json!({"part": "stm-honest", "n": n, "indices": idx}),
            );
        }
        // the proof as it travels: bytes and back
        let path = MerkleBatchPath::<H>::new(case.values.clone(), case.indices.clone());
        let back = path.to_bytes().and_then(|b| MerkleBatchPath::<H>::from_bytes(&b));
        match back {
            Ok(p2) if p2.values == path.values && p2.indices == path.indices => {}
            other => rep.violation(
                "C09/stm-batch-path:byte-round-trip-changes-proof",
                format!("batch path for n={n} indices={idx:?} does not survive to_bytes/from_bytes: {:?}", other.map(|p| p.indices)),
                json!({"part": "stm-honest", "n": n, "indices": idx}),
            ),
        }
        // legacy layout (still accepted by from_bytes): lengths, values, indices, all big endian
        if !case.values.is_empty() || !case.indices.is_empty() {
            let mut legacy = vec![];
            legacy.extend_from_slice(&(case.values.len() as u64).to_be_bytes());
            legacy.extend_from_slice(&(case.indices.len() as u64).to_be_bytes());
            for v in &case.values {
                legacy.extend_from_slice(v);
            }
            for i in &case.indices {
                legacy.extend_from_slice(&(*i as u64).to_be_bytes());
            }
            if legacy[0] != 1 {
                match MerkleBatchPath::<H>::from_bytes(&legacy) {
                    Ok(p2) if p2.values == path.values && p2.indices == path.indices => {}
                    other => rep.violation(
                        "C09/stm-batch-path:legacy-bytes-decode-to-other-proof",
                        format!("legacy encoding of the batch path for n={n} indices={idx:?} decodes to {:?}", other.map(|p| p.indices)),
                        json!({"part": "stm-honest", "n": n, "indices": idx}),
                    ),
                }
            }
        }
        if n == 5 && idx == [1, 3] {
            rep.sample(json!({"part": "stm", "kind": "honest batch path", "n": n, "case": case.to_json()}));
        }
    }
    rep
}

/// material the mutations draw from
pub struct Material {
    pub leaf_alphabet: Vec<(String, BLeaf)>,
    pub value_alphabet: Vec<(String, Vec<u8>)>,
    pub index_alphabet: Vec<usize>,
}

pub fn material(w: &World) -> Material {
    let n = w.n();
    let z = H::digest([0u8]).to_vec();
    let mut leaf_alphabet: Vec<(String, BLeaf)> = vec![];
    for i in 0..n {
        leaf_alphabet.push((format!("member{i}"), w.committed[i]));
    }
    leaf_alphabet.push(("outsider".into(), outsider()));
    leaf_alphabet.push(("padding-preimage".into(), padding_preimage()));
    // byte strings that hash to an internal node (children concatenated)
    let internal = w.nodes.len().saturating_sub(n);
    for i in 0..internal {
        let l = w.nodes.get(2 * i + 1).cloned().unwrap_or_else(|| z.clone());
        let r = w.nodes.get(2 * i + 2).cloned().unwrap_or_else(|| z.clone());
        let mut b = l;
        b.extend_from_slice(&r);
        leaf_alphabet.push((format!("preimage-of-node{i}"), BLeaf::new(&b)));
    }
    let mut value_alphabet: Vec<(String, Vec<u8>)> = vec![];
    for (i, nd) in w.nodes.iter().enumerate() {
        value_alphabet.push((format!("node{i}"), nd.clone()));
    }
    value_alphabet.push(("padding".into(), z));
    value_alphabet.push(("hash-of-outsider".into(), H::digest(outsider().as_slice()).to_vec()));
    value_alphabet.push(("empty".into(), vec![]));
    let p2 = n.next_power_of_two();
    let mut index_alphabet: Vec<usize> = (0..=(2 * p2 + 2)).collect();
    index_alphabet.extend([usize::MAX - 2 * p2, usize::MAX - p2, usize::MAX - 1, usize::MAX]);
    Material { leaf_alphabet, value_alphabet, index_alphabet }
}

/// every single structural mutation of a case
pub fn mutations(c: &Case, m: &Material) -> Vec<(String, Case)> {
    let mut out: Vec<(String, Case)> = vec![];
    let mut push = |label: String, case: Case| {
        if case != *c {
            out.push((label, case));
        }
    };
    let k = c.leaves.len().min(c.indices.len());
    // leaves
    for j in 0..c.leaves.len() {
        for (name, l) in &m.leaf_alphabet {
            let mut x = c.clone();
            x.leaves[j] = *l;
            push(format!("leaf[{j}]:={name}"), x);
        }
        let mut x = c.clone();
        x.leaves.remove(j);
        push(format!("leaf[{j}] dropped"), x);
        let mut x = c.clone();
        x.leaves.insert(j, c.leaves[j]);
        push(format!("leaf[{j}] duplicated"), x);
    }
    for (name, l) in &m.leaf_alphabet {
        let mut x = c.clone();
        x.leaves.push(*l);
        push(format!("leaf appended:={name}"), x);
    }
    // positions
    for j in 0..c.indices.len() {
        for &i in &m.index_alphabet {
            let mut x = c.clone();
            x.indices[j] = i;
            push(format!("index[{j}]:={i}"), x);
        }
        let mut x = c.clone();
        x.indices.remove(j);
        push(format!("index[{j}] dropped"), x);
        let mut x = c.clone();
        x.indices.insert(j, c.indices[j]);
        push(format!("index[{j}] duplicated"), x);
    }
    for &i in &m.index_alphabet {
        let mut x = c.clone();
        x.indices.push(i);
        push(format!("index appended:={i}"), x);
    }
    // whole claims (leaf and position together)
    for j in 0..k {
        let mut x = c.clone();
        x.leaves.remove(j);
        x.indices.remove(j);
        push(format!("claim[{j}] dropped"), x);
        let mut x = c.clone();
        x.leaves.insert(j, c.leaves[j]);
        x.indices.insert(j, c.indices[j]);
        push(format!("claim[{j}] duplicated"), x);
        if j + 1 < k {
            let mut x = c.clone();
            x.leaves.swap(j, j + 1);
            x.indices.swap(j, j + 1);
            push(format!("claims[{j},{}] swapped", j + 1), x);
            let mut x = c.clone();
            x.indices.swap(j, j + 1);
            push(format!("indices[{j},{}] swapped", j + 1), x);
            let mut x = c.clone();
            x.leaves.swap(j, j + 1);
            push(format!("leaves[{j},{}] swapped", j + 1), x);
        }
    }
    if k >= 2 {
        let mut x = c.clone();
        x.leaves.reverse();
        x.indices.reverse();
        push("claims reversed".into(), x);
    }
    // path nodes
    for v in 0..c.values.len() {
        let mut x = c.clone();
        x.values.remove(v);
        push(format!("value[{v}] dropped"), x);
        let mut x = c.clone();
        x.values.insert(v, c.values[v].clone());
        push(format!("value[{v}] duplicated"), x);
        if v + 1 < c.values.len() {
            let mut x = c.clone();
            x.values.swap(v, v + 1);
            push(format!("values[{v},{}] swapped", v + 1), x);
        }
        for (name, val) in &m.value_alphabet {
            let mut x = c.clone();
            x.values[v] = val.clone();
            push(format!("value[{v}]:={name}"), x);
        }
        if !c.values[v].is_empty() {
            let mut x = c.clone();
            x.values[v][0] ^= 1;
            push(format!("value[{v}] bit flipped"), x);
        }
    }
    for (name, val) in &m.value_alphabet {
        let mut x = c.clone();
        x.values.push(val.clone());
        push(format!("value appended:={name}"), x);
        let mut x = c.clone();
        x.values.insert(0, val.clone());
        push(format!("value prepended:={name}"), x);
    }
    out
}

/// all single (depth 1) or single and paired (depth 2) mutations of every honest proof of a tree of n leaves
pub fn mutation_sweep(n: usize, mask: u32, depth: usize, chunk: usize, chunks: usize) -> Report {
    let mut rep = Report::new("exploration", "");
    let Ok(w) = World::try_members(n) else { return rep }; // reported by the honest sweep
    let m = material(&w);
    let idx = subset_indices(mask, n);
    let Some(honest) = try_honest_case(&w, &idx) else { return rep };
    let singles = mutations(&honest, &m);
    for (i, (label, case)) in singles.iter().enumerate() {
        if i % chunks != chunk {
            continue;
        }
        rep.add_extra("stm_single_mutants", 1);
        eval_case(&mut rep, &w, case, label, true);
        if depth >= 2 {
            let pairs = mutations(case, &m);
            rep.add_extra("stm_paired_mutants", pairs.len() as u64);
            for (label2, case2) in &pairs {
                eval_case(&mut rep, &w, case2, Label(label, label2), false);
            }
        }
    }
    rep
}

/// honest proofs of list A put before the commitment of a neighbouring list B ("root altered")
pub fn cross_commitment_sweep(n: usize) -> Report {
    let mut rep = Report::new("exploration", "");
    let Ok(a) = World::try_members(n) else { return rep }; // reported by the honest sweep
    let mut neighbours: Vec<(String, Vec<BLeaf>)> = vec![];
    for j in 0..n {
        let mut b = a.committed.clone();
        b[j] = outsider();
        neighbours.push((format!("leaf {j} replaced"), b));
        let mut b = a.committed.clone();
        b[j] = padding_preimage();
        neighbours.push((format!("leaf {j} replaced by padding preimage"), b));
        if j + 1 < n {
            let mut b = a.committed.clone();
            b.swap(j, j + 1);
            neighbours.push((format!("leaves {j},{} swapped", j + 1), b));
        }
    }
    let mut b = a.committed.clone();
    b.push(member(n));
    neighbours.push(("one more leaf".into(), b));
    let mut b = a.committed.clone();
    b.push(padding_preimage());
    neighbours.push(("one more leaf, the padding preimage".into(), b));
    if n > 1 {
        let mut b = a.committed.clone();
        b.pop();
        neighbours.push(("last leaf removed".into(), b));
    }
    for (what, b) in neighbours {
        let Ok(wb) = World::try_new(b) else { continue };
        for mask in 1u32..(1u32 << n) {
            let idx = subset_indices(mask, n);
            let Some(case) = try_honest_case(&a, &idx) else { continue };
            eval_case_against(&mut rep, &wb.committed, &wb.commitment, &case, Label("honest proof of the list before:", &what), true);
        }
    }
    rep
}

pub fn replay(rep: &mut Report, v: &Value) {
    if v["part"] == "stm-large" {
        rep.merge(large_size_sweep(v["n"].as_u64().unwrap_or(17) as usize, false));
        return;
    }
    if v["part"] == "stm-root" {
        rep.merge(root_commitment_sweep(v["n"].as_u64().unwrap_or(1) as usize));
        return;
    }
    if v["part"] == "stm-honest" {
        let n = v["n"].as_u64().unwrap_or(1) as usize;
        rep.merge(honest_sweep(n));
        return;
    }
    let committed: Vec<BLeaf> = v["committed"].as_array().map(|a| a.iter().map(|s| BLeaf::from_hex(s.as_str().unwrap_or(""))).collect()).unwrap_or_default();
    let case = Case::from_json(&v["case"]);
    let w = World::new(committed);
    let verdict = eval_case(rep, &w, &case, v["made_by"].as_str().unwrap_or("replay"), true);
    eprintln!("replay (stm): verdict {verdict:?}");
}

// ---- designed forgeries ----------------------------------------------------------------------

/// The path values a forger would supply for a set of claimed positions (which may lie outside the
/// tree): wherever the verifier's walk over heap indices wants a sibling that is not itself claimed,
/// give the real node at that heap position, or the padding hash where the real tree has no node.
/// This only walks heap indices (it hashes nothing): it is a generator of candidates, not the oracle.
pub fn forger_range(n: usize) -> usize {
    4 * n.next_power_of_two() + 2
}

pub fn forger_values(w: &World, virtual_nodes: &[(usize, Vec<u8>)], indices: &[usize]) -> Vec<Vec<u8>> {
    let z = H::digest([0u8]).to_vec();
    let p2 = w.n().next_power_of_two();
    let node_at = |p: usize| -> Vec<u8> {
        if let Some(nd) = w.nodes.get(p) {
            return nd.clone();
        }
        virtual_nodes.iter().find(|(q, _)| *q == p).map(|(_, v)| v.clone()).unwrap_or_else(|| z.clone())
    };
    let mut cur: Vec<usize> = indices.iter().map(|i| i + p2 - 1).collect();
    let mut values = vec![];
    let mut guard = 0;
    while cur.first().copied().unwrap_or(0) > 0 && guard < 70 {
        guard += 1;
        let mut next = vec![];
        let mut i = 0;
        while i < cur.len() {
            let p = cur[i];
            if p == 0 {
                next.push(0);
                i += 1;
                continue;
            }
            next.push((p - 1) / 2);
            if p % 2 == 0 {
                values.push(node_at(p - 1));
            } else if i + 1 < cur.len() && cur[i + 1] == p + 1 {
                i += 1;
            } else if p + 1 < w.nodes.len() {
                values.push(node_at(p + 1));
            }
            i += 1;
        }
        cur = next;
    }
    values
}

/// every multiset of at most `max_claims` positions of the extended range (inside the tree, in the padding
/// area, one level below the leaves), every assignment of alphabet leaves to them, with the forger's path
pub fn forger_sweep(n: usize, max_claims: usize, node_like: bool, first: usize) -> Report {
    let mut rep = Report::new("exploration", "");
    let mut committed: Vec<BLeaf> = (0..n).map(member).collect();
    let mut virtual_nodes: Vec<(usize, Vec<u8>)> = vec![];
    let p2 = n.next_power_of_two();
    let (inner_a, inner_b) = (BLeaf::new(b"inner-a"), BLeaf::new(b"inner-b"));
    if node_like {
        // a committed leaf whose bytes look like an inner node: H(a) ‖ H(b)
        let j = n - 1;
        let mut b = H::digest(inner_a.as_slice()).to_vec();
        b.extend_from_slice(&H::digest(inner_b.as_slice()));
        committed[j] = BLeaf::new(&b);
        let heap = j + p2 - 1;
        virtual_nodes.push((2 * heap + 1, H::digest(inner_a.as_slice()).to_vec()));
        virtual_nodes.push((2 * heap + 2, H::digest(inner_b.as_slice()).to_vec()));
    }
    let Ok(w) = World::try_new(committed) else { return rep };
    if !w.nodes_ok() {
        rep.add_extra("designed_forgery_families_skipped_without_reference_structure", 1);
        return rep;
    }
    let range = forger_range(n);
    let mut sets: Vec<Vec<usize>> = vec![];
    fn rec(start: usize, range: usize, left: usize, cur: &mut Vec<usize>, out: &mut Vec<Vec<usize>>) {
        if !cur.is_empty() {
            out.push(cur.clone());
        }
        if left == 0 {
            return;
        }
        for i in start..range {
            cur.push(i);
            // positions may repeat: a claim list that states the same position twice is a proof object too
            rec(i, range, left - 1, cur, out);
            cur.pop();
        }
    }
    if first < range {
        // all position sets whose smallest position is `first`
        rec(first, range, max_claims - 1, &mut vec![first], &mut sets);
    }
    for idx in sets {
        let values = forger_values(&w, &virtual_nodes, &idx);
        // per position: the committed leaf (if any), another member, an outsider, the padding preimage,
        // and the pre-images hidden in the node-like leaf
        let options: Vec<Vec<BLeaf>> = idx
            .iter()
            .map(|&i| {
                let mut o = vec![];
                if i < w.n() {
                    o.push(w.committed[i]);
                }
                o.push(if i == 0 && w.n() > 1 { w.committed[1] } else { w.committed[0] });
                o.push(outsider());
                o.push(padding_preimage());
                if node_like {
                    o.push(inner_a);
                    o.push(inner_b);
                }
                o
            })
            .collect();
        let mut choice = vec![0usize; idx.len()];
        loop {
            let case = Case { leaves: choice.iter().enumerate().map(|(p, &c)| options[p][c]).collect(), indices: idx.clone(), values: values.clone() };
            // completeness is only owed to claim lists the generator itself would produce: distinct positions
            let all_true = false_statement(&w.committed, &case).is_none() && idx.windows(2).all(|p| p[0] < p[1]);
            let v = eval_case(&mut rep, &w, &case, if node_like { "forger's path, node-like committed leaf" } else { "forger's path" }, idx.len() <= 2);
            if all_true && v != Verdict::Accepted {
                // the forger's path for true claims inside the tree is the honest path
                rep.violation(
                    "C09/stm-batch-path:true-claims-with-real-siblings-rejected",
                    format!("true claims {:?} with the real sibling nodes as path do not verify ({v:?}), n={}", case.indices, w.n()),
                    json!({"part": "stm", "committed": w.committed.iter().map(|l| l.hex()).collect::<Vec<_>>(), "case": case.to_json(), "made_by": "forger's path (true claims)"}),
                );
            }
            // next assignment
            let mut p = 0;
            loop {
                if p == choice.len() {
                    break;
                }
                choice[p] += 1;
                if choice[p] < options[p].len() {
                    break;
                }
                choice[p] = 0;
                p += 1;
            }
            if p == choice.len() {
                break;
            }
        }
    }
    rep
}

/// generator-free brute force for one claimed leaf: every position of the extended range, every
/// alphabet leaf, every sequence of alphabet values up to one more than the tree depth
pub fn brute_force_single_claim(n: usize, index: usize) -> Report {
    let mut rep = Report::new("exploration", "");
    let Ok(w) = World::try_members(n) else { return rep };
    if !w.nodes_ok() {
        rep.add_extra("designed_forgery_families_skipped_without_reference_structure", 1);
        return rep;
    }
    let m = material(&w);
    let z = H::digest([0u8]).to_vec();
    let mut zz = z.clone();
    zz.extend_from_slice(&z);
    let mut alphabet: Vec<Vec<u8>> = w.nodes.clone();
    alphabet.push(z.clone());
    alphabet.push(H::digest(&zz).to_vec());
    alphabet.push(H::digest(outsider().as_slice()).to_vec());
    alphabet.sort();
    alphabet.dedup();
    let depth = n.next_power_of_two().trailing_zeros() as usize;
    let max_len = depth + 1;
    let mut seq: Vec<usize> = vec![];
    // iterate over all sequences of length 0..=max_len (odometer per length)
    for len in 0..=max_len {
        seq.clear();
        seq.resize(len, 0);
        loop {
            let values: Vec<Vec<u8>> = seq.iter().map(|&i| alphabet[i].clone()).collect();
            for (_, leaf) in &m.leaf_alphabet {
                let case = Case { leaves: vec![*leaf], indices: vec![index], values: values.clone() };
                eval_case(&mut rep, &w, &case, "brute force over (position, leaf, path values)", false);
            }
            let mut p = 0;
            while p < len {
                seq[p] += 1;
                if seq[p] < alphabet.len() {
                    break;
                }
                seq[p] = 0;
                p += 1;
            }
            if p == len {
                break;
            }
        }
    }
    rep
}

/// index subsets used for the larger, not exhaustively covered sizes: every singleton, every adjacent
/// pair, every pair with the last leaf, evens, odds, both halves, everything
pub fn selected_subsets(n: usize) -> Vec<Vec<usize>> {
    let mut out: Vec<Vec<usize>> = vec![];
    for i in 0..n {
        out.push(vec![i]);
        if i + 1 < n {
            out.push(vec![i, i + 1]);
            if i + 2 < n {
                out.push(vec![i, n - 1]);
            }
        }
    }
    out.push((0..n).collect());
    out.push((0..n).step_by(2).collect());
    out.push((1..n).step_by(2).collect());
    out.push((0..n / 2).collect());
    out.push((n / 2..n).collect());
    out.retain(|s| !s.is_empty());
    out.sort();
    out.dedup();
    out
}

/// larger sizes: selected subsets, honest proof plus the single mutations of it
pub fn large_size_sweep(n: usize, mutate: bool) -> Report {
    let mut rep = Report::new("exploration", "");
    let w = match World::try_members(n) {
        Ok(w) => w,
        Err(e) => {
            cannot_build(&mut rep, n, &e, "stm-large");
            return rep;
        }
    };
    let m = material(&w);
    for idx in selected_subsets(n) {
        let Some(case) = try_honest_case(&w, &idx) else {
            rep.eval();
            violation(&mut rep, "C09/stm-batch-path:proof-generation-panics", || (format!("compute_merkle_tree_batch_path panicked for n={n} indices={idx:?}"), json!({"part": "stm-large", "n": n})));
            continue;
        };
        let v = eval_case(&mut rep, &w, &case, "honest", true);
        if v != Verdict::Accepted {
            violation(&mut rep, "C09/stm-batch-path:honest-proof-rejected", || {
                (format!("the batch path generated for n={n} indices={idx:?} does not verify ({v:?})"), json!({"part": "stm-large", "n": n}))
            });
        }
        if mutate && idx.len() <= 2 {
            for (label, c) in mutations(&case, &m) {
                eval_case(&mut rep, &w, &c, &label, true);
            }
        }
    }
    // the forger's path for one or two claims around the end of the tree
    let p2 = n.next_power_of_two();
    let mut positions: Vec<usize> = vec![0, n - 1, n, n + 1, p2 - 1, p2, p2 + 1, 2 * p2 - 1, 2 * p2];
    positions.sort();
    positions.dedup();
    for (a, &i) in positions.iter().enumerate() {
        for &j in positions[a..].iter() {
            let idx = if i == j { vec![i] } else { vec![i, j] };
            let values = forger_values(&w, &[], &idx);
            for leaf_choice in 0..3usize.pow(idx.len() as u32) {
                let leaves: Vec<BLeaf> = idx
                    .iter()
                    .enumerate()
                    .map(|(p, &pos)| match (leaf_choice / 3usize.pow(p as u32)) % 3 {
                        0 => w.committed.get(pos).copied().unwrap_or_else(outsider),
                        1 => padding_preimage(),
                        _ => w.committed[(pos + 1) % n],
                    })
                    .collect();
                let case = Case { leaves, indices: idx.clone(), values: values.clone() };
                eval_case(&mut rep, &w, &case, "forger's path", true);
            }
        }
    }
    rep
}

/// Structure-independent soundness, through the real code only: the commitment binds every leaf.
/// For every position j the trees over L and over L' (leaf j replaced by a value used nowhere else) must
/// have different roots; if they are equal, the batch path the real code generates for L'_j from
/// tree(L') is put before the commitment of L and, when it verifies, reported.
pub fn root_commitment_sweep(n: usize) -> Report {
    let mut rep = Report::new("exploration", "");
    let Ok(w) = World::try_members(n) else { return rep }; // reported by the honest / large-size sweep
    for j in 0..n {
        rep.eval();
        rep.nontrivial(&("stm-root-commits", n, j));
        let mut l2 = w.committed.clone();
        l2[j] = BLeaf::new(&[0x4e, (j >> 8) as u8, j as u8, 0x5a]);
        let Ok(w2) = World::try_new(l2.clone()) else {
            rep.outcome("stm-tree:root-commitment:variant-cannot-be-built");
            continue;
        };
        if w2.commitment.root != w.commitment.root {
            rep.outcome("stm-tree:root-differs-when-a-leaf-is-replaced");
            continue;
        }
        rep.outcome("stm-tree:root-unchanged-when-a-leaf-is-replaced");
        let confirmed = try_honest_case(&w2, &[j]).map(|case| run_verify(&w.commitment, &case) == Verdict::Accepted).unwrap_or(false);
        if confirmed {
            violation(&mut rep, "C09/stm-tree:root-does-not-commit-to-leaf", || {
                (
                    format!(
                        "registration tree of {n} leaves: replacing leaf #{j} by {} leaves the root unchanged, and the batch path generated for the replacement verifies against the commitment of the original list, which does not contain it",
                        l2[j].hex()
                    ),
                    json!({"part": "stm-root", "n": n, "j": j, "leaves": w.committed.iter().map(|l| l.hex()).collect::<Vec<_>>(), "leaves_replaced": l2.iter().map(|l| l.hex()).collect::<Vec<_>>()}),
                )
            });
        } else {
            rep.outcome("stm-tree:root-unchanged-but-replacement-not-provable");
        }
    }
    rep
}
