//! C09 — Merkle membership proofs cannot vouch for anything outside the committed set.
//!
//! Bounded exhaustive enumeration on the real code of three structures:
//!  1. the STM signer-registration tree (source-included, byte-string leaves)          → c09_stm.rs
//!  2. the generic `MKTree` / `MKProof`                                                → c09_mk.rs
//!  3. the nested `MKMap` / `MKMapProof` and `MkSetProof` on top of it                  → c09_map.rs
//!
//! Oracle everywhere: honest proofs verify; a proof that verifies against the commitment states
//! only true things about the committed list(s).  Never "a mutant must be rejected".

use mc_core::{Ctx, Report, par_map};
use serde_json::json;

use crate::c09_agg as agg;
use crate::c09_map as map;
use crate::c09_mk as mk;
use crate::c09_stm as stm;

/// jobs are listed largest-first (load balance); merging in reverse keeps the smallest
/// counterexample of every classifier key
fn merge_rev(rep: &mut Report, parts: Vec<Report>) {
    for p in parts.into_iter().rev() {
        rep.merge(p);
    }
}

pub fn run(ctx: &Ctx) -> ! {
    let mut rep = Report::new(
        "exploration",
        "TODO",
    );
    if let Some(path) = &ctx.replay {
        let v = mc_core::load_replay(path);
        match v["part"].as_str().unwrap_or("") {
            "stm" | "stm-honest" => stm::replay(&mut rep, &v),
            "stm-aggregate" | "stm-aggregate-honest" => agg::replay(&mut rep, &v),
            "mkproof" | "mkproof-honest" => mk::replay(&mut rep, &v),
            "mkmap" | "mkmap-honest" => map::replay(&mut rep, &v),
            other => {
                eprintln!("unknown replay part {other}");
                std::process::exit(2);
            }
        }
        rep.nontrivial(&0);
        rep.nontrivial(&1);
        rep.finish(ctx);
    }
    let threads = ctx.threads();

    // ---- part 1: STM tree ------------------------------------------------------------------
    let (stm_n_honest, stm_n_single, stm_n_pairs) = ctx.tier.pick((10usize, 6usize, 0usize), (16, 8, 5));
    rep.extra("stm_bounds", json!({"honest_all_subsets_up_to_n": stm_n_honest, "single_mutations_up_to_n": stm_n_single, "paired_mutations_up_to_n": stm_n_pairs}));
    // honest: split the big sizes so that threads share the work
    let sizes: Vec<usize> = (1..=stm_n_honest).rev().collect();
    merge_rev(&mut rep, par_map(&sizes, threads, |_, &n| stm::honest_sweep(n)));
    let mut jobs: Vec<(usize, u32, usize)> = vec![];
    for n in (1..=stm_n_single).rev() {
        for mask in 1u32..(1u32 << n) {
            jobs.push((n, mask, if n <= stm_n_pairs { 2 } else { 1 }));
        }
    }
    jobs.sort_by_key(|j| std::cmp::Reverse(j.2));
    merge_rev(&mut rep, par_map(&jobs, threads, |_, &(n, mask, depth)| stm::mutation_sweep(n, mask, depth)));
    let sizes: Vec<usize> = (1..=stm_n_single).rev().collect();
    merge_rev(&mut rep, par_map(&sizes, threads, |_, &n| stm::cross_commitment_sweep(n)));
    // designed forgeries: claims anywhere in the extended position range with the forger's best path
    let (forge_n, forge_claims, brute_n) = ctx.tier.pick((10usize, 2usize, 3usize), (16, 3, 5));
    rep.extra("stm_forger_bounds", json!({"up_to_n": forge_n, "max_claims": forge_claims, "brute_force_single_claim_up_to_n": brute_n}));
    let mut jobs: Vec<(usize, bool)> = vec![];
    for n in (1..=forge_n).rev() {
        jobs.push((n, true));
    }
    for n in (1..=forge_n).rev() {
        jobs.push((n, false));
    }
    merge_rev(&mut rep, par_map(&jobs, threads, |_, &(n, node_like)| stm::forger_sweep(n, if n <= 4 { forge_claims + 1 } else if n <= 8 { forge_claims } else { 2 }, node_like)));
    let mut jobs: Vec<(usize, usize)> = vec![];
    for n in (1..=brute_n).rev() {
        for index in 0..(2 * n.next_power_of_two() + 2) {
            jobs.push((n, index));
        }
    }
    merge_rev(&mut rep, par_map(&jobs, threads, |_, &(n, index)| stm::brute_force_single_claim(n, index)));
    eprintln!("[C09] part 1 (STM tree, source-included) done at {:.1}s", ctx.elapsed_s());
    // ---- part 1b: the same tree through registration → clerk → AggregateSignature::verify ----
    let (agg_n, agg_pairs_n) = ctx.tier.pick((3usize, 0usize), (4, 2));
    rep.extra("stm_aggregate_bounds", json!({"registrations_up_to_parties": agg_n, "all_signer_subsets": true, "paired_mutations_up_to_parties": agg_pairs_n}));
    let mut jobs: Vec<(usize, u32)> = vec![];
    for n in (1..=agg_n).rev() {
        for mask in (1u32..(1u32 << n)).rev() {
            jobs.push((n, mask));
        }
    }
    jobs.sort_by_key(|j| std::cmp::Reverse(if j.0 <= agg_pairs_n { 1 } else { 0 }));
    merge_rev(&mut rep, par_map(&jobs, threads, |_, &(n, mask)| agg::sweep_one(n, mask, if n <= agg_pairs_n { 2 } else { 1 })));

    eprintln!("[C09] part 1b (aggregate signature seam) done at {:.1}s", ctx.elapsed_s());
    // ---- part 2: MKTree / MKProof -----------------------------------------------------------
    let (mk_n_honest, mk_n_single, mk_n_pairs, mk_n_frontier) = ctx.tier.pick((10usize, 6usize, 0usize, 8usize), (16, 8, 4, 12));
    rep.extra("mkproof_bounds", json!({"honest_all_subsets_up_to_n": mk_n_honest, "single_mutations_up_to_n": mk_n_single, "paired_mutations_up_to_n": mk_n_pairs, "frontier_forgeries_up_to_n": mk_n_frontier}));
    let sizes: Vec<usize> = (1..=mk_n_honest).rev().collect();
    merge_rev(&mut rep, par_map(&sizes, threads, |_, &n| mk::honest_sweep(n)));
    let mut jobs: Vec<(usize, u32, usize)> = vec![];
    for n in (1..=mk_n_single).rev() {
        for mask in 1u32..(1u32 << n) {
            jobs.push((n, mask, if n <= mk_n_pairs { 2 } else { 1 }));
        }
    }
    jobs.sort_by_key(|j| std::cmp::Reverse(j.2));
    merge_rev(&mut rep, par_map(&jobs, threads, |_, &(n, mask, depth)| mk::mutation_sweep(n, mask, depth)));
    let sizes: Vec<usize> = (1..=mk_n_frontier).rev().collect();
    merge_rev(&mut rep, par_map(&sizes, threads, |_, &n| mk::frontier_sweep(n)));
    let sizes: Vec<usize> = (1..=mk_n_single).rev().collect();
    merge_rev(&mut rep, par_map(&sizes, threads, |_, &n| mk::cross_root_sweep(n)));
    eprintln!("[C09] part 2 (MKTree/MKProof) done at {:.1}s", ctx.elapsed_s());
    // ---- part 3: MKMap / MKMapProof / MkSetProof --------------------------------------------
    let (map_r, map_s, mut_total, pair_total) = ctx.tier.pick((3usize, 3usize, 4usize, 0usize), (4, 3, 6, 3));
    let mut structures: Vec<map::RefNode> = vec![];
    fn size_vectors(r: usize, s: usize) -> Vec<Vec<usize>> {
        let mut out = vec![vec![]];
        for _ in 0..r {
            let mut next = vec![];
            for v in &out {
                for x in 1..=s {
                    let mut w = v.clone();
                    w.push(x);
                    next.push(w);
                }
            }
            out = next;
        }
        out
    }
    for r in 1..=map_r {
        for sizes in size_vectors(r, map_s) {
            structures.push(map::flat(&sizes, 0, 0));
            // the same with one range stored as a bare root (not provable)
            if r >= 2 {
                for c in 0..r {
                    structures.push(map::flat(&sizes, 1 << c, 0));
                }
            }
        }
    }
    for a in size_vectors(2, 2) {
        for b in size_vectors(1, 2).into_iter().chain(size_vectors(2, 2)) {
            structures.push(map::nested(&[a.clone(), b.clone()]));
        }
    }
    structures.push(map::nested(&[vec![1], vec![1]]));
    structures.push(map::nested(&[vec![2]]));
    structures.push(map::nested(&[vec![1], vec![2], vec![1, 1]]));
    rep.extra("mkmap_bounds", json!({"flat_maps_up_to_ranges": map_r, "leaves_per_range_up_to": map_s, "structures": structures.len(), "single_mutations_up_to_total_items": mut_total, "paired_mutations_up_to_total_items": pair_total}));
    let parts = par_map(&structures, threads, |_, st| map::honest_sweep(st));
    for p in parts {
        rep.merge(p);
    }
    let mut jobs: Vec<(usize, u32, usize)> = vec![];
    for (si, st) in structures.iter().enumerate() {
        let mut items = vec![];
        st.bottom_items(true, &mut items);
        let mut all = vec![];
        st.bottom_items(false, &mut all);
        if all.len() <= mut_total && !items.is_empty() {
            for mask in 1u32..(1u32 << items.len()) {
                jobs.push((si, mask, if all.len() <= pair_total { 2 } else { 1 }));
            }
        }
    }
    rep.extra("mkmap_mutated_honest_proofs", json!(jobs.len()));
    jobs.sort_by_key(|j| std::cmp::Reverse(j.2));
    for p in par_map(&jobs, threads, |_, &(si, mask, depth)| map::mutation_sweep(&structures[si], mask, depth)) {
        rep.merge(p);
    }
    eprintln!("[C09] part 3 (MKMap/MKMapProof/MkSetProof) done at {:.1}s", ctx.elapsed_s());
    rep.finish(ctx)
}
