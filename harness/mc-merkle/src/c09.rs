//! C09 — Merkle membership proofs cannot vouch for anything outside the committed set.
//!
//! Bounded exhaustive enumeration on the real code of three structures:
//!  1.  the STM signer-registration tree (source-included, byte-string leaves)             → c09_stm.rs
//!  1b. the same tree through registration → clerk → `AggregateSignature::verify`          → c09_agg.rs
//!  2.  the generic `MKTree` / `MKProof`                                                   → c09_mk.rs
//!  3.  the nested `MKMap` / `MKMapProof` keyed by `BlockRange`, and `MkSetProof`          → c09_map.rs
//!
//! Oracle everywhere: honest proofs verify; a proof that verifies against the commitment states
//! only true things about the committed list(s).  Never "a mutant must be rejected".

use mc_core::{Ctx, Report, par_map};
use serde_json::json;

use crate::c09_agg as agg;
use crate::c09_map as map;
use crate::c09_mk as mk;
use crate::c09_stm as stm;

/// jobs are listed largest-first (load balance); merging in reverse keeps the smallest
/// counterexample of every classifier key
fn merge_rev(rep: &mut Report, parts: Vec<Report>) {
    for p in parts.into_iter().rev() {
        rep.merge(p);
    }
}

/// depth-2 jobs are cut into this many chunks of the depth-1 mutant list (load balance only)
const CHUNKS: usize = 8;

/// merge per-job reports in ascending order of a size key, whatever order the jobs ran in
fn merge_by_size<K: Ord + Copy>(rep: &mut Report, keys: Vec<K>, parts: Vec<Report>) {
    let mut both: Vec<(K, Report)> = keys.into_iter().zip(parts).collect();
    both.sort_by_key(|b| b.0);
    for (_, p) in both {
        rep.merge(p);
    }
}

/// (n, subset mask, depth, chunk, chunks)
fn subsets_jobs(max_n: usize, pairs_n: usize) -> Vec<(usize, u32, usize, usize, usize)> {
    let mut jobs = vec![];
    for n in (1..=max_n).rev() {
        for mask in (1u32..(1u32 << n)).rev() {
            if n <= pairs_n {
                for c in (0..CHUNKS).rev() {
                    jobs.push((n, mask, 2, c, CHUNKS));
                }
            } else {
                jobs.push((n, mask, 1, 0, 1));
            }
        }
    }
    // the expensive depth-2 jobs first (stable: sizes stay largest-first inside each class)
    jobs.sort_by_key(|j| std::cmp::Reverse(j.2));
    jobs
}

/// sizes beyond the exhaustive bound (largest first): around powers of two and a few odd shapes
fn large_sizes(ctx: &Ctx) -> Vec<usize> {
    let mut v: Vec<usize> = ctx.tier.pick(vec![17, 31, 32, 33, 40, 64, 100], vec![17, 20, 24, 31, 32, 33, 40, 47, 63, 64, 65, 100, 127, 128, 129, 200, 255, 256, 257]);
    v.reverse();
    v
}

fn part_stm(ctx: &Ctx, rep: &mut Report) {
    let threads = ctx.threads();
    let (n_honest, n_single, n_pairs) = ctx.tier.pick((12usize, 7usize, 0usize), (16, 8, 5));
    let sizes: Vec<usize> = (1..=n_honest).rev().collect();
    merge_rev(rep, par_map(&sizes, threads, |_, &n| stm::honest_sweep(n)));
    let jobs = subsets_jobs(n_single, n_pairs);
    let keys = jobs.iter().map(|j| (j.0, j.1, j.3)).collect();
    merge_by_size(rep, keys, par_map(&jobs, threads, |_, &(n, mask, depth, c, cs)| stm::mutation_sweep(n, mask, depth, c, cs)));
    let sizes: Vec<usize> = (1..=n_single).rev().collect();
    merge_rev(rep, par_map(&sizes, threads, |_, &n| stm::cross_commitment_sweep(n)));
    // designed forgeries: claims anywhere in the extended position range with the forger's best path
    let (forge_n, claims_small, claims_mid, brute_n) = ctx.tier.pick((12usize, 3usize, 2usize, 3usize), (16, 3, 3, 5));
    let claims_for = |n: usize| if n <= 4 { claims_small } else if n <= 8 { claims_mid } else { 2 };
    let mut jobs: Vec<(usize, bool, usize)> = vec![];
    for node_like in [true, false] {
        for n in (1..=forge_n).rev() {
            for first in (0..stm::forger_range(n)).rev() {
                jobs.push((n, node_like, first));
            }
        }
    }
    merge_rev(rep, par_map(&jobs, threads, |_, &(n, node_like, first)| stm::forger_sweep(n, claims_for(n), node_like, first)));
    let mut jobs: Vec<(usize, usize)> = vec![];
    for n in (1..=brute_n).rev() {
        for index in (0..(2 * n.next_power_of_two() + 2)).rev() {
            jobs.push((n, index));
        }
    }
    merge_rev(rep, par_map(&jobs, threads, |_, &(n, index)| stm::brute_force_single_claim(n, index)));
    // beyond the exhaustive bound: fixed larger sizes with a fixed selection of index subsets
    let large = large_sizes(ctx);
    let mutate_up_to = ctx.tier.pick(40usize, 65usize);
    merge_rev(rep, par_map(&large, threads, |_, &n| stm::large_size_sweep(n, n <= mutate_up_to)));
    // structure-independent: the commitment binds every leaf (every size of the run, every position)
    let mut all_sizes: Vec<usize> = (1..=n_honest).collect();
    all_sizes.extend(large.iter().rev());
    all_sizes.reverse();
    merge_rev(rep, par_map(&all_sizes, threads, |_, &n| stm::root_commitment_sweep(n)));
    rep.extra("stm_larger_sizes_with_selected_subsets", json!({"sizes": large, "single_mutations_of_one_and_two_leaf_proofs_up_to_n": mutate_up_to}));
    rep.extra(
        "stm_bounds",
        json!({
            "honest_every_subset_of_every_size_up_to_n": n_honest,
            "every_single_mutation_up_to_n": n_single,
            "every_pair_of_mutations_up_to_n": n_pairs,
            "forger_path_up_to_n": forge_n,
            "forger_claimed_positions": {"n<=4": claims_small, "n<=8": claims_mid, "larger": 2},
            "forger_position_range": "0 .. 4*next_pow2(n)+1 (inside the tree, the padding area, one level below the leaves), positions may repeat",
            "brute_force_single_claim_up_to_n": brute_n,
        }),
    );
}

fn part_agg(ctx: &Ctx, rep: &mut Report) {
    let (agg_n, agg_pairs_n) = ctx.tier.pick((3usize, 0usize), (4, 2));
    let mut jobs: Vec<(usize, u32)> = vec![];
    for n in (1..=agg_n).rev() {
        for mask in (1u32..(1u32 << n)).rev() {
            jobs.push((n, mask));
        }
    }
    jobs.sort_by_key(|j| std::cmp::Reverse(if j.0 <= agg_pairs_n { 1 } else { 0 }));
    let keys = jobs.clone();
    merge_by_size(rep, keys, par_map(&jobs, ctx.threads(), |_, &(n, mask)| agg::sweep_one(n, mask, if n <= agg_pairs_n { 2 } else { 1 })));
    rep.extra("stm_aggregate_bounds", json!({"registrations_up_to_parties": agg_n, "every_non_empty_signer_subset": true, "every_pair_of_mutations_up_to_parties": agg_pairs_n}));
}

fn part_mk(ctx: &Ctx, rep: &mut Report) {
    let threads = ctx.threads();
    let (n_honest, n_single, n_pairs, n_frontier) = ctx.tier.pick((12usize, 7usize, 0usize, 8usize), (16, 8, 4, 12));
    let sizes: Vec<usize> = (1..=n_honest).rev().collect();
    merge_rev(rep, par_map(&sizes, threads, |_, &n| mk::honest_sweep(n)));
    let jobs = subsets_jobs(n_single, n_pairs);
    let keys = jobs.iter().map(|j| (j.0, j.1, j.3)).collect();
    merge_by_size(rep, keys, par_map(&jobs, threads, |_, &(n, mask, depth, c, cs)| mk::mutation_sweep(n, mask, depth, c, cs)));
    let sizes: Vec<usize> = (1..=n_frontier).rev().collect();
    merge_rev(rep, par_map(&sizes, threads, |_, &n| mk::frontier_sweep(n)));
    let sizes: Vec<usize> = (1..=n_single).rev().collect();
    merge_rev(rep, par_map(&sizes, threads, |_, &n| mk::cross_root_sweep(n)));
    let large = large_sizes(ctx);
    let mutate_up_to = ctx.tier.pick(20usize, 40usize);
    merge_rev(rep, par_map(&large, threads, |_, &n| mk::large_size_sweep(n, n <= mutate_up_to)));
    let mut all_sizes: Vec<usize> = (1..=n_honest).collect();
    all_sizes.extend(large.iter().rev());
    all_sizes.reverse();
    merge_rev(rep, par_map(&all_sizes, threads, |_, &n| mk::root_commitment_sweep(n)));
    // where the harness' own description of the hash structure does not reproduce the real root
    // (never on the unchanged tree) the run goes on without the designed same-root forgeries
    let differs: Vec<usize> = all_sizes.iter().rev().copied().filter(|&n| mk::World::members(n).map(|w| !w.reference_ok).unwrap_or(false)).collect();
    rep.extra("mktree_reference_structure_differs_for_sizes", json!(differs));
    rep.extra("mkproof_larger_sizes_with_selected_subsets", json!({"sizes": large, "single_mutations_of_one_and_two_leaf_proofs_up_to_n": mutate_up_to}));
    rep.extra(
        "mkproof_bounds",
        json!({
            "honest_every_subset_of_every_size_up_to_n": n_honest,
            "every_single_mutation_up_to_n": n_single,
            "every_pair_of_mutations_up_to_n": n_pairs,
            "same_root_frontier_lists_up_to_n": n_frontier,
        }),
    );
}

fn size_vectors(r: usize, s: usize) -> Vec<Vec<usize>> {
    let mut out = vec![vec![]];
    for _ in 0..r {
        let mut next = vec![];
        for v in &out {
            for x in 1..=s {
                let mut w = v.clone();
                w.push(x);
                next.push(w);
            }
        }
        out = next;
    }
    out
}

fn part_map(ctx: &Ctx, rep: &mut Report) {
    let threads = ctx.threads();
    let (map_r, map_s, mut_total, pair_total) = ctx.tier.pick((3usize, 3usize, 4usize, 0usize), (4, 3, 6, 3));
    let mut structures: Vec<map::RefNode> = vec![];
    for r in 1..=map_r {
        for sizes in size_vectors(r, map_s) {
            structures.push(map::flat(&sizes, 0, 0));
            // the same with one range stored as a bare root (not provable)
            if r >= 2 {
                for c in 0..r {
                    structures.push(map::flat(&sizes, 1 << c, 0));
                }
            }
        }
    }
    // two levels: outer ranges holding maps of block ranges holding trees
    structures.push(map::nested(&[vec![1]]));
    structures.push(map::nested(&[vec![2]]));
    structures.push(map::nested(&[vec![1], vec![1]]));
    structures.push(map::nested(&[vec![1, 1]]));
    for a in size_vectors(2, 2) {
        for b in size_vectors(1, 2).into_iter().chain(size_vectors(2, 2)) {
            structures.push(map::nested(&[a.clone(), b.clone()]));
        }
    }
    structures.push(map::nested(&[vec![1], vec![2], vec![1, 1]]));
    // smallest structures first, so that the first counterexample kept per key is a small one
    structures.sort_by_key(|s| {
        let mut all = vec![];
        s.bottom_items(false, &mut all);
        all.len()
    });
    for p in par_map(&structures, threads, |_, st| map::honest_sweep(st)) {
        rep.merge(p);
    }
    for p in par_map(&structures, threads, |_, st| map::root_commitment_sweep(st)) {
        rep.merge(p);
    }
    let differs: Vec<String> = structures.iter().filter(|st| map::World::new((*st).clone()).map(|w| !w.reference_ok).unwrap_or(false)).map(|st| st.describe()).collect();
    rep.extra("mkmap_reference_structure_differs_for", json!({"structures": differs.len(), "first": differs.iter().take(5).collect::<Vec<_>>()}));
    let mut jobs: Vec<(usize, u32, usize, usize, usize)> = vec![];
    for (si, st) in structures.iter().enumerate().rev() {
        let mut items = vec![];
        st.bottom_items(true, &mut items);
        let mut all = vec![];
        st.bottom_items(false, &mut all);
        if all.len() <= mut_total && !items.is_empty() {
            for mask in (1u32..(1u32 << items.len())).rev() {
                // pairs: the small structures; those with a root-only range only up to two items
                if all.len() <= pair_total && (items.len() == all.len() || all.len() <= 2) {
                    for c in (0..4 * CHUNKS).rev() {
                        jobs.push((si, mask, 2, c, 4 * CHUNKS));
                    }
                } else {
                    jobs.push((si, mask, 1, 0, 1));
                }
            }
        }
    }
    jobs.sort_by_key(|j| std::cmp::Reverse(j.2));
    let mutated: std::collections::BTreeSet<(usize, u32)> = jobs.iter().map(|j| (j.0, j.1)).collect();
    let keys = jobs.iter().map(|j| (j.0, j.1, j.3)).collect();
    merge_by_size(rep, keys, par_map(&jobs, threads, |_, &(si, mask, depth, c, cs)| map::mutation_sweep(&structures[si], mask, depth, c, cs)));
    rep.extra(
        "mkmap_bounds",
        json!({
            "flat_maps_up_to_block_ranges": map_r,
            "items_per_block_range_up_to": map_s,
            "structures": structures.len(),
            "honest": "every non-empty subset of the provable items of every structure",
            "every_single_mutation_for_structures_up_to_total_items": mut_total,
            "every_pair_of_mutations_for_structures_up_to_total_items": pair_total,
            "honest_proofs_mutated": mutated.len(),
        }),
    );
}

pub fn run(ctx: &Ctx) -> ! {
    let mut rep = Report::new(
        "exploration",
        "Every tree size n up to the bound and every non-empty index subset gets its proof from the real generator \
         (STM batch path, MKProof; beyond the exhaustive bound a fixed list of larger sizes with a fixed selection of subsets — singletons, adjacent pairs, pairs with the last leaf, halves, evens/odds, all; for maps: every structure of the lattice and every non-empty subset of its items; for \
         the aggregate-signature seam: every registration size and signer subset). Each honest proof of the smaller sizes \
         is then put through every single (thorough: also every pair of) structural mutation: leaf replaced by another \
         member / a non-member / the padding pre-image / an inner-node pre-image or inner node, stated position changed to \
         every value of an extended range (incl. out of range and 2^64-1), claims dropped/duplicated/swapped, each path node \
         dropped/duplicated/swapped/replaced by every node of the tree, the padding hash, a foreign hash, size and root \
         fields changed, sub-proofs detached/duplicated/re-keyed/replaced/added, plus designed families (forger's path for \
         claims at arbitrary positions, brute force over (position, leaf, path) for tiny trees, honest proofs of other \
         lists with the same root, honest proofs against neighbouring commitments, key‖sub-root boundary shifts), and a structure-independent check that the root commits to every leaf / item / key \
         (tree over the list with one place replaced by a never-used value must have another root; if not, the proof generated \
         for the replacement is verified against the original root). Every \
         case runs through the real verifier. A case counts as non-trivial and distinct when it is an honest proof, a \
         depth-1 mutant, a designed forgery (forger's path: with at most two claimed positions), or any case (whatever depth) that the real verifier accepted; depth-2 and \
         brute-force cases that were rejected are counted in evaluations only.",
    );
    if let Some(path) = &ctx.replay {
        let v = mc_core::load_replay(path);
        match v["part"].as_str().unwrap_or("") {
            "stm" | "stm-honest" | "stm-large" | "stm-root" => stm::replay(&mut rep, &v),
            "stm-aggregate" | "stm-aggregate-honest" => agg::replay(&mut rep, &v),
            "mkproof" | "mkproof-honest" | "mkproof-large" | "mktree-root" => mk::replay(&mut rep, &v),
            "mkmap" | "mkmap-honest" | "mkmap-root" => map::replay(&mut rep, &v),
            other => {
                eprintln!("unknown replay part {other}");
                std::process::exit(2);
            }
        }
        rep.nontrivial(&0);
        rep.nontrivial(&1);
        rep.finish(ctx);
    }
    // development aid: C09_PARTS=stm,agg,mk,map runs only some parts (the run is then marked non-exhaustive)
    let only = std::env::var("C09_PARTS").ok();
    let part_on = |name: &str| only.as_ref().map(|o| o.split(',').any(|p| p == name)).unwrap_or(true);
    if only.is_some() {
        rep.exhaustive = false;
        rep.extra("parts_restricted_by_C09_PARTS", json!(only));
    }
    let parts: [(&str, &str, fn(&Ctx, &mut Report)); 4] = [
        ("stm", "STM registration tree (source-included)", part_stm),
        ("agg", "STM tree through AggregateSignature::verify", part_agg),
        ("mk", "MKTree / MKProof", part_mk),
        ("map", "MKMap / MKMapProof / MkSetProof", part_map),
    ];
    let mut timing = serde_json::Map::new();
    for (name, what, f) in parts {
        if part_on(name) {
            let t0 = ctx.elapsed_s();
            let before = rep.evaluations;
            f(ctx, &mut rep);
            eprintln!("[C09] {what}: {} cases in {:.1}s", rep.evaluations - before, ctx.elapsed_s() - t0);
            timing.insert(name.to_string(), json!({"cases": rep.evaluations - before}));
        }
    }
    rep.extra("cases_per_part", serde_json::Value::Object(timing));
    rep.assume("collision and pre-image resistance of Blake2b-256 / Blake2s-256 is not what is tested: all hashes used as mutation material are values that occur in the committed structure (or fixed foreign values)");
    rep.assume("the STM tree is compiled from the working-tree files tree.rs, commitment.rs, path.rs, leaf.rs, error.rs, mod.rs and codec.rs by source inclusion, with byte-string leaves and Blake2b-256 (the hash of the real registration tree); the real 104-byte (key, stake) leaf is covered by the aggregate-signature seam");
    rep.assume("private proof fields are reached through mirror structs converted over the real bincode byte format (MKProof/MKMapProof::from_bytes), resp. through serde_json for AggregateSignature; overflow checks are on in this build, so position arithmetic that would wrap in a release build panics here and counts as not accepted");
    rep.assume("for maps an item is 'committed' if it is a leaf of any tree of the nested structure, including map-level entries H(key‖sub-root): contains() accepting such an entry is counted (observed_map_level_entries_accepted_by_contains), not judged");
    rep.finish(ctx)
}
