//! C11 — stake distributions: Cardano stake distribution (Merkle root of `pool id ‖ stake` leaves)
//! and Mithril stake distribution (aggregate verification key recomputed from the signers).

use std::collections::BTreeMap;
use std::sync::Arc;

use async_trait::async_trait;
use mc_core::{Report, catch, hash64};
use mithril_client::{CardanoStakeDistribution, MessageBuilder, MithrilCertificate, MithrilStakeDistribution};
use mithril_common::StdResult;
use mithril_common::entities::{Epoch, ProtocolMessage, ProtocolMessagePartKey, SignedEntityType, StakeDistribution};
use mithril_common::messages::SignerWithStakeMessagePart;
use mithril_common::signable_builder::{CardanoStakeDistributionSignableBuilder, SignableBuilder, StakeDistributionRetriever};
use mithril_common::test::builder::{MithrilFixture, MithrilFixtureBuilder};
use serde_json::{Value, json};

use crate::c11_world::{EPOCH, block_on, certificate};

pub const KEY_STAKE_LEAF: &str = "C11/stake-leaf-concatenation";
pub const KEY_STAKE_ADJACENT: &str = "C11/stake-leaves-exchange-characters";

// =============================================================================================
// Cardano stake distribution
// =============================================================================================

#[derive(Clone, Debug, PartialEq, Eq, Hash)]
pub struct Sd {
    pub epoch: u64,
    pub map: BTreeMap<String, u64>,
}

struct FixedRetriever(StakeDistribution);
#[async_trait]
impl StakeDistributionRetriever for FixedRetriever {
    async fn retrieve(&self, _epoch: Epoch) -> StdResult<Option<StakeDistribution>> {
        Ok(Some(self.0.clone()))
    }
}

/// the certificate an honest network produces for `sd` (real signable builder)
pub fn csd_certificate(sd: &Sd) -> MithrilCertificate {
    let builder = CardanoStakeDistributionSignableBuilder::new(Arc::new(FixedRetriever(sd.map.clone())));
    let mut pm: ProtocolMessage = block_on(builder.compute_protocol_message(Epoch(sd.epoch))).expect("csd signable");
    pm.set_message_part(ProtocolMessagePartKey::NextAggregateVerificationKey, "next-avk-of-the-harness".to_string());
    pm.set_message_part(ProtocolMessagePartKey::NextProtocolParameters, "next-protocol-parameters-hash".to_string());
    pm.set_message_part(ProtocolMessagePartKey::CurrentEpoch, EPOCH.to_string());
    certificate("cert-csd", SignedEntityType::CardanoStakeDistribution(Epoch(sd.epoch)), pm)
}

fn csd_wire(sd: &Sd) -> Value {
    json!({
        "epoch": sd.epoch,
        "hash": "csd-hash",
        "certificate_hash": "cert-csd",
        "stake_distribution": sd.map,
        "created_at": "2024-07-29T16:15:05.618857482Z",
    })
}

/// client-cli `cardano-stake-distribution download` / examples/client-cardano-stake-distribution:
/// compute the message from the received distribution, compare with the certificate's signed one.
/// Returns the distribution the client then shows as verified.
pub fn csd_client(cert: &MithrilCertificate, wire: &Value) -> Result<Sd, String> {
    catch(|| -> Result<Sd, String> {
        let msg: CardanoStakeDistribution =
            serde_json::from_value(wire.clone()).map_err(|_| "rejected:message-does-not-parse".to_string())?;
        let message = MessageBuilder::new()
            .compute_cardano_stake_distribution_message(cert, &msg)
            .map_err(|_| "rejected:message-not-computable".to_string())?;
        if !cert.match_message(&message) {
            return Err("rejected:message-mismatch".into());
        }
        Ok(Sd { epoch: *msg.epoch, map: msg.stake_distribution.clone() })
    })
    .unwrap_or_else(|_| Err("rejected:panic".into()))
}

pub const IDS: [&str; 7] = ["pool1qa", "pool1qa7", "pool1qa72", "pool1zk", "pool1zk9", "1pool1m", "52pool1n"];
pub const STAKES: [u64; 5] = [0, 7, 10, 234, 1234];

fn dec(n: u64) -> String {
    n.to_string()
}

/// how many characters are moved across the boundary of two adjacent leaves ("pool1" is 5)
const LEAF_MOVE_MAX: usize = 6;

/// ways to read a leaf text as identifier ‖ decimal stake: the longest canonical decimal at its end,
/// and the reading that keeps `prefer` as the stake
fn leaf_parses(x: &str, prefer: u64) -> Vec<(String, u64)> {
    let mut v: Vec<(String, u64)> = vec![];
    let digits = x.bytes().rev().take_while(|c| c.is_ascii_digit()).count().min(19);
    if digits == 0 || !x.is_ascii() {
        return v;
    }
    let mut start = x.len() - digits;
    // leading zeros of the run belong to the identifier
    while start < x.len() - 1 && x.as_bytes()[start] == b'0' {
        start += 1;
    }
    if start > 0
        && let Ok(n) = x[start..].parse::<u64>()
    {
        v.push((x[..start].to_string(), n));
    }
    let p = prefer.to_string();
    if x.len() > p.len() && x.ends_with(&p) {
        let e = (x[..x.len() - p.len()].to_string(), prefer);
        if !v.contains(&e) {
            v.push(e);
        }
    }
    v
}

pub struct SdAlt {
    pub class: &'static str,
    pub label: String,
    pub sd: Sd,
}

fn re_entry(sd: &Sd, old_id: &str, new_id: String, new_stake: u64) -> Option<Sd> {
    let mut n = sd.clone();
    n.map.remove(old_id);
    if n.map.contains_key(&new_id) {
        return None; // two entries under one identifier cannot be expressed in the message
    }
    n.map.insert(new_id, new_stake);
    Some(n)
}

pub fn sd_alterations(sd: &Sd) -> Vec<SdAlt> {
    let mut out: Vec<SdAlt> = vec![];
    let mut push = |class: &'static str, label: String, n: Option<Sd>| {
        if let Some(n) = n
            && &n != sd
        {
            out.push(SdAlt { class, label, sd: n });
        }
    };
    let entries: Vec<(String, u64)> = sd.map.iter().map(|(k, v)| (k.clone(), *v)).collect();
    for (i, (id, st)) in entries.iter().enumerate() {
        let s = dec(*st);
        // identifier edits
        for (l, x) in [
            ("append 0", format!("{id}0")),
            ("append x", format!("{id}x")),
            ("drop last char", id[..id.len() - 1].to_string()),
            ("drop first char", id[1..].to_string()),
        ] {
            if !x.is_empty() {
                push("pool-id-edited", format!("{id}: id {l}"), re_entry(sd, id, x, *st));
            }
        }
        for other in IDS {
            if !sd.map.contains_key(other) {
                push("pool-id-edited", format!("{id}: id := {other}"), re_entry(sd, id, other.to_string(), *st));
            }
        }
        // stake edits
        let mut stakes = vec![st + 1, st * 10, st / 10, 0, st + 1000];
        if *st > 0 {
            stakes.push(st - 1);
        }
        for o in STAKES {
            stakes.push(o);
        }
        stakes.sort();
        stakes.dedup();
        for x in stakes {
            if x != *st {
                push("stake-edited", format!("{id}: stake {st} -> {x}"), re_entry(sd, id, id.clone(), x));
            }
        }
        // characters moved across the identifier / stake boundary of one entry
        for k in 1..=3usize {
            if s.len() > k
                && let Ok(rest) = s[k..].parse::<u64>()
            {
                push(
                    "chars-moved-between-id-and-stake",
                    format!("{id}:{st} -> first {k} digit(s) of the stake appended to the id"),
                    re_entry(sd, id, format!("{id}{}", &s[..k]), rest),
                );
            }
            if id.len() > k {
                let (keep, tail) = id.split_at(id.len() - k);
                if tail.bytes().all(|c| c.is_ascii_digit())
                    && let Ok(x) = format!("{tail}{s}").parse::<u64>()
                {
                    push(
                        "chars-moved-between-id-and-stake",
                        format!("{id}:{st} -> last {k} digit(s) of the id put in front of the stake"),
                        re_entry(sd, id, keep.to_string(), x),
                    );
                }
            }
        }
        // characters moved across the boundary between this entry's stake and the next entry's identifier
        if let Some((nid, nst)) = entries.get(i + 1) {
            for k in 1..=3usize {
                if s.len() > k
                    && let Ok(keep) = s[..s.len() - k].parse::<u64>()
                {
                    let mut n = sd.clone();
                    n.map.insert(id.clone(), keep);
                    n.map.remove(nid);
                    let new_id = format!("{}{nid}", &s[s.len() - k..]);
                    if !n.map.contains_key(&new_id) {
                        n.map.insert(new_id, *nst);
                        push(
                            "chars-moved-between-adjacent-entries",
                            format!("last {k} digit(s) of the stake of {id} put in front of the id {nid}"),
                            Some(n),
                        );
                    }
                }
                if nid.len() > k && nid.as_bytes()[..k].iter().all(|c| c.is_ascii_digit())
                    && let Ok(x) = format!("{s}{}", &nid[..k]).parse::<u64>()
                {
                    let mut n = sd.clone();
                    n.map.insert(id.clone(), x);
                    n.map.remove(nid);
                    let new_id = nid[k..].to_string();
                    if !n.map.contains_key(&new_id) {
                        n.map.insert(new_id, *nst);
                        push(
                            "chars-moved-between-adjacent-entries",
                            format!("first {k} digit(s) of the id {nid} appended to the stake of {id}"),
                            Some(n),
                        );
                    }
                }
            }
        }
        // any characters (not only digits) moved across the boundary between this entry's leaf and the
        // next entry's leaf, both directions: "pool1aaa10"|"pool1zzz20" -> "pool1aaa10pool1"|"zzz20"
        if let Some((nid, nst)) = entries.get(i + 1) {
            let (l0, l1) = (format!("{id}{s}"), format!("{nid}{nst}"));
            for k in 1..=LEAF_MOVE_MAX {
                let mut cuts: Vec<(String, String, String)> = vec![];
                if l1.len() > k {
                    cuts.push((format!("first {k} char(s) of the leaf of {nid} appended to the leaf of {id}"), format!("{l0}{}", &l1[..k]), l1[k..].to_string()));
                }
                if l0.len() > k {
                    cuts.push((format!("last {k} char(s) of the leaf of {id} put in front of the leaf of {nid}"), l0[..l0.len() - k].to_string(), format!("{}{l1}", &l0[l0.len() - k..])));
                }
                for (label, a, b) in cuts {
                    for (ia, sa) in leaf_parses(&a, *st) {
                        for (ib, sb) in leaf_parses(&b, *nst) {
                            if ia == ib {
                                continue;
                            }
                            let mut n = sd.clone();
                            n.map.remove(id);
                            n.map.remove(nid);
                            if n.map.contains_key(&ia) || n.map.contains_key(&ib) {
                                continue;
                            }
                            n.map.insert(ia.clone(), sa);
                            n.map.insert(ib, sb);
                            push("chars-moved-between-adjacent-entries", label.clone(), Some(n));
                        }
                    }
                }
            }
        }
        // stakes exchanged with a later entry
        for (jd, jst) in entries.iter().skip(i + 1) {
            let mut n = sd.clone();
            n.map.insert(id.clone(), *jst);
            n.map.insert(jd.clone(), *st);
            push("stakes-exchanged", format!("stakes of {id} and {jd} exchanged"), Some(n));
        }
        // entry dropped
        let mut n = sd.clone();
        n.map.remove(id);
        push("entry-dropped", format!("{id} dropped"), Some(n));
    }
    for other in IDS {
        if !sd.map.contains_key(other) {
            let mut n = sd.clone();
            n.map.insert(other.to_string(), 7);
            push("entry-added", format!("{other}:7 added"), Some(n));
        }
    }
    for e in [sd.epoch + 1, sd.epoch - 1, sd.epoch * 10] {
        let mut n = sd.clone();
        n.epoch = e;
        push("epoch-edited", format!("epoch {} -> {e}", sd.epoch), Some(n));
    }
    out
}

fn leaves(m: &BTreeMap<String, u64>) -> Vec<String> {
    m.iter().map(|(k, v)| format!("{k}{v}")).collect()
}

/// Which root cause explains that `got` is verified under the certificate of `honest`?
fn classify(honest: &Sd, got: &Sd, classes: &[&'static str]) -> String {
    if got.epoch != honest.epoch {
        return "C11/cardano-stake-distribution:epoch-not-the-signed-one".into();
    }
    let (h, g) = (leaves(&honest.map), leaves(&got.map));
    if h == g {
        // entry by entry the same characters, only the place of the id/stake boundary differs
        return KEY_STAKE_LEAF.into();
    }
    if h.len() == g.len() {
        // sibling leaves (0,1), (2,3), … concatenate to the same strings
        let pairs = |v: &Vec<String>| -> Vec<String> { v.chunks(2).map(|c| c.concat()).collect() };
        if pairs(&h) == pairs(&g) {
            return KEY_STAKE_ADJACENT.into();
        }
    }
    let mut cs = classes.to_vec();
    cs.sort();
    cs.dedup();
    format!("C11/cardano-stake-distribution:altered-map-verified:{}", cs.join("+"))
}

pub struct CsdResult {
    pub rep: Report,
    /// distinct unordered pairs {certified map, other map verified under its certificate}
    pub colliding_pairs_boundary: Vec<(u64, String)>,
    pub colliding_pairs_adjacent: Vec<(u64, String)>,
}

fn pair_id(a: &Sd, b: &Sd) -> (u64, String) {
    let (x, y) = (format!("{:?}", a.map), format!("{:?}", b.map));
    let (x, y) = if x <= y { (x, y) } else { (y, x) };
    let s = format!("{x} ~ {y}");
    (hash64(&s), s)
}

pub fn run_csd(honest: &Sd, depth: usize) -> CsdResult {
    let mut rep = Report::new("exploration", "");
    let mut res_b = vec![];
    let mut res_a = vec![];
    let cert = csd_certificate(honest);
    // completeness
    rep.eval();
    match csd_client(&cert, &csd_wire(honest)) {
        Ok(got) if &got == honest => {
            rep.outcome("honest:verified");
            rep.nontrivial(&("csd-honest", hash64(honest)));
        }
        other => {
            rep.outcome("honest:rejected");
            rep.violation(
                "C11/cardano-stake-distribution:honest-distribution-rejected",
                format!("honest distribution {:?} epoch {} is not verified against its own certificate: {:?}", honest.map, honest.epoch, other.err()),
                json!({"part": "csd", "honest": honest.map, "epoch": honest.epoch, "received": honest.map, "received_epoch": honest.epoch}),
            );
        }
    }
    let mut seen = std::collections::HashSet::new();
    seen.insert(hash64(honest));
    let mut judge = |path: &[&SdAlt], rep: &mut Report| {
        let sd = &path.last().unwrap().sd;
        rep.eval();
        rep.nontrivial(&("csd", hash64(honest), hash64(sd)));
        match csd_client(&cert, &csd_wire(sd)) {
            Err(why) => rep.outcome(&why),
            Ok(got) => {
                if &got == honest {
                    rep.outcome("verified:the-certified-distribution");
                    return;
                }
                rep.outcome("verified:ANOTHER-distribution");
                let classes: Vec<&'static str> = path.iter().map(|a| a.class).collect();
                let key = classify(honest, &got, &classes);
                if key == KEY_STAKE_LEAF {
                    res_b.push(pair_id(honest, &got));
                } else if key == KEY_STAKE_ADJACENT {
                    res_a.push(pair_id(honest, &got));
                }
                rep.violation(
                    &key,
                    format!(
                        "certified Cardano stake distribution {:?} (epoch {}); the aggregator serves {:?} (epoch {}) [{}]: the recomputed message equals the signed one and the altered distribution is shown as verified",
                        honest.map,
                        honest.epoch,
                        got.map,
                        got.epoch,
                        path.iter().map(|a| a.label.clone()).collect::<Vec<_>>().join(" ; ")
                    ),
                    json!({"part": "csd", "key": key, "honest": honest.map, "epoch": honest.epoch, "received": got.map, "received_epoch": got.epoch}),
                );
            }
        }
    };
    let l1 = sd_alterations(honest);
    for a in &l1 {
        if seen.insert(hash64(&a.sd)) {
            judge(&[a], &mut rep);
        }
    }
    if depth >= 2 {
        for a in &l1 {
            for b in sd_alterations(&a.sd) {
                if seen.insert(hash64(&b.sd)) {
                    judge(&[a, &b], &mut rep);
                }
            }
        }
    }
    CsdResult { rep, colliding_pairs_boundary: res_b, colliding_pairs_adjacent: res_a }
}

pub fn csd_family(max_pools: usize, ids: &[&str], stakes: &[u64]) -> Vec<Sd> {
    let mut out = vec![];
    let n = ids.len();
    for mask in 1u32..(1 << n) {
        let chosen: Vec<&str> = (0..n).filter(|i| mask & (1 << i) != 0).map(|i| ids[i]).collect();
        if chosen.len() > max_pools {
            continue;
        }
        let k = chosen.len();
        let total = stakes.len().pow(k as u32);
        for code in 0..total {
            let mut c = code;
            let mut map = BTreeMap::new();
            for id in &chosen {
                map.insert(id.to_string(), stakes[c % stakes.len()]);
                c /= stakes.len();
            }
            out.push(Sd { epoch: EPOCH, map });
        }
    }
    out
}

pub fn replay_csd(v: &Value, rep: &mut Report) {
    let to_map = |x: &Value| -> BTreeMap<String, u64> {
        x.as_object().map(|o| o.iter().map(|(k, v)| (k.clone(), v.as_u64().unwrap_or(0))).collect()).unwrap_or_default()
    };
    let honest = Sd { epoch: v["epoch"].as_u64().unwrap_or(EPOCH), map: to_map(&v["honest"]) };
    let got = Sd { epoch: v["received_epoch"].as_u64().unwrap_or(EPOCH), map: to_map(&v["received"]) };
    let cert = csd_certificate(&honest);
    rep.eval();
    match csd_client(&cert, &csd_wire(&got)) {
        Err(why) => {
            eprintln!("replay: {:?} under the certificate of {:?} is {why}", got.map, honest.map);
            rep.outcome(&why);
        }
        Ok(shown) => {
            eprintln!("replay: {:?} is shown as verified under the certificate of {:?}", shown.map, honest.map);
            if shown == honest {
                rep.outcome("verified:the-certified-distribution");
            } else {
                rep.outcome("verified:ANOTHER-distribution");
                let key = classify(&honest, &shown, &["replayed"]);
                rep.violation(&key, format!("certified {:?}, served and shown as verified {:?}", honest.map, shown.map), v.clone());
            }
        }
    }
}

// =============================================================================================
// Mithril stake distribution
// =============================================================================================

#[derive(Clone, Debug, PartialEq)]
pub struct Msd {
    pub epoch: u64,
    pub signers: Vec<Value>,
    pub params: Value,
}

impl Msd {
    fn wire(&self) -> Value {
        json!({
            "epoch": self.epoch,
            "signers": self.signers,
            "hash": "msd-hash",
            "certificate_hash": "cert-msd",
            "created_at": "2023-01-19T13:43:05.618857482Z",
            "protocol_parameters": self.params,
        })
    }
    fn pairs(&self) -> Vec<(String, u64)> {
        let mut v: Vec<(String, u64)> = self
            .signers
            .iter()
            .map(|s| (s["party_id"].as_str().unwrap_or("").to_string(), s["stake"].as_u64().unwrap_or(0)))
            .collect();
        v.sort();
        v
    }
    fn canon(&self) -> u64 {
        hash64(&serde_json::to_string(&self.wire()).unwrap())
    }
}

pub struct MsdWorld {
    pub honest: Msd,
    pub cert: MithrilCertificate,
    pub foreign_signer: Value,
}

pub fn msd_world(n: usize, foreign: &MithrilFixture) -> MsdWorld {
    let fixture = MithrilFixtureBuilder::default().with_signers(n).build();
    let signers: Vec<Value> = SignerWithStakeMessagePart::from_signers(fixture.signers_with_stake())
        .into_iter()
        .map(|s| serde_json::to_value(s).unwrap())
        .collect();
    let honest = Msd { epoch: EPOCH, signers, params: serde_json::to_value(fixture.protocol_parameters()).unwrap() };
    let mut pm = ProtocolMessage::new();
    pm.set_message_part(
        ProtocolMessagePartKey::NextAggregateVerificationKey,
        fixture.compute_and_encode_concatenation_aggregate_verification_key(),
    );
    pm.set_message_part(ProtocolMessagePartKey::NextProtocolParameters, fixture.protocol_parameters().compute_hash());
    pm.set_message_part(ProtocolMessagePartKey::CurrentEpoch, EPOCH.to_string());
    let cert = certificate("cert-msd", SignedEntityType::MithrilStakeDistribution(Epoch(EPOCH)), pm);
    let foreign_signer = serde_json::to_value(
        SignerWithStakeMessagePart::from_signers(foreign.signers_with_stake()).into_iter().next_back().unwrap(),
    )
    .unwrap();
    MsdWorld { honest, cert, foreign_signer }
}

pub fn foreign_fixture() -> MithrilFixture {
    MithrilFixtureBuilder::default().with_signers(5).build()
}

/// client-cli `mithril-stake-distribution download`: recompute the aggregate verification key from
/// the received signers, put it in the message, compare with the signed message.
fn msd_client(cert: &MithrilCertificate, wire: &Value) -> Result<Msd, String> {
    catch(|| -> Result<Msd, String> {
        let msg: MithrilStakeDistribution =
            serde_json::from_value(wire.clone()).map_err(|_| "rejected:message-does-not-parse".to_string())?;
        let message = MessageBuilder::new()
            .compute_mithril_stake_distribution_message(cert, &msg)
            .map_err(|_| "rejected:message-not-computable".to_string())?;
        if !cert.match_message(&message) {
            return Err("rejected:message-mismatch".into());
        }
        Ok(Msd {
            epoch: *msg.epoch,
            signers: msg.signers_with_stake.iter().map(|s| serde_json::to_value(s).unwrap()).collect(),
            params: serde_json::to_value(&msg.protocol_parameters).unwrap(),
        })
    })
    .unwrap_or_else(|_| Err("rejected:panic".into()))
}

pub struct MsdAlt {
    pub class: &'static str,
    pub label: String,
    pub msd: Msd,
}

fn msd_alterations(m: &Msd, w: &MsdWorld) -> Vec<MsdAlt> {
    let mut out = vec![];
    let mut push = |class: &'static str, label: String, n: Msd| {
        if &n != m {
            out.push(MsdAlt { class, label, msd: n });
        }
    };
    let n = m.signers.len();
    for i in 0..n {
        let id = m.signers[i]["party_id"].as_str().unwrap_or("").to_string();
        let st = m.signers[i]["stake"].as_u64().unwrap_or(0);
        let s = dec(st);
        let set = |f: &str, v: Value| -> Msd {
            let mut x = m.clone();
            x.signers[i][f] = v;
            x
        };
        let short = &id[..id.len().min(12)];
        for (l, x) in [
            ("append 0", format!("{id}0")),
            ("drop last char", id[..id.len().saturating_sub(1)].to_string()),
            (":= made-up", "pool1madeupmadeupmadeupmadeupmadeupmadeupmadeupmadeupmad".to_string()),
        ] {
            push("party-id-edited", format!("signer {i} ({short}…): party_id {l}"), set("party_id", json!(x)));
        }
        let mut stakes = vec![st + 1, st * 10, st / 10, 0];
        if st > 0 {
            stakes.push(st - 1);
        }
        stakes.sort();
        stakes.dedup();
        for x in stakes {
            if x != st {
                push("stake-edited", format!("signer {i}: stake {st} -> {x}"), set("stake", json!(x)));
            }
        }
        for k in 1..=3usize {
            if s.len() > k
                && let Ok(rest) = s[k..].parse::<u64>()
            {
                let mut x = m.clone();
                x.signers[i]["party_id"] = json!(format!("{id}{}", &s[..k]));
                x.signers[i]["stake"] = json!(rest);
                push("chars-moved-between-id-and-stake", format!("signer {i}: first {k} digit(s) of the stake appended to the party id"), x);
            }
            if id.len() > k {
                let (keep, tail) = id.split_at(id.len() - k);
                if tail.bytes().all(|c| c.is_ascii_digit())
                    && let Ok(v) = format!("{tail}{s}").parse::<u64>()
                {
                    let mut x = m.clone();
                    x.signers[i]["party_id"] = json!(keep);
                    x.signers[i]["stake"] = json!(v);
                    push("chars-moved-between-id-and-stake", format!("signer {i}: last {k} digit(s) of the party id put in front of the stake"), x);
                }
            }
        }
        for f in ["operational_certificate", "verification_key_signature", "kes_period"] {
            let mut x = m.clone();
            if let Some(o) = x.signers[i].as_object_mut() {
                o.remove(f);
            }
            push("certification-material-removed", format!("signer {i}: {f} removed"), x);
        }
        for j in i + 1..n {
            for (f, class) in [
                ("party_id", "party-ids-exchanged"),
                ("stake", "stakes-exchanged"),
                ("verification_key", "verification-keys-exchanged"),
                ("operational_certificate", "operational-certificates-exchanged"),
            ] {
                let mut x = m.clone();
                let (a, b) = (x.signers[i][f].clone(), x.signers[j][f].clone());
                x.signers[i][f] = b;
                x.signers[j][f] = a;
                push(class, format!("signers {i} and {j} exchange their {f}"), x);
            }
            let mut x = m.clone();
            x.signers.swap(i, j);
            push("signers-reordered", format!("signers {i} and {j} change places"), x);
        }
        let mut x = m.clone();
        x.signers.remove(i);
        push("signer-dropped", format!("signer {i} dropped"), x);
        let mut x = m.clone();
        let d = x.signers[i].clone();
        x.signers.push(d);
        push("signer-duplicated", format!("signer {i} listed twice"), x);
        // the other fixture's signer under this signer's identity
        let mut x = m.clone();
        let mut f = w.foreign_signer.clone();
        f["party_id"] = json!(id);
        f["stake"] = json!(st);
        x.signers[i] = f;
        push("signer-key-material-replaced", format!("signer {i}: keys and certificate of another pool under its party id"), x);
    }
    let mut x = m.clone();
    x.signers.push(w.foreign_signer.clone());
    push("signer-added", "a signer of another registration added".into(), x);
    for (f, v) in [("k", json!(m.params["k"].as_u64().unwrap_or(5) + 1)), ("m", json!(m.params["m"].as_u64().unwrap_or(100) + 1)), ("phi_f", json!(0.2))] {
        let mut x = m.clone();
        x.params[f] = v;
        push("protocol-parameters-edited", format!("protocol_parameters.{f} edited"), x);
    }
    let mut x = m.clone();
    x.epoch += 1;
    push("epoch-edited", "epoch +1".into(), x);
    out
}

pub fn run_msd(w: &MsdWorld, depth: usize, chunk: usize, chunks: usize) -> Report {
    let mut rep = Report::new("exploration", "");
    let honest = &w.honest;
    if chunk == 0 {
        rep.eval();
        match msd_client(&w.cert, &honest.wire()) {
            Ok(got) if got.pairs() == honest.pairs() => {
                rep.outcome("honest:verified");
                rep.nontrivial(&("msd-honest", honest.canon()));
            }
            other => {
                rep.outcome("honest:rejected");
                rep.violation(
                    "C11/mithril-stake-distribution:honest-distribution-rejected",
                    format!("honest Mithril stake distribution of {} signers is not verified: {:?}", honest.signers.len(), other.err()),
                    json!({"part": "msd", "signers": honest.signers.len()}),
                );
            }
        }
    }
    let mut seen = std::collections::HashSet::new();
    seen.insert(honest.canon());
    let judge = |path: &[&MsdAlt], rep: &mut Report| {
        let m = &path.last().unwrap().msd;
        rep.eval();
        rep.nontrivial(&("msd", honest.canon(), m.canon()));
        match msd_client(&w.cert, &m.wire()) {
            Err(why) => rep.outcome(&why),
            Ok(got) => {
                let classes: Vec<&'static str> = path.iter().map(|a| a.class).collect();
                if got.pairs() == honest.pairs() {
                    rep.outcome("verified:the-certified-distribution");
                    // fields that are shown next to the distribution but are not bound by the message
                    if got.epoch != honest.epoch {
                        rep.add_extra("observation_msd_epoch_field_not_bound_by_signed_message", 1);
                    }
                    if got.params != honest.params {
                        rep.add_extra("observation_msd_protocol_parameters_field_not_bound_by_signed_message", 1);
                    }
                    return;
                }
                rep.outcome("verified:ANOTHER-distribution");
                let concat = |v: &Vec<(String, u64)>| -> Vec<String> {
                    let mut c: Vec<String> = v.iter().map(|(a, b)| format!("{a}{b}")).collect();
                    c.sort();
                    c
                };
                let mut cs = classes.clone();
                cs.sort();
                cs.dedup();
                let key = if concat(&got.pairs()) == concat(&honest.pairs()) {
                    "C11/mithril-stake-distribution:party-id-stake-concatenation".to_string()
                } else {
                    format!("C11/mithril-stake-distribution:altered-distribution-verified:{}", cs.join("+"))
                };
                rep.violation(
                    &key,
                    format!(
                        "certified Mithril stake distribution {:?}; served {:?} [{}] and shown as verified",
                        honest.pairs(),
                        got.pairs(),
                        path.iter().map(|a| a.label.clone()).collect::<Vec<_>>().join(" ; ")
                    ),
                    json!({"part": "msd", "key": key, "signers": honest.signers.len(), "labels": path.iter().map(|a| a.label.clone()).collect::<Vec<_>>(), "wire": m.wire()}),
                );
            }
        }
    };
    let l1 = msd_alterations(honest, w);
    for a in &l1 {
        // level 1 is evaluated by chunk 0 only; every chunk marks it as seen
        if seen.insert(a.msd.canon()) && chunk == 0 {
            judge(&[a], &mut rep);
        }
    }
    if depth >= 2 {
        for (ai, a) in l1.iter().enumerate() {
            let mine = ai % chunks == chunk;
            for b in msd_alterations(&a.msd, w) {
                // `seen` must evolve identically in every chunk: insert always, evaluate own share
                if seen.insert(b.msd.canon()) && mine {
                    judge(&[a, &b], &mut rep);
                }
            }
        }
    }
    rep
}

pub fn replay_msd(worlds: &[MsdWorld], v: &Value, rep: &mut Report) {
    let n = v["signers"].as_u64().unwrap_or(1) as usize;
    let Some(w) = worlds.iter().find(|w| w.honest.signers.len() == n) else { return };
    rep.eval();
    match msd_client(&w.cert, &v["wire"]) {
        Err(why) => {
            eprintln!("replay: {why}");
            rep.outcome(&why);
        }
        Ok(got) => {
            eprintln!("replay: shown as verified: {:?}; certified: {:?}", got.pairs(), w.honest.pairs());
            if got.pairs() == w.honest.pairs() {
                rep.outcome("verified:the-certified-distribution");
            } else {
                rep.outcome("verified:ANOTHER-distribution");
                let key = v["key"].as_str().unwrap_or("C11/mithril-stake-distribution:altered-distribution-verified:replayed").to_string();
                rep.violation(&key, format!("certified {:?}, shown as verified {:?}", w.honest.pairs(), got.pairs()), v.clone());
            }
        }
    }
}
