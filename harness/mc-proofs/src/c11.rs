//! C11 — certified transaction, block and stake sets are reported exactly as signed.
//!
//! Bounded exhaustive response tampering on the real client-side code:
//!  * `CardanoTransactionsProofsMessage::verify`, `CardanoTransactionsProofsV2Message::verify`,
//!    `CardanoBlocksProofsMessage::verify` → `MessageBuilder::compute_cardano_*_proofs_message` →
//!    `MithrilCertificate::match_message`                                             (c11_sets.rs)
//!  * `MessageBuilder::compute_cardano_stake_distribution_message` /
//!    `compute_mithril_stake_distribution_message` → `match_message`                  (c11_stake.rs)
//! Honest values come from the real signable builders and the prover's MKMap steps (c11_world.rs);
//! the alteration alphabet is in c11_alter.rs.
//!
//! Oracle (implication, never "a mutant must be rejected"): reported as certified ⇒ every reported
//! item is, field by field, a member of the set the certificate signs, every proof carries the
//! signed root, the reported block number / offset are the signed ones; stake distribution shown as
//! verified ⇒ it is the certified map.  Completeness: honest answers are certified and reported whole.

use std::collections::{BTreeMap, BTreeSet};

use mc_core::{Ctx, Report, catch, par_map};
use mithril_common::entities::{BlockNumber, CardanoBlock, CardanoTransaction, IntoMKTreeNode, SlotNumber};
use serde_json::json;

use crate::c11_sets::{Job, Setup, run_job};
use crate::c11_stake as stake;
use crate::c11_world::{Chain, Fmt, world_legacy, world_v2};

const V2_BEACONS: [u64; 2] = [44, 40];
const LEGACY_BEACONS: [u64; 2] = [44, 29];
/// depth-2 jobs are cut into this many chunks of first alterations (load balance only)
const DEEP_CHUNKS: usize = 16;

fn setup() -> Setup {
    setup_on(Chain::base())
}

/// the same worlds over the chain with a single-transaction block range
fn setup_sparse() -> Setup {
    setup_on(Chain::sparse())
}

fn setup_on(chain: Chain) -> Setup {
    let forged = chain.forged();
    let mut worlds = vec![];
    for b in V2_BEACONS {
        worlds.push(world_v2(&chain, b));
    }
    for b in LEGACY_BEACONS {
        worlds.push(world_legacy(&chain, b));
    }
    Setup { chain, forged, worlds }
}

/// (block number, index in block) of the queried transactions; `None` = a hash that is not on the chain
fn tx_pool(chain: &Chain, picks: &[Option<(u64, usize)>]) -> Vec<String> {
    picks
        .iter()
        .enumerate()
        .map(|(i, p)| match p {
            Some((n, k)) => chain.blocks.iter().find(|b| *b.block_number == *n).unwrap().transactions_hashes[*k].clone(),
            None => { let _ = i; "tx-hash-absent".to_string() }
        })
        .collect()
}

fn block_pool(chain: &Chain, picks: &[Option<(u64, usize)>]) -> Vec<String> {
    picks
        .iter()
        .enumerate()
        .map(|(i, p)| match p {
            Some((n, _)) => chain.blocks.iter().find(|b| *b.block_number == *n).unwrap().block_hash.clone(),
            None => { let _ = i; "block-hash-absent".to_string() }
        })
        .collect()
}

fn subsets_up_to(pool: &[String], max: usize) -> Vec<Vec<String>> {
    let mut out = vec![];
    for mask in 1u32..(1 << pool.len()) {
        if (mask.count_ones() as usize) <= max {
            out.push((0..pool.len()).filter(|i| mask & (1 << i) != 0).map(|i| pool[i].clone()).collect());
        }
    }
    out
}

fn leaf_identifier_probe(rep: &mut Report) {
    // Is the item → leaf identifier mapping injective?  All tuples over small alphabets, through the
    // real conversion used by prover and verifier alike.
    let plain = ["a", "b", "ab", "a1", "1", "12", ""];
    let slashed = ["a/b", "/a", "a/", "b/1", "1/2", "/"];
    let numbers = [0u64, 1, 2, 12, 21, 121];
    let all: Vec<&str> = plain.iter().chain(slashed.iter()).copied().collect();
    let mut groups: BTreeMap<Vec<u8>, Vec<(String, bool)>> = BTreeMap::new();
    let mut tuples = 0u64;
    for th in &all {
        for bh in &all {
            for n in numbers {
                for s in numbers {
                    let leaf = CardanoTransaction::new(*th, BlockNumber(n), SlotNumber(s), *bh).into_mk_tree_node();
                    let has_slash = th.contains('/') || bh.contains('/');
                    groups.entry(leaf.to_vec()).or_default().push((format!("Tx(hash={th:?}, block_hash={bh:?}, n={n}, slot={s})"), has_slash));
                    tuples += 1;
                }
            }
        }
    }
    for bh in &all {
        for n in numbers {
            for s in numbers {
                let leaf = CardanoBlock::new(*bh, BlockNumber(n), SlotNumber(s)).into_mk_tree_node();
                groups.entry(leaf.to_vec()).or_default().push((format!("Block(hash={bh:?}, n={n}, slot={s})"), bh.contains('/')));
                tuples += 1;
            }
        }
    }
    let mut coll_plain = 0u64;
    let mut coll_slash = 0u64;
    let mut example: Option<Vec<String>> = None;
    for (leaf, members) in &groups {
        rep.eval();
        if members.len() > 1 {
            let plain_members: Vec<&(String, bool)> = members.iter().filter(|m| !m.1).collect();
            if plain_members.len() > 1 {
                coll_plain += 1;
                rep.violation(
                    "C11/leaf-identifier-not-injective",
                    format!(
                        "different items without any '/' in a field share the Merkle leaf {:?}: {:?}",
                        String::from_utf8_lossy(leaf),
                        plain_members.iter().map(|m| m.0.clone()).collect::<Vec<_>>()
                    ),
                    json!({"part": "probe"}),
                );
            } else {
                coll_slash += 1;
                if example.is_none() {
                    example = Some(members.iter().map(|m| m.0.clone()).collect());
                }
            }
        }
    }
    rep.nontrivial(&("probe", tuples));
    rep.outcome_n("probe:leaf-identifiers", groups.len() as u64);
    rep.extra(
        "leaf_identifier_probe",
        json!({
            "tuples": tuples,
            "distinct_leaves": groups.len(),
            "leaves_shared_by_items_without_slash_in_any_field": coll_plain,
            "leaves_shared_only_when_a_hash_field_contains_a_slash": coll_slash,
            "example_with_slash": example,
            "note": "a '/' inside a hash field makes 'Tx/<hash>/<block hash>/<n>/<slot>' ambiguous; certified sets come from chain hashes (hex), so this is recorded as an observation, not a violation; digits cannot move between <n> and <slot> because of the separator",
        }),
    );
}

pub fn run(ctx: &Ctx) -> ! {
    // the Mithril fixture builder keeps KES material under the system temp dir
    let scratch = ctx.scratch();
    unsafe { std::env::set_var("TMPDIR", &scratch) };

    let thorough = ctx.tier == mc_core::Tier::Thorough;
    let mut rep = Report::new(
        "exploration",
        "every query subset of <=3 items out of a pool of present / absent / beyond-the-beacon items spanning 3 block ranges, \
         in the legacy and both v2 proof formats and at a full and a partial beacon, answered honestly and then with every \
         alteration of the alteration alphabet (items, proofs, sub-proofs, roots, block number, offset, certificate pointer; \
         <=1 at once quick, <=2 thorough on the sub-pool); every Cardano stake distribution of <=3 pools over 7 ids x 5 stakes \
         and every edit of it (id, stake, characters moved across id/stake and entry boundaries, entries added/dropped, epoch); \
         Mithril stake distributions of 1..3 certified signers and every edit of them. A case is non-trivial when the answer \
         parses and reaches proof verification / message comparison; distinct = distinct answers (hash of the wire form)",
    );
    rep.max_samples = 12;

    let setup = match catch(setup) {
        Ok(s) => s,
        Err(e) => {
            rep.machinery_error(format!("honest world could not be built: {e} at {}", mc_core::last_panic_location()));
            rep.finish(ctx)
        }
    };

    let sparse = match catch(setup_sparse) {
        Ok(s) => s,
        Err(e) => {
            rep.machinery_error(format!("honest world (sparse chain) could not be built: {e} at {}", mc_core::last_panic_location()));
            rep.finish(ctx)
        }
    };

    // ---------------- replay
    if let Some(path) = &ctx.replay {
        let v = mc_core::load_replay(path);
        match v["part"].as_str().unwrap_or("") {
            "sets" => crate::c11_sets::replay(if v["sparse_chain"].as_bool().unwrap_or(false) { &sparse } else { &setup }, &v, &mut rep),
            "csd" => stake::replay_csd(&v, &mut rep),
            "msd" => {
                let foreign = stake::foreign_fixture();
                let worlds: Vec<stake::MsdWorld> = (1..=3).map(|n| stake::msd_world(n, &foreign)).collect();
                stake::replay_msd(&worlds, &v, &mut rep);
            }
            _ => leaf_identifier_probe(&mut rep),
        }
        rep.nontrivial(&0);
        rep.nontrivial(&1);
        rep.finish(ctx);
    }

    // ---------------- transaction / block sets
    let full_picks: Vec<Option<(u64, usize)>> = if thorough {
        vec![Some((0, 0)), Some((14, 1)), Some((15, 0)), Some((29, 0)), Some((30, 1)), Some((41, 0)), Some((7, 0)), None, Some((22, 1)), Some((44, 0))]
    } else {
        vec![Some((0, 0)), Some((14, 1)), Some((15, 0)), Some((29, 0)), Some((30, 1)), Some((41, 0)), Some((7, 0)), None]
    };
    let sub_picks: Vec<Option<(u64, usize)>> = vec![Some((0, 0)), Some((14, 1)), Some((30, 1)), None];
    let mut jobs: Vec<Job> = vec![];
    for fmt in [Fmt::Legacy, Fmt::TxV2, Fmt::BlockV2] {
        let beacons = if fmt == Fmt::Legacy { LEGACY_BEACONS } else { V2_BEACONS };
        let (pool, sub) = if fmt == Fmt::BlockV2 {
            (block_pool(&setup.chain, &full_picks), block_pool(&setup.chain, &sub_picks))
        } else {
            (tx_pool(&setup.chain, &full_picks), tx_pool(&setup.chain, &sub_picks))
        };
        // two alterations at once: every query of <= 2 items of the quick pool and every query of the sub-pool
        let deep: BTreeSet<Vec<String>> = if thorough {
            subsets_up_to(&pool[..8], 2).into_iter().chain(subsets_up_to(&sub, 3)).collect()
        } else {
            BTreeSet::new()
        };
        for beacon in beacons {
            for q in subsets_up_to(&pool, 3) {
                let depth = if deep.contains(&q) { 2 } else { 1 };
                let sample = beacon == beacons[1]
                    && (q == vec![pool[1].clone()] || q == vec![pool[0].clone(), pool[2].clone(), pool[7].clone()]);
                let chunks = if depth >= 2 { DEEP_CHUNKS } else { 1 };
                for chunk in 0..chunks {
                    jobs.push(Job { fmt, beacon, query: q.clone(), depth, sample, chunk, chunks, sparse: false });
                }
            }
        }
        // the chain with a single-transaction block range [15,30[: its lone item, one item of each
        // neighbouring range, an absent one
        let sparse_picks: Vec<Option<(u64, usize)>> = vec![Some((20, 0)), Some((0, 0)), Some((30, 1)), None];
        let spool = if fmt == Fmt::BlockV2 { block_pool(&sparse.chain, &sparse_picks) } else { tx_pool(&sparse.chain, &sparse_picks) };
        for beacon in beacons {
            for q in subsets_up_to(&spool, 3) {
                let depth = if thorough && q.len() <= 2 { 2 } else { 1 };
                let chunks = if depth >= 2 { DEEP_CHUNKS } else { 1 };
                for chunk in 0..chunks {
                    jobs.push(Job { fmt, beacon, query: q.clone(), depth, sample: false, chunk, chunks, sparse: true });
                }
            }
        }
    }
    // expensive jobs first (load balance); results are merged in job order, so the verdict does not depend on it
    jobs.sort_by_key(|j| std::cmp::Reverse((j.depth, j.query.len())));
    let n_jobs = jobs.iter().filter(|j| j.chunk == 0).count();
    let n_deep = jobs.iter().filter(|j| j.depth >= 2 && j.chunk == 0).count();
    let results = par_map(&jobs, ctx.threads(), |_, j| run_job(if j.sparse { &sparse } else { &setup }, j));
    let mut bases = 0;
    let mut examples: BTreeMap<String, serde_json::Value> = BTreeMap::new();
    let sets_before = rep.evaluations;
    // merge smallest queries first so that the kept counterexample of each key is a small one
    let mut order: Vec<usize> = (0..results.len()).collect();
    order.sort_by_key(|i| (jobs[*i].sparse, jobs[*i].query.len(), jobs[*i].chunk, *i));
    let mut results: Vec<Option<crate::c11_sets::JobResult>> = results.into_iter().map(Some).collect();
    for i in order {
        let r = results[i].take().unwrap();
        bases += r.bases;
        if let Some(e) = r.example {
            examples.entry(e["format"].as_str().unwrap_or("").to_string()).or_insert(e);
        }
        rep.merge(r.rep);
    }
    rep.extra(
        "sets",
        json!({
            "chain": "45 blocks (3 ranges of 15), even blocks 2 transactions, odd blocks 1; mithril_common::test::builder::CardanoTransactionsBuilder",
            "sparse_chain": "the same chain with block range [15,30[ reduced to block 20 holding the single transaction '9tx-hash-20-lone' (single-leaf sub-tree in the legacy map); 14 queries per format and beacon",
            "jobs_on_sparse_chain": jobs.iter().filter(|j| j.sparse && j.chunk == 0).count(),
            "formats": ["legacy-tx", "v2-tx", "v2-block"],
            "beacons": {"v2": V2_BEACONS, "legacy": LEGACY_BEACONS},
            "query_pool_size": full_picks.len(),
            "queries_per_format_and_beacon": subsets_up_to(&tx_pool(&setup.chain, &full_picks), 3).len(),
            "jobs": n_jobs,
            "jobs_with_2_alterations_at_once": n_deep,
            "honest_answers": bases,
            "smallest_false_statement_certified_per_format": examples,
            "evaluations": rep.evaluations - sets_before,
        }),
    );

    eprintln!("[C11] sets done at {:.1}s", ctx.elapsed_s());
    // ---------------- Cardano stake distribution
    let family = stake::csd_family(3, &stake::IDS, &stake::STAKES);
    // two alterations at once: on every distribution of <= 2 pools, and on those of 3 pools over 3 of the stakes
    let deep_family: BTreeSet<u64> = if thorough {
        stake::csd_family(2, &stake::IDS, &stake::STAKES)
            .iter()
            .chain(stake::csd_family(3, &stake::IDS, &[7, 10, 1234]).iter())
            .map(mc_core::hash64)
            .collect()
    } else {
        BTreeSet::new()
    };
    let csd_before = rep.evaluations;
    let csd_results = par_map(&family, ctx.threads(), |_, sd| stake::run_csd(sd, if deep_family.contains(&mc_core::hash64(sd)) { 2 } else { 1 }));
    let mut pairs_b: BTreeMap<u64, String> = BTreeMap::new();
    let mut pairs_a: BTreeMap<u64, String> = BTreeMap::new();
    // smallest distributions first
    let mut order: Vec<usize> = (0..family.len()).collect();
    order.sort_by_key(|i| (family[*i].map.len(), *i));
    let mut csd_results: Vec<Option<stake::CsdResult>> = csd_results.into_iter().map(Some).collect();
    for i in order {
        let r = csd_results[i].take().unwrap();
        rep.merge(r.rep);
        pairs_b.extend(r.colliding_pairs_boundary);
        pairs_a.extend(r.colliding_pairs_adjacent);
    }
    rep.extra(
        "cardano_stake_distribution",
        json!({
            "pool_ids": stake::IDS,
            "stakes": stake::STAKES,
            "certified_distributions": family.len(),
            "with_2_alterations_at_once": deep_family.len(),
            "evaluations": rep.evaluations - csd_before,
            "distinct_pairs_of_distributions_with_the_same_signed_message:id_stake_boundary_moved": pairs_b.len(),
            "distinct_pairs_of_distributions_with_the_same_signed_message:adjacent_entries_boundary_moved": pairs_a.len(),
            "examples:id_stake_boundary_moved": pairs_b.values().take(4).collect::<Vec<_>>(),
            "examples:adjacent_entries_boundary_moved": pairs_a.values().take(4).collect::<Vec<_>>(),
        }),
    );

    eprintln!("[C11] cardano stake distribution done at {:.1}s", ctx.elapsed_s());
    // ---------------- Mithril stake distribution
    let msd_before = rep.evaluations;
    let foreign = stake::foreign_fixture();
    let msd_worlds: Vec<stake::MsdWorld> = (1..=3).map(|n| stake::msd_world(n, &foreign)).collect();
    let depth = if thorough { 2 } else { 1 };
    let chunks = if thorough { 32 } else { 1 };
    let mut msd_jobs = vec![];
    for wi in 0..msd_worlds.len() {
        for c in 0..chunks {
            msd_jobs.push((wi, c));
        }
    }
    let msd_results = par_map(&msd_jobs, ctx.threads(), |_, (wi, c)| stake::run_msd(&msd_worlds[*wi], depth, *c, chunks));
    for r in msd_results {
        rep.merge(r);
    }
    rep.extra(
        "mithril_stake_distribution",
        json!({"signers": [1, 2, 3], "certified_signers_with_operational_certificates": true, "alterations_at_once": depth, "evaluations": rep.evaluations - msd_before}),
    );

    eprintln!("[C11] mithril stake distribution done at {:.1}s", ctx.elapsed_s());
    // ---------------- leaf identifier strings
    leaf_identifier_probe(&mut rep);

    rep.assume("the certificate named by an answer is obtained and its chain validated elsewhere (C03); here the client picks it from the set of certificates signed over the harness chain");
    rep.assume("honest answers are built with the steps of MithrilProverService::compute_proof / LegacyMithrilProverService::compute_transactions_proofs (MKMap of block-range roots from the real BlockRangeRootRetriever default method, ranges of the queried items replaced by their MKTree, MKMap::compute_proof) because mithril-aggregator is not linked; block-range roots are those block_ranges_importer.rs stores (complete ranges only)");
    rep.assume("signed messages are produced by the real CardanoBlocksTransactionsSignableBuilder / CardanoTransactionsSignableBuilder / CardanoStakeDistributionSignableBuilder over an in-memory store; the certificate's multi-signature is not checked here (C01/C03)");
    rep.assume("the certified sets contain chain hashes without '/' (see leaf_identifier_probe); pool identifiers are arbitrary strings, as the StakeDistribution type allows");
    rep.assume("a Mithril stake distribution's epoch and protocol_parameters fields are not part of 'the mapping from pools to stakes'; their not being bound by the recomputed message is counted as an observation");
    rep.finish(ctx)
}
