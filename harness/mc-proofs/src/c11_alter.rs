//! C11 — every single alteration of an aggregator response (the "alphabet" of the deviation ball).
//!
//! `alterations(r, cx)` lists all one-step alterations of the response state `r`; the driver applies
//! it once (quick) or twice, the second time on every result of the first (thorough).  Alterations
//! that need several fields to change together to stay self-consistent (grafting a block range from
//! another chain, moving characters across the boundary between a leaf and its neighbour node) count
//! as one step, like the "moved to another block" and "characters moved between identifier and
//! number" alterations named in the property.

use crate::c11_world::{Fmt, Item, PMap, PNode, PRange, Resp};

pub struct QCtx<'a> {
    /// names of all certificates the client can obtain and validate
    pub cert_names: &'a [String],
    /// beacons of those certificates
    pub beacons: &'a [u64],
    /// the forged chain's honest answer to the corresponding query (same beacon, same shape)
    pub foreign: Option<&'a Resp>,
    /// the certified chain's honest answer to the same query at another beacon
    pub other_beacon: Option<&'a Resp>,
    /// replacement / additional items: certified-but-not-proven, beyond the beacon, made up, forged
    pub alt_items: &'a [Item],
    /// hashes / numbers of other blocks (adjacent, other range) for "moved to another block"
    pub other_blocks: &'a [(String, u64, u64)],
    /// block range keys to re-key sub-proofs to
    pub range_keys: &'a [(u64, u64)],
    /// sub-proofs the aggregator made over trees of its own, per block range key
    pub self_made: &'a [SelfMadeSub],
}

/// a valid proof over an aggregator-made tree holding leaves of items that are not on the chain
pub struct SelfMadeSub {
    pub key: (u64, u64),
    pub what: &'static str,
    /// the forged items it proves (the ones the answer then reports)
    pub items: Vec<Item>,
    pub proof: PMap,
    /// tried under a key the answer has no genuine sub-proof for as well
    pub also_under_unproven_key: bool,
}

pub struct Alt {
    pub class: &'static str,
    pub label: String,
    pub resp: Resp,
}

fn push(out: &mut Vec<Alt>, class: &'static str, label: String, resp: Resp) {
    out.push(Alt { class, label, resp });
}

fn with_item(r: &Resp, p: usize, i: usize, it: Item) -> Resp {
    let mut n = r.clone();
    n.parts[p].items[i] = it;
    n
}

fn dec(n: u64) -> String {
    n.to_string()
}

/// single-field edits of one item
fn item_edits(it: &Item, cx: &QCtx) -> Vec<(&'static str, String, Item)> {
    let mut v: Vec<(&'static str, String, Item)> = vec![];
    let str_edits = |s: &str| -> Vec<(String, String)> {
        let cs: Vec<char> = s.chars().collect();
        let mut e = vec![("append 0".to_string(), format!("{s}0"))];
        if cs.len() > 1 {
            e.push(("drop last char".into(), cs[..cs.len() - 1].iter().collect()));
            e.push(("drop first char".into(), cs[1..].iter().collect()));
            let mid = cs.len() / 2;
            e.push(("insert /".into(), format!("{}/{}", cs[..mid].iter().collect::<String>(), cs[mid..].iter().collect::<String>())));
        }
        e.push(("append /".into(), format!("{s}/")));
        e
    };
    let num_edits = |n: u64| -> Vec<(String, u64)> {
        let mut e = vec![("+1".to_string(), n + 1), ("*10".to_string(), n * 10), ("+15".to_string(), n + 15)];
        if n > 0 {
            e.push(("-1".into(), n - 1));
            e.push(("/10".into(), n / 10));
        }
        e
    };
    match it {
        Item::Hash(h) => {
            for (l, s) in str_edits(h) {
                v.push(("item-field", format!("hash {l}"), Item::Hash(s)));
            }
        }
        Item::Tx { th, bh, n, s } => {
            for (l, x) in str_edits(th) {
                v.push(("item-field", format!("transaction_hash {l}"), Item::Tx { th: x, bh: bh.clone(), n: *n, s: *s }));
            }
            for (l, x) in str_edits(bh) {
                v.push(("item-field", format!("block_hash {l}"), Item::Tx { th: th.clone(), bh: x, n: *n, s: *s }));
            }
            for a in cx.alt_items {
                if let Item::Tx { th: ath, .. } = a
                    && ath != th
                {
                    v.push(("item-field", format!("transaction_hash:={ath}"), Item::Tx { th: ath.clone(), bh: bh.clone(), n: *n, s: *s }));
                }
            }
            for (obh, on, os) in cx.other_blocks {
                if obh != bh {
                    v.push(("item-field", format!("block_hash:={obh}"), Item::Tx { th: th.clone(), bh: obh.clone(), n: *n, s: *s }));
                    v.push(("item-field", format!("block_number:={on}"), Item::Tx { th: th.clone(), bh: bh.clone(), n: *on, s: *s }));
                    v.push(("item-field", format!("slot_number:={os}"), Item::Tx { th: th.clone(), bh: bh.clone(), n: *n, s: *os }));
                    v.push(("item-moved-to-other-block", format!("moved to block {obh}/{on}/{os}"), Item::Tx { th: th.clone(), bh: obh.clone(), n: *on, s: *os }));
                }
            }
            for (l, x) in num_edits(*n) {
                v.push(("item-field", format!("block_number {l}"), Item::Tx { th: th.clone(), bh: bh.clone(), n: x, s: *s }));
            }
            for (l, x) in num_edits(*s) {
                v.push(("item-field", format!("slot_number {l}"), Item::Tx { th: th.clone(), bh: bh.clone(), n: *n, s: x }));
            }
            // characters moved across the '/' between two adjacent fields
            for (l, n2, s2) in digit_moves(*n, *s) {
                v.push(("chars-moved-between-adjacent-fields", format!("block_number|slot_number {l}"), Item::Tx { th: th.clone(), bh: bh.clone(), n: n2, s: s2 }));
            }
            for (l, a, b) in string_moves(th, bh) {
                v.push(("chars-moved-between-adjacent-fields", format!("transaction_hash|block_hash {l}"), Item::Tx { th: a, bh: b, n: *n, s: *s }));
            }
            for (l, b2, n2) in string_number_moves(bh, *n) {
                v.push(("chars-moved-between-adjacent-fields", format!("block_hash|block_number {l}"), Item::Tx { th: th.clone(), bh: b2, n: n2, s: *s }));
            }
        }
        Item::Block { bh, n, s } => {
            for (l, x) in str_edits(bh) {
                v.push(("item-field", format!("block_hash {l}"), Item::Block { bh: x, n: *n, s: *s }));
            }
            for (obh, on, os) in cx.other_blocks {
                if obh != bh {
                    v.push(("item-field", format!("block_hash:={obh}"), Item::Block { bh: obh.clone(), n: *n, s: *s }));
                    v.push(("item-field", format!("block_number:={on}"), Item::Block { bh: bh.clone(), n: *on, s: *s }));
                    v.push(("item-field", format!("slot_number:={os}"), Item::Block { bh: bh.clone(), n: *n, s: *os }));
                }
            }
            for (l, x) in num_edits(*n) {
                v.push(("item-field", format!("block_number {l}"), Item::Block { bh: bh.clone(), n: x, s: *s }));
            }
            for (l, x) in num_edits(*s) {
                v.push(("item-field", format!("slot_number {l}"), Item::Block { bh: bh.clone(), n: *n, s: x }));
            }
            for (l, n2, s2) in digit_moves(*n, *s) {
                v.push(("chars-moved-between-adjacent-fields", format!("block_number|slot_number {l}"), Item::Block { bh: bh.clone(), n: n2, s: s2 }));
            }
            for (l, b2, n2) in string_number_moves(bh, *n) {
                v.push(("chars-moved-between-adjacent-fields", format!("block_hash|block_number {l}"), Item::Block { bh: b2, n: n2, s: *s }));
            }
        }
    }
    v
}

/// digits moved between two adjacent decimal fields (1..3 digits, both directions)
pub fn digit_moves(a: u64, b: u64) -> Vec<(String, u64, u64)> {
    let (sa, sb) = (dec(a), dec(b));
    let mut v = vec![];
    for k in 1..=3usize {
        if sb.len() > k {
            let (x, y) = (format!("{sa}{}", &sb[..k]), sb[k..].to_string());
            if let (Ok(x), Ok(y)) = (x.parse::<u64>(), y.parse::<u64>()) {
                v.push((format!("{k} digit(s) right-to-left"), x, y));
            }
        }
        if sa.len() > k {
            let (x, y) = (sa[..sa.len() - k].to_string(), format!("{}{sb}", &sa[sa.len() - k..]));
            if let (Ok(x), Ok(y)) = (x.parse::<u64>(), y.parse::<u64>()) {
                v.push((format!("{k} digit(s) left-to-right"), x, y));
            }
        }
    }
    v
}

/// characters moved between two adjacent string fields, with and without carrying a '/'
fn string_moves(a: &str, b: &str) -> Vec<(String, String, String)> {
    let mut v = vec![];
    for k in 1..=3usize {
        if b.len() > k && b.is_char_boundary(k) {
            v.push((format!("{k} char(s) right-to-left"), format!("{a}{}", &b[..k]), b[k..].to_string()));
            v.push((format!("{k} char(s) right-to-left behind a /"), format!("{a}/{}", &b[..k]), b[k..].to_string()));
        }
        if a.len() > k && a.is_char_boundary(a.len() - k) {
            v.push((format!("{k} char(s) left-to-right"), a[..a.len() - k].to_string(), format!("{}{b}", &a[a.len() - k..])));
            v.push((format!("{k} char(s) left-to-right before a /"), a[..a.len() - k].to_string(), format!("{}/{b}", &a[a.len() - k..])));
        }
    }
    v
}

fn string_number_moves(a: &str, n: u64) -> Vec<(String, String, u64)> {
    let sn = dec(n);
    let mut v = vec![];
    for k in 1..=3usize {
        if sn.len() > k
            && let Ok(rest) = sn[k..].parse::<u64>()
        {
            v.push((format!("{k} digit(s) number-to-string"), format!("{a}{}", &sn[..k]), rest));
            v.push((format!("{k} digit(s) number-to-string behind a /"), format!("{a}/{}", &sn[..k]), rest));
        }
        let tail: String = a.chars().rev().take(k).collect::<Vec<_>>().into_iter().rev().collect();
        if tail.len() == k
            && a.len() > k
            && a.is_char_boundary(a.len() - k)
            && tail.bytes().all(|c| c.is_ascii_digit())
            && let Ok(x) = format!("{tail}{sn}").parse::<u64>()
        {
            v.push((format!("{k} digit(s) string-to-number"), a[..a.len() - k].to_string(), x));
        }
    }
    v
}

/// (sub-proof index, leaf index) of the leaf of `item` in the proof
fn locate(proof: &PMap, leaf: &[u8]) -> Option<(usize, usize)> {
    for (si, (_, sp)) in proof.sub_proofs.iter().enumerate() {
        for (li, (_, l)) in sp.master_proof.inner_leaves.iter().enumerate() {
            if l.hash == leaf {
                return Some((si, li));
            }
        }
    }
    None
}

fn item_from_leaf(template: &Item, leaf: &[u8]) -> Option<Item> {
    let s = std::str::from_utf8(leaf).ok()?;
    match template {
        Item::Hash(_) => Some(Item::Hash(s.to_string())),
        Item::Tx { .. } => {
            let rest = s.strip_prefix("Tx/")?;
            let f: Vec<&str> = rest.split('/').collect();
            if f.len() != 4 {
                return None;
            }
            let (n, sl) = (canon_u64(f[2])?, canon_u64(f[3])?);
            Some(Item::Tx { th: f[0].to_string(), bh: f[1].to_string(), n, s: sl })
        }
        Item::Block { .. } => {
            let rest = s.strip_prefix("Block/")?;
            let f: Vec<&str> = rest.split('/').collect();
            if f.len() != 3 {
                return None;
            }
            let (n, sl) = (canon_u64(f[1])?, canon_u64(f[2])?);
            Some(Item::Block { bh: f[0].to_string(), n, s: sl })
        }
    }
}

/// decimal without sign / leading zeros (what `u64::to_string` can produce)
fn canon_u64(s: &str) -> Option<u64> {
    let n: u64 = s.parse().ok()?;
    (n.to_string() == s).then_some(n)
}

/// characters moved across the boundary between an item's leaf and a neighbouring node of the
/// proof (another proven leaf, or a path node), the item being re-written to match its new leaf
fn leaf_neighbour_shifts(r: &Resp, out: &mut Vec<Alt>) {
    const CLASS: &str = "chars-moved-between-leaf-and-neighbour-node";
    for (pi, part) in r.parts.iter().enumerate() {
        for (ii, it) in part.items.iter().enumerate() {
            let leaf = it.leaf();
            let Some((si, li)) = locate(&part.proof, &leaf) else { continue };
            let sp = &part.proof.sub_proofs[si].1.master_proof;
            for k in 1..=3usize {
                // tail of the leaf → front of path node j
                if leaf.len() > k {
                    let (keep, tail) = leaf.split_at(leaf.len() - k);
                    if let Some(new_item) = item_from_leaf(it, keep)
                        && new_item.leaf() == keep
                    {
                        for j in 0..sp.inner_proof_items.len() {
                            let mut n = r.clone();
                            n.parts[pi].items[ii] = new_item.clone();
                            let m = &mut n.parts[pi].proof.sub_proofs[si].1.master_proof;
                            m.inner_leaves[li].1 = PNode { hash: keep.to_vec() };
                            let mut h = tail.to_vec();
                            h.extend_from_slice(&m.inner_proof_items[j].hash);
                            m.inner_proof_items[j] = PNode { hash: h };
                            push(out, CLASS, format!("part {pi} item {ii}: last {k} char(s) of the leaf moved to the front of path node {j}"), n);
                        }
                        // … → front of another proven leaf (which is another item of the response)
                        for lj in 0..sp.inner_leaves.len() {
                            if lj == li {
                                continue;
                            }
                            let other = &sp.inner_leaves[lj].1.hash;
                            let mut nl = tail.to_vec();
                            nl.extend_from_slice(other);
                            let Some(oi) = part.items.iter().position(|x| &x.leaf() == other) else { continue };
                            let Some(other_item) = item_from_leaf(&part.items[oi], &nl) else { continue };
                            if other_item.leaf() != nl {
                                continue;
                            }
                            let mut n = r.clone();
                            n.parts[pi].items[ii] = new_item.clone();
                            n.parts[pi].items[oi] = other_item;
                            let m = &mut n.parts[pi].proof.sub_proofs[si].1.master_proof;
                            m.inner_leaves[li].1 = PNode { hash: keep.to_vec() };
                            m.inner_leaves[lj].1 = PNode { hash: nl };
                            push(out, CLASS, format!("part {pi} item {ii}: last {k} char(s) of the leaf moved to the front of the leaf of item {oi}"), n);
                        }
                    }
                }
                // tail of path node j → front of the leaf
                for j in 0..sp.inner_proof_items.len() {
                    let x = &sp.inner_proof_items[j].hash;
                    if x.len() <= k {
                        continue;
                    }
                    let (xkeep, xtail) = x.split_at(x.len() - k);
                    let mut nl = xtail.to_vec();
                    nl.extend_from_slice(&leaf);
                    let Some(new_item) = item_from_leaf(it, &nl) else { continue };
                    if new_item.leaf() != nl {
                        continue;
                    }
                    let mut n = r.clone();
                    n.parts[pi].items[ii] = new_item;
                    let m = &mut n.parts[pi].proof.sub_proofs[si].1.master_proof;
                    m.inner_leaves[li].1 = PNode { hash: nl };
                    m.inner_proof_items[j] = PNode { hash: xkeep.to_vec() };
                    push(out, CLASS, format!("part {pi} item {ii}: last {k} byte(s) of path node {j} moved to the front of the leaf"), n);
                }
            }
        }
    }
}

fn proof_edits(r: &Resp, pi: usize, cx: &QCtx, out: &mut Vec<Alt>) {
    let proof = &r.parts[pi].proof;
    let nsub = proof.sub_proofs.len();
    let foreign_part = cx.foreign.and_then(|f| f.parts.get(pi.min(f.parts.len().saturating_sub(1))));
    // sub-proofs swapped between their keys
    for i in 0..nsub {
        for j in i + 1..nsub {
            let mut n = r.clone();
            let a = n.parts[pi].proof.sub_proofs[i].1.clone();
            let b = n.parts[pi].proof.sub_proofs[j].1.clone();
            n.parts[pi].proof.sub_proofs[i].1 = b;
            n.parts[pi].proof.sub_proofs[j].1 = a;
            push(out, "sub-proofs-swapped", format!("part {pi}: sub-proofs {i} and {j} swapped"), n);
        }
    }
    for i in 0..nsub {
        let cur = &proof.sub_proofs[i].0.inner_range;
        // re-keyed
        for (s, e) in cx.range_keys {
            if (*s, *e) != (cur.start, cur.end) {
                let mut n = r.clone();
                n.parts[pi].proof.sub_proofs[i].0 = PRange { inner_range: *s..*e };
                push(out, "sub-proof-rekeyed", format!("part {pi}: sub-proof {i} re-keyed to {s}-{e}"), n);
            }
        }
        // detached
        {
            let mut n = r.clone();
            n.parts[pi].proof.sub_proofs.remove(i);
            push(out, "sub-proof-detached", format!("part {pi}: sub-proof {i} removed"), n);
            let mut n = r.clone();
            n.parts[pi].proof.sub_proofs.remove(i);
            if i < n.parts[pi].proof.master_proof.inner_leaves.len() {
                n.parts[pi].proof.master_proof.inner_leaves.remove(i);
            }
            push(out, "sub-proof-detached", format!("part {pi}: sub-proof {i} and master leaf {i} removed"), n);
            // the sub-proof takes the place of the whole proof (no master level)
            let mut n = r.clone();
            n.parts[pi].proof = proof.sub_proofs[i].1.clone();
            push(out, "sub-proof-detached", format!("part {pi}: sub-proof {i} served alone as the whole proof"), n);
        }
        // duplicated under the same key
        {
            let mut n = r.clone();
            let d = n.parts[pi].proof.sub_proofs[i].clone();
            n.parts[pi].proof.sub_proofs.push(d);
            push(out, "sub-proof-duplicated", format!("part {pi}: sub-proof {i} listed twice"), n);
        }
        // path node corrupted / root field edited
        {
            let mut n = r.clone();
            let m = &mut n.parts[pi].proof.sub_proofs[i].1.master_proof;
            if let Some(x) = m.inner_proof_items.first_mut() {
                x.hash[0] ^= 1;
                push(out, "path-node-edited", format!("part {pi}: sub-proof {i} path node 0 bit flipped"), n);
            }
            let mut n = r.clone();
            n.parts[pi].proof.sub_proofs[i].1.master_proof.inner_root.hash[0] ^= 1;
            push(out, "root-field-edited", format!("part {pi}: sub-proof {i} root field bit flipped"), n);
        }
        if let Some(fp) = foreign_part {
            // sub-proof of the same range taken from the other chain
            if let Some((_, fsp)) = fp.proof.sub_proofs.iter().find(|(k, _)| k == &proof.sub_proofs[i].0) {
                let mut n = r.clone();
                n.parts[pi].proof.sub_proofs[i].1 = fsp.clone();
                push(out, "sub-proof-from-other-chain", format!("part {pi}: sub-proof {i} replaced by the other chain's"), n);
                let mut n = r.clone();
                n.parts[pi].proof.sub_proofs[i].1.master_proof.inner_root = fsp.master_proof.inner_root.clone();
                push(out, "root-field-edited", format!("part {pi}: sub-proof {i} root field := other chain's"), n);
                // graft: the items of that range and their sub-proof both come from the other chain
                let mut n = r.clone();
                let mut changed = false;
                let here: Vec<Vec<u8>> = proof.sub_proofs[i].1.master_proof.inner_leaves.iter().map(|(_, l)| l.hash.clone()).collect();
                let there: Vec<&Item> = fp
                    .items
                    .iter()
                    .filter(|it| fsp.master_proof.inner_leaves.iter().any(|(_, l)| l.hash == it.leaf()))
                    .collect();
                let mut t = there.iter();
                for it in n.parts[pi].items.iter_mut() {
                    if here.contains(&it.leaf())
                        && let Some(x) = t.next()
                    {
                        *it = (*x).clone();
                        changed = true;
                    }
                }
                if changed {
                    n.parts[pi].proof.sub_proofs[i].1 = fsp.clone();
                    push(out, "block-range-grafted-from-other-chain", format!("part {pi}: items and sub-proof of range {}-{} taken from the other chain", cur.start, cur.end), n);
                    // … and the master leaf too
                    let mut n2 = out.last().unwrap().resp.clone();
                    if let Some(fl) = fp.proof.master_proof.inner_leaves.get(i)
                        && i < n2.parts[pi].proof.master_proof.inner_leaves.len()
                    {
                        n2.parts[pi].proof.master_proof.inner_leaves[i].1 = fl.1.clone();
                        push(out, "block-range-grafted-from-other-chain", format!("part {pi}: items, sub-proof and master leaf of range {}-{} taken from the other chain", cur.start, cur.end), n2);
                    }
                }
            }
        }
    }
    // master level
    {
        let mut n = r.clone();
        n.parts[pi].proof.master_proof.inner_root.hash[0] ^= 1;
        push(out, "root-field-edited", format!("part {pi}: master root field bit flipped"), n);
        let mut n = r.clone();
        if let Some(x) = n.parts[pi].proof.master_proof.inner_proof_items.first_mut() {
            x.hash[0] ^= 1;
            push(out, "path-node-edited", format!("part {pi}: master path node 0 bit flipped"), n);
        }
        for i in 0..proof.master_proof.inner_leaves.len() {
            let mut n = r.clone();
            n.parts[pi].proof.master_proof.inner_leaves.remove(i);
            push(out, "master-leaf-removed", format!("part {pi}: master leaf {i} removed"), n);
        }
    }
    if let Some(fp) = foreign_part {
        let mut n = r.clone();
        n.parts[pi].proof.master_proof = fp.proof.master_proof.clone();
        push(out, "master-proof-from-other-chain", format!("part {pi}: master proof replaced by the other chain's"), n);
        let mut n = r.clone();
        n.parts[pi].proof.master_proof.inner_root = fp.proof.master_proof.inner_root.clone();
        push(out, "root-field-edited", format!("part {pi}: master root field := other chain's root"), n);
        let mut n = r.clone();
        n.parts[pi].proof = fp.proof.clone();
        push(out, "proof-from-other-chain", format!("part {pi}: whole proof replaced by the other chain's"), n);
        let mut n = r.clone();
        n.parts[pi] = fp.clone();
        push(out, "part-from-other-chain", format!("part {pi}: items and proof replaced by the other chain's answer"), n);
    }
    if let Some(ob) = cx.other_beacon
        && let Some(op) = ob.parts.get(pi)
    {
        let mut n = r.clone();
        n.parts[pi].proof = op.proof.clone();
        push(out, "proof-of-other-beacon", format!("part {pi}: proof replaced by the one made at beacon {}", ob.latest_block_number), n);
        let mut n = r.clone();
        n.parts[pi].proof.master_proof = op.proof.master_proof.clone();
        push(out, "proof-of-other-beacon", format!("part {pi}: master proof replaced by the one made at beacon {}", ob.latest_block_number), n);
    }
}

/// "<start>-<end>" read back as a block range key (what `BlockRange -> MKTreeNode` can have written)
fn parse_key_text(t: &str) -> Option<(u64, u64)> {
    let (a, b) = t.split_once('-')?;
    Some((canon_u64(a)?, canon_u64(b)?))
}

/// A sub-proof over a block range that holds a single leaf: the map entry is H(key text ‖ sub-root)
/// and the sub-root IS the raw leaf, so 1..3 characters are moved between the end of the key text
/// "<start>-<end>" and the front of the leaf (both directions), the key being re-read from the
/// shortened / lengthened text and the item re-written to match its new leaf.
fn map_key_single_leaf_shifts(r: &Resp, pi: usize, out: &mut Vec<Alt>) {
    const CLASS: &str = "chars-moved-between-map-key-and-single-leaf";
    let part = &r.parts[pi];
    for (si, (key, sp)) in part.proof.sub_proofs.iter().enumerate() {
        let m = &sp.master_proof;
        if !(sp.sub_proofs.is_empty() && m.inner_leaves.len() == 1 && m.inner_proof_items.is_empty()) {
            continue;
        }
        let leaf = m.inner_leaves[0].1.hash.clone();
        let Some(ii) = part.items.iter().position(|it| it.leaf() == leaf) else { continue };
        let text = format!("{}-{}", key.inner_range.start, key.inner_range.end);
        for k in 1..=3usize {
            let mut cands: Vec<(String, String, Vec<u8>)> = vec![];
            if text.len() > k {
                let (keep, moved) = text.split_at(text.len() - k);
                let mut nl = moved.as_bytes().to_vec();
                nl.extend_from_slice(&leaf);
                cands.push((format!("last {k} char(s) of the key text {text:?} moved to the front of the leaf"), keep.to_string(), nl));
            }
            if leaf.len() > k
                && let Ok(head) = std::str::from_utf8(&leaf[..k])
            {
                cands.push((format!("first {k} char(s) of the leaf appended to the key text {text:?}"), format!("{text}{head}"), leaf[k..].to_vec()));
            }
            for (label, new_text, new_leaf) in cands {
                let Some((s, e)) = parse_key_text(&new_text) else { continue };
                let Some(new_item) = item_from_leaf(&part.items[ii], &new_leaf) else { continue };
                if new_item.leaf() != new_leaf {
                    continue;
                }
                let mut n = r.clone();
                n.parts[pi].items[ii] = new_item;
                let e_ = &mut n.parts[pi].proof.sub_proofs[si];
                e_.0 = PRange { inner_range: s..e };
                e_.1.master_proof.inner_leaves[0].1 = PNode { hash: new_leaf.clone() };
                e_.1.master_proof.inner_root = PNode { hash: new_leaf };
                push(out, CLASS, format!("part {pi} sub-proof {si}: {label}, key re-read as {s}-{e}"), n);
            }
        }
    }
}

/// A block range key stated twice: a sub-proof made by the aggregator over its own tree (forged
/// leaves, possibly next to genuine ones) is listed before / after the genuine sub-proof of the same
/// key, the forged items being appended to, or put in place of, the reported items of that range.
/// Also: such a sub-proof under a key the answer has no genuine sub-proof for.
fn self_made_sub_proofs(r: &Resp, pi: usize, cx: &QCtx, out: &mut Vec<Alt>) {
    let proof = &r.parts[pi].proof;
    for f in cx.self_made {
        let key = PRange { inner_range: f.key.0..f.key.1 };
        let genuine = proof.sub_proofs.iter().position(|(k, _)| k == &key);
        match genuine {
            Some(i) => {
                let here: Vec<Vec<u8>> = proof.sub_proofs[i].1.master_proof.inner_leaves.iter().map(|(_, l)| l.hash.clone()).collect();
                for (place, at) in [("before", i), ("after", i + 1)] {
                    let mut n = r.clone();
                    n.parts[pi].proof.sub_proofs.insert(at, (key.clone(), f.proof.clone()));
                    n.parts[pi].items.extend(f.items.iter().cloned());
                    push(
                        out,
                        "self-made-sub-proof-under-proven-key",
                        format!("part {pi}: {} listed {place} the genuine sub-proof of range {}-{}, its item(s) appended", f.what, f.key.0, f.key.1),
                        n,
                    );
                    let mut n = r.clone();
                    n.parts[pi].proof.sub_proofs.insert(at, (key.clone(), f.proof.clone()));
                    let mut t = f.items.iter();
                    let mut changed = false;
                    for it in n.parts[pi].items.iter_mut() {
                        if here.contains(&it.leaf())
                            && let Some(x) = t.next()
                        {
                            *it = x.clone();
                            changed = true;
                        }
                    }
                    if changed {
                        push(
                            out,
                            "self-made-sub-proof-under-proven-key",
                            format!("part {pi}: {} listed {place} the genuine sub-proof of range {}-{}, its item(s) in place of the genuine one(s)", f.what, f.key.0, f.key.1),
                            n,
                        );
                    }
                }
            }
            None if f.also_under_unproven_key => {
                for (place, at) in [("first", 0), ("last", proof.sub_proofs.len())] {
                    let mut n = r.clone();
                    n.parts[pi].proof.sub_proofs.insert(at, (key.clone(), f.proof.clone()));
                    n.parts[pi].items.extend(f.items.iter().cloned());
                    push(
                        out,
                        "self-made-sub-proof-under-unproven-key",
                        format!("part {pi}: {} listed {place} under range {}-{} (no genuine sub-proof of it in the answer), its item(s) appended", f.what, f.key.0, f.key.1),
                        n,
                    );
                }
            }
            None => {}
        }
    }
    // a genuine entry stated twice, the copy in front (the copy at the end is `sub-proof-duplicated`)
    for i in 0..proof.sub_proofs.len() {
        let mut n = r.clone();
        let d = n.parts[pi].proof.sub_proofs[i].clone();
        n.parts[pi].proof.sub_proofs.insert(0, d);
        push(out, "sub-proof-duplicated", format!("part {pi}: sub-proof {i} listed twice (copy first)"), n);
    }
}

pub fn alterations(r: &Resp, cx: &QCtx) -> Vec<Alt> {
    let mut out: Vec<Alt> = vec![];
    // ---- items
    for (pi, part) in r.parts.iter().enumerate() {
        for (ii, it) in part.items.iter().enumerate() {
            for (class, l, x) in item_edits(it, cx) {
                push(&mut out, class, format!("part {pi} item {ii}: {l}"), with_item(r, pi, ii, x));
            }
            for a in cx.alt_items {
                if a != it {
                    push(&mut out, "item-renamed", format!("part {pi} item {ii}: replaced by {}", a.short()), with_item(r, pi, ii, a.clone()));
                }
            }
            // duplicated / dropped
            let mut n = r.clone();
            n.parts[pi].items.push(it.clone());
            push(&mut out, "item-duplicated", format!("part {pi} item {ii}: listed twice"), n);
            let mut n = r.clone();
            n.parts[pi].items.remove(ii);
            push(&mut out, "item-dropped", format!("part {pi} item {ii}: dropped"), n);
            // fields swapped with another item of the same part
            for jj in ii + 1..part.items.len() {
                match (it, &part.items[jj]) {
                    (Item::Tx { th: a, bh: ab, n: an, s: as_ }, Item::Tx { th: b, bh: bb, n: bn, s: bs }) => {
                        let mut n = r.clone();
                        n.parts[pi].items[ii] = Item::Tx { th: b.clone(), bh: ab.clone(), n: *an, s: *as_ };
                        n.parts[pi].items[jj] = Item::Tx { th: a.clone(), bh: bb.clone(), n: *bn, s: *bs };
                        push(&mut out, "items-exchange-fields", format!("part {pi}: items {ii} and {jj} exchange their transaction hashes"), n);
                        let mut n = r.clone();
                        n.parts[pi].items[ii] = Item::Tx { th: a.clone(), bh: ab.clone(), n: *an, s: *bs };
                        n.parts[pi].items[jj] = Item::Tx { th: b.clone(), bh: bb.clone(), n: *bn, s: *as_ };
                        push(&mut out, "items-exchange-fields", format!("part {pi}: items {ii} and {jj} exchange their slot numbers"), n);
                    }
                    (Item::Block { bh: a, n: an, s: as_ }, Item::Block { bh: b, n: bn, s: bs }) => {
                        let mut n = r.clone();
                        n.parts[pi].items[ii] = Item::Block { bh: b.clone(), n: *an, s: *as_ };
                        n.parts[pi].items[jj] = Item::Block { bh: a.clone(), n: *bn, s: *bs };
                        push(&mut out, "items-exchange-fields", format!("part {pi}: items {ii} and {jj} exchange their block hashes"), n);
                    }
                    _ => {}
                }
            }
        }
        for a in cx.alt_items {
            let mut n = r.clone();
            n.parts[pi].items.push(a.clone());
            push(&mut out, "item-added", format!("part {pi}: item {} added", a.short()), n);
        }
        proof_edits(r, pi, cx, &mut out);
        self_made_sub_proofs(r, pi, cx, &mut out);
        map_key_single_leaf_shifts(r, pi, &mut out);
    }
    leaf_neighbour_shifts(r, &mut out);
    // ---- several set proofs (legacy format)
    if r.fmt == Fmt::Legacy {
        for i in 0..r.parts.len() {
            for j in 0..r.parts.len() {
                if i == j {
                    continue;
                }
                // a hash moves from part i to part j (its proof stays behind)
                for k in 0..r.parts[i].items.len() {
                    let mut n = r.clone();
                    let it = n.parts[i].items.remove(k);
                    n.parts[j].items.push(it);
                    push(&mut out, "item-moved-to-other-proof", format!("hash {k} of part {i} moved to part {j}"), n);
                }
                if i < j {
                    let mut n = r.clone();
                    let a = n.parts[i].proof.clone();
                    n.parts[i].proof = n.parts[j].proof.clone();
                    n.parts[j].proof = a;
                    push(&mut out, "proofs-swapped-between-items", format!("proofs of parts {i} and {j} swapped"), n);
                }
            }
            let mut n = r.clone();
            n.parts.remove(i);
            push(&mut out, "part-dropped", format!("part {i} dropped"), n);
        }
        if let Some(f) = cx.foreign {
            for (k, fp) in f.parts.iter().enumerate() {
                let mut n = r.clone();
                n.parts.push(fp.clone());
                push(&mut out, "part-added-from-other-chain", format!("other chain's part {k} appended"), n);
                let mut n = r.clone();
                n.parts.insert(0, fp.clone());
                push(&mut out, "part-added-from-other-chain", format!("other chain's part {k} prepended"), n);
            }
        }
        if let Some(ob) = cx.other_beacon {
            for (k, op) in ob.parts.iter().enumerate() {
                let mut n = r.clone();
                n.parts.push(op.clone());
                push(&mut out, "part-added-from-other-beacon", format!("part {k} of the answer at beacon {} appended", ob.latest_block_number), n);
            }
        }
    } else if r.parts.is_empty() {
        // v2 answer without any certified item: a part appears
        if let Some(f) = cx.foreign
            && let Some(fp) = f.parts.first()
        {
            let mut n = r.clone();
            n.parts.push(fp.clone());
            push(&mut out, "part-from-other-chain", "other chain's part served".into(), n);
        }
    } else {
        let mut n = r.clone();
        n.parts.clear();
        push(&mut out, "part-dropped", "certified part dropped".into(), n);
    }
    // ---- message level
    let l = r.latest_block_number;
    let mut lbns = vec![l + 1, l * 10, l + 15];
    if l > 0 {
        lbns.push(l - 1);
        lbns.push(l / 10);
    }
    for b in cx.beacons {
        if *b != l {
            lbns.push(*b);
        }
    }
    lbns.sort();
    lbns.dedup();
    for x in lbns {
        let mut n = r.clone();
        n.latest_block_number = x;
        push(&mut out, "latest-block-number-edited", format!("latest_block_number {l} -> {x}"), n);
    }
    if r.fmt != Fmt::Legacy {
        let o = r.security_parameter;
        let mut offs = vec![o + 1, o * 10, 0];
        if o > 0 {
            offs.push(o - 1);
        }
        offs.sort();
        offs.dedup();
        for x in offs {
            if x != o {
                let mut n = r.clone();
                n.security_parameter = x;
                push(&mut out, "offset-edited", format!("security_parameter {o} -> {x}"), n);
            }
        }
        for (lab, a, b) in digit_moves(l, o) {
            let mut n = r.clone();
            n.latest_block_number = a;
            n.security_parameter = b;
            push(&mut out, "chars-moved-between-adjacent-fields", format!("latest_block_number|security_parameter {lab}"), n);
        }
    }
    for c in cx.cert_names.iter().cloned().chain(std::iter::once("cert-unknown".to_string())) {
        if c != r.certificate_hash {
            let mut n = r.clone();
            n.certificate_hash = c.clone();
            push(&mut out, "certificate-pointer-edited", format!("certificate_hash -> {c}"), n);
        }
    }
    // drop no-ops
    out.retain(|a| &a.resp != r);
    out
}
