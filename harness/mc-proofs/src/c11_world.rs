//! C11 — the honest side: a small chain, the signed protocol messages (produced by the real
//! signable builders of mithril-common over an in-memory store) and honest aggregator responses
//! (produced with the same MKMap-of-MKTrees steps as `MithrilProverService::compute_proof` /
//! `LegacyMithrilProverService::compute_transactions_proofs`, which live in mithril-aggregator and
//! are not linked here).

use std::collections::{BTreeMap, BTreeSet, HashMap};
use std::ops::Range;
use std::sync::Arc;

use async_trait::async_trait;
use mithril_client::MithrilCertificate;
use mithril_common::StdResult;
use mithril_common::crypto_helper::{MKMap, MKMapNode, MKMapProof, MKTree, MKTreeNode, MKTreeStoreInMemory};
use mithril_common::entities::{
    BlockNumber, BlockNumberOffset, BlockRange, CardanoBlock, CardanoBlockTransactionMkTreeNode,
    CardanoBlockWithTransactions, CardanoTransaction, CardanoTransactionsSetProof, Epoch, MkSetProof,
    ProtocolMessage, ProtocolMessagePartKey, SignedEntityType,
};
use mithril_common::messages::{
    CardanoBlockMessagePart, CardanoBlocksProofsMessage, CardanoTransactionMessagePart,
    CardanoTransactionsProofsMessage, CardanoTransactionsProofsV2Message,
    CardanoTransactionsSetProofMessagePart, MkSetProofMessagePart,
};
use mithril_common::signable_builder::{
    BlockRangeRootRetriever, BlocksTransactionsImporter, CardanoBlocksTransactionsSignableBuilder,
    CardanoTransactionsSignableBuilder, LegacyBlockRangeRootRetriever, SignableBuilder, TransactionsImporter,
};
use mithril_common::test::builder::CardanoTransactionsBuilder;
use mithril_common::test::double::Dummy;
use serde::{Deserialize, Serialize};
use serde_json::{Value, json};

type S = MKTreeStoreInMemory;
type Map = MKMap<BlockRange, MKMapNode<BlockRange, S>, S>;

pub const RANGE_LEN: u64 = 15;
pub const OFFSET: u64 = 5;
pub const EPOCH: u64 = 12;

// ---------------------------------------------------------------------------------------------
// chain
// ---------------------------------------------------------------------------------------------

#[derive(Clone)]
pub struct Chain {
    pub blocks: Vec<CardanoBlockWithTransactions>,
}

impl Chain {
    /// 3 block ranges of 15 blocks; even blocks carry 2 transactions, odd blocks 1
    pub fn base() -> Chain {
        let mut blocks = CardanoTransactionsBuilder::new()
            .max_transactions_per_block(2)
            .blocks_per_block_range(RANGE_LEN as usize)
            .build_blocks_for_block_ranges(3);
        for b in blocks.iter_mut() {
            if *b.block_number % 2 == 1 {
                b.transactions_hashes.truncate(1);
            }
        }
        blocks.sort_by_key(|b| b.block_number);
        Chain { blocks }
    }

    /// the base chain with a block range ([15,30[) that holds a single block with a single
    /// transaction (its hash begins with a digit, as two thirds of hexadecimal hashes do)
    pub fn sparse() -> Chain {
        let mut c = Chain::base();
        c.blocks.retain(|b| !(RANGE_LEN..2 * RANGE_LEN).contains(&*b.block_number) || *b.block_number == 20);
        for b in c.blocks.iter_mut() {
            if *b.block_number == 20 {
                b.transactions_hashes = vec!["9tx-hash-20-lone".to_string()];
            }
        }
        c
    }

    /// another chain of the same shape in which every block hash and transaction hash differs
    pub fn forged(&self) -> Chain {
        let mut c = self.clone();
        for b in c.blocks.iter_mut() {
            b.block_hash = forged_name(&b.block_hash);
            for t in b.transactions_hashes.iter_mut() {
                *t = forged_name(t);
            }
        }
        c
    }

    pub fn blocks_in(&self, r: Range<u64>) -> impl Iterator<Item = &CardanoBlockWithTransactions> {
        self.blocks.iter().filter(move |b| r.contains(&*b.block_number))
    }

    pub fn nodes_in(&self, r: Range<u64>) -> BTreeSet<CardanoBlockTransactionMkTreeNode> {
        self.blocks_in(r).flat_map(|b| b.clone().into_mk_tree_node()).collect()
    }

    /// chain order: by block, then by position inside the block
    pub fn txs_in(&self, r: Range<u64>) -> Vec<CardanoTransaction> {
        self.blocks_in(r).flat_map(|b| b.clone().into_transactions()).collect()
    }

    pub fn tx_by_hash(&self, h: &str, up_to: u64) -> Option<CardanoTransaction> {
        self.txs_in(0..up_to + 1).into_iter().find(|t| t.transaction_hash == h)
    }

    pub fn block_by_hash(&self, h: &str, up_to: u64) -> Option<CardanoBlock> {
        self.blocks_in(0..up_to + 1).find(|b| b.block_hash == h).map(|b| b.clone().into())
    }
}

pub fn forged_name(s: &str) -> String {
    s.replace("-hash-", "-f4ke-")
}

// ---------------------------------------------------------------------------------------------
// in-memory store standing for the chain-data repository of a node that imported up to `beacon`
// ---------------------------------------------------------------------------------------------

pub struct Store {
    pub chain: Chain,
}

fn complete_ranges(up_to: u64) -> Vec<Range<u64>> {
    let mut v = vec![];
    let mut s = 0;
    while s + RANGE_LEN - 1 <= up_to {
        v.push(s..s + RANGE_LEN);
        s += RANGE_LEN;
    }
    v
}

#[async_trait]
impl BlockRangeRootRetriever<S> for Store {
    async fn retrieve_block_range_roots<'a>(
        &'a self,
        up_to_beacon: BlockNumber,
    ) -> StdResult<Box<dyn Iterator<Item = (BlockRange, MKTreeNode)> + 'a>> {
        // roots are stored for complete block ranges only (block_ranges_importer.rs `run`)
        let mut out = vec![];
        for r in complete_ranges(*up_to_beacon) {
            let nodes = self.chain.nodes_in(r.clone());
            if nodes.is_empty() {
                continue;
            }
            let root = MKTree::<S>::new_from_iter(nodes)?.compute_root()?;
            out.push((BlockRange::from(r), root));
        }
        Ok(Box::new(out.into_iter()))
    }

    async fn retrieve_block_ranges_nodes(
        &self,
        range: Range<BlockNumber>,
    ) -> StdResult<BTreeSet<CardanoBlockTransactionMkTreeNode>> {
        Ok(self.chain.nodes_in(*range.start..*range.end))
    }
}

#[async_trait]
impl LegacyBlockRangeRootRetriever<S> for Store {
    async fn retrieve_block_range_roots<'a>(
        &'a self,
        up_to_beacon: BlockNumber,
    ) -> StdResult<Box<dyn Iterator<Item = (BlockRange, MKTreeNode)> + 'a>> {
        // block_ranges_importer.rs `run_legacy`: MKTree over the transactions of the range in chain order
        let mut out = vec![];
        for r in complete_ranges(*up_to_beacon) {
            let txs = self.chain.txs_in(r.clone());
            if txs.is_empty() {
                continue;
            }
            let root = MKTree::<S>::new_from_iter(txs)?.compute_root()?;
            out.push((BlockRange::from(r), root));
        }
        Ok(Box::new(out.into_iter()))
    }
}

struct NoImport;
#[async_trait]
impl BlocksTransactionsImporter for NoImport {
    async fn import(&self, _up_to_beacon: BlockNumber) -> StdResult<()> {
        Ok(())
    }
}
#[async_trait]
impl TransactionsImporter for NoImport {
    async fn import(&self, _up_to_beacon: BlockNumber) -> StdResult<()> {
        Ok(())
    }
}

pub fn block_on<F: std::future::Future>(f: F) -> F::Output {
    tokio::runtime::Builder::new_current_thread().build().expect("tokio runtime").block_on(f)
}

// ---------------------------------------------------------------------------------------------
// mirror of the proof types with public fields (same serde layout ⇒ same bincode bytes; checked
// against the real encoder for every honest proof)
// ---------------------------------------------------------------------------------------------

#[derive(Clone, Debug, PartialEq, Eq, Hash, Serialize, Deserialize)]
pub struct PNode {
    pub hash: Vec<u8>,
}
#[derive(Clone, Debug, PartialEq, Eq, Hash, Serialize, Deserialize)]
pub struct PMk {
    pub inner_root: PNode,
    pub inner_leaves: Vec<(u64, PNode)>,
    pub inner_proof_size: u64,
    pub inner_proof_items: Vec<PNode>,
}
#[derive(Clone, Debug, PartialEq, Eq, Hash, Serialize, Deserialize)]
pub struct PRange {
    pub inner_range: Range<u64>,
}
#[derive(Clone, Debug, PartialEq, Eq, Hash, Serialize, Deserialize)]
pub struct PMap {
    pub master_proof: PMk,
    pub sub_proofs: Vec<(PRange, PMap)>,
}

impl PMap {
    pub fn from_real(p: &MKMapProof<BlockRange>) -> PMap {
        let pm: PMap = serde_json::from_value(serde_json::to_value(p).expect("proof to json")).expect("json to mirror");
        let real = p.to_bytes().expect("real proof to bytes");
        assert_eq!(real, pm.to_bytes(), "mirror proof layout differs from the real MKMapProof encoding");
        let real_json = mithril_common::crypto_helper::ProtocolMkProof::new(p.clone()).to_json_hex().expect("real proof to json hex");
        assert_eq!(real_json, pm.to_json_hex(), "mirror proof JSON differs from the real MKMapProof JSON encoding");
        pm
    }
    pub fn to_bytes(&self) -> Vec<u8> {
        bincode::serde::encode_to_vec(self, bincode::config::standard()).expect("mirror proof to bytes")
    }
    /// v2 messages carry the proof as hex(bincode)
    pub fn to_hex(&self) -> String {
        hex::encode(self.to_bytes())
    }
    /// the legacy message carries the proof as hex(JSON)
    pub fn to_json_hex(&self) -> String {
        hex::encode(serde_json::to_string(self).expect("mirror proof to json"))
    }
    pub fn root_hex(&self) -> String {
        hex::encode(&self.master_proof.inner_root.hash)
    }
}

// ---------------------------------------------------------------------------------------------
// response model (typed, editable) and its wire form
// ---------------------------------------------------------------------------------------------

#[derive(Clone, Debug, PartialEq, Eq, Hash, PartialOrd, Ord)]
pub enum Item {
    /// legacy format: transaction hash only
    Hash(String),
    Tx { th: String, bh: String, n: u64, s: u64 },
    Block { bh: String, n: u64, s: u64 },
}

impl Item {
    pub fn to_json(&self) -> Value {
        match self {
            Item::Hash(h) => json!(h),
            Item::Tx { th, bh, n, s } => json!({"transaction_hash": th, "block_number": n, "slot_number": s, "block_hash": bh}),
            Item::Block { bh, n, s } => json!({"block_hash": bh, "block_number": n, "slot_number": s}),
        }
    }
    /// the Merkle leaf the item stands for, written down from the documented formats
    /// ("Tx/<hash>/<block hash>/<n>/<slot>", "Block/<hash>/<n>/<slot>", legacy: the hash itself)
    pub fn leaf(&self) -> Vec<u8> {
        match self {
            Item::Hash(h) => h.as_bytes().to_vec(),
            Item::Tx { th, bh, n, s } => format!("Tx/{th}/{bh}/{n}/{s}").into_bytes(),
            Item::Block { bh, n, s } => format!("Block/{bh}/{n}/{s}").into_bytes(),
        }
    }
    pub fn short(&self) -> String {
        match self {
            Item::Hash(h) => h.clone(),
            Item::Tx { th, bh, n, s } => format!("{th}@{bh}/{n}/{s}"),
            Item::Block { bh, n, s } => format!("{bh}/{n}/{s}"),
        }
    }
}

#[derive(Clone, Copy, Debug, PartialEq, Eq, Hash)]
pub enum Fmt {
    Legacy,
    TxV2,
    BlockV2,
}
impl Fmt {
    pub fn name(&self) -> &'static str {
        match self {
            Fmt::Legacy => "legacy-tx",
            Fmt::TxV2 => "v2-tx",
            Fmt::BlockV2 => "v2-block",
        }
    }
}

#[derive(Clone, Debug, PartialEq, Eq, Hash)]
pub struct Part {
    pub items: Vec<Item>,
    pub proof: PMap,
}

#[derive(Clone, Debug, PartialEq, Eq, Hash)]
pub struct Resp {
    pub fmt: Fmt,
    pub certificate_hash: String,
    /// legacy: any number of set proofs; v2: none or one
    pub parts: Vec<Part>,
    pub non_certified: Vec<String>,
    pub latest_block_number: u64,
    pub security_parameter: u64,
}

impl Resp {
    pub fn wire(&self) -> Value {
        match self.fmt {
            Fmt::Legacy => json!({
                "certificate_hash": self.certificate_hash,
                "certified_transactions": self.parts.iter().map(|p| json!({
                    "transactions_hashes": p.items.iter().map(|i| i.to_json()).collect::<Vec<_>>(),
                    "proof": p.proof.to_json_hex(),
                })).collect::<Vec<_>>(),
                "non_certified_transactions": self.non_certified,
                "latest_block_number": self.latest_block_number,
            }),
            Fmt::TxV2 | Fmt::BlockV2 => {
                let part = self.parts.first().map(|p| json!({
                    "items": p.items.iter().map(|i| i.to_json()).collect::<Vec<_>>(),
                    "proof": p.proof.to_hex(),
                }));
                let (k_cert, k_non) = if self.fmt == Fmt::TxV2 {
                    ("certified_transactions", "non_certified_transactions")
                } else {
                    ("certified_blocks", "non_certified_blocks")
                };
                let mut m = serde_json::Map::new();
                m.insert("certificate_hash".into(), json!(self.certificate_hash));
                m.insert(k_cert.into(), part.unwrap_or(Value::Null));
                m.insert(k_non.into(), json!(self.non_certified));
                m.insert("latest_block_number".into(), json!(self.latest_block_number));
                m.insert("security_parameter".into(), json!(self.security_parameter));
                Value::Object(m)
            }
        }
    }

    /// readable form for replay files / samples (proofs summarised)
    pub fn describe(&self) -> Value {
        json!({
            "format": self.fmt.name(),
            "certificate_hash": self.certificate_hash,
            "latest_block_number": self.latest_block_number,
            "security_parameter": self.security_parameter,
            "non_certified": self.non_certified,
            "parts": self.parts.iter().map(|p| json!({
                "items": p.items.iter().map(|i| i.short()).collect::<Vec<_>>(),
                "proof_root": p.proof.root_hex(),
                "sub_proofs": p.proof.sub_proofs.iter().map(|(k, sp)| json!({
                    "range": format!("{}-{}", k.inner_range.start, k.inner_range.end),
                    "root": sp.root_hex(),
                    "leaves": sp.master_proof.inner_leaves.iter().map(|(pos, l)| format!("{pos}:{}", String::from_utf8_lossy(&l.hash))).collect::<Vec<_>>(),
                    "proof_items": sp.master_proof.inner_proof_items.len(),
                })).collect::<Vec<_>>(),
            })).collect::<Vec<_>>(),
        })
    }
}

// ---------------------------------------------------------------------------------------------
// worlds: what one certificate signs
// ---------------------------------------------------------------------------------------------

pub struct World {
    pub name: String,
    pub legacy: bool,
    pub beacon: u64,
    pub offset: u64,
    pub cert: MithrilCertificate,
    pub root_hex: String,
    /// the certified set, written as plain tuples (the oracle's set-membership reference)
    pub items: BTreeSet<Item>,
}

fn seed_parts(pm: &mut ProtocolMessage) {
    pm.set_message_part(ProtocolMessagePartKey::NextAggregateVerificationKey, "next-avk-of-the-harness".to_string());
    pm.set_message_part(ProtocolMessagePartKey::NextProtocolParameters, "next-protocol-parameters-hash".to_string());
    pm.set_message_part(ProtocolMessagePartKey::CurrentEpoch, EPOCH.to_string());
}

pub fn certificate(name: &str, entity: SignedEntityType, pm: ProtocolMessage) -> MithrilCertificate {
    let mut c = MithrilCertificate::dummy();
    c.hash = name.to_string();
    c.epoch = Epoch(EPOCH);
    c.signed_entity_type = entity.into();
    c.signed_message = pm.compute_hash();
    c.protocol_message = pm;
    c
}

pub fn world_v2(chain: &Chain, beacon: u64) -> World {
    let store = Arc::new(Store { chain: chain.clone() });
    let builder = CardanoBlocksTransactionsSignableBuilder::<S>::new(Arc::new(NoImport), store.clone());
    let mut pm = block_on(builder.compute_protocol_message((BlockNumber(beacon), BlockNumberOffset(OFFSET))))
        .expect("v2 signable");
    let root_hex = pm.get_message_part(&ProtocolMessagePartKey::CardanoBlocksTransactionsMerkleRoot).unwrap().clone();
    seed_parts(&mut pm);
    let name = format!("cert-v2-{beacon}");
    let cert = certificate(
        &name,
        SignedEntityType::CardanoBlocksTransactions(Epoch(EPOCH), BlockNumber(beacon), BlockNumberOffset(OFFSET)),
        pm,
    );
    let mut items = BTreeSet::new();
    for b in chain.blocks_in(0..beacon + 1) {
        items.insert(Item::Block { bh: b.block_hash.clone(), n: *b.block_number, s: *b.slot_number });
        for t in &b.transactions_hashes {
            items.insert(Item::Tx { th: t.clone(), bh: b.block_hash.clone(), n: *b.block_number, s: *b.slot_number });
        }
    }
    World { name, legacy: false, beacon, offset: OFFSET, cert, root_hex, items }
}

pub fn world_legacy(chain: &Chain, beacon: u64) -> World {
    let store = Arc::new(Store { chain: chain.clone() });
    let builder = CardanoTransactionsSignableBuilder::<S>::new(Arc::new(NoImport), store.clone());
    let mut pm = block_on(builder.compute_protocol_message(BlockNumber(beacon))).expect("legacy signable");
    let root_hex = pm.get_message_part(&ProtocolMessagePartKey::CardanoTransactionsMerkleRoot).unwrap().clone();
    seed_parts(&mut pm);
    let name = format!("cert-legacy-{beacon}");
    let cert = certificate(&name, SignedEntityType::CardanoTransactions(Epoch(EPOCH), BlockNumber(beacon)), pm);
    let mut items = BTreeSet::new();
    for r in complete_ranges(beacon) {
        for t in chain.txs_in(r) {
            items.insert(Item::Hash(t.transaction_hash));
        }
    }
    World { name, legacy: true, beacon, offset: 0, cert, root_hex, items }
}

// ---------------------------------------------------------------------------------------------
// honest responses (prover mirror)
// ---------------------------------------------------------------------------------------------

fn v2_proof<T>(chain: &Chain, up_to: u64, items: Vec<T>, block_number: fn(&T) -> u64) -> Option<MkSetProof<T>>
where
    T: Into<CardanoBlockTransactionMkTreeNode> + mithril_common::entities::IntoMKTreeNode + Clone,
{
    // prover.rs `compute_proof`
    if items.is_empty() {
        return None;
    }
    let nodes_to_prove: Vec<CardanoBlockTransactionMkTreeNode> = items.iter().cloned().map(Into::into).collect();
    let numbers: BTreeSet<u64> = items.iter().map(block_number).collect();
    let mut ranges: Vec<Range<u64>> = vec![];
    for n in numbers {
        if n > up_to {
            continue;
        }
        let start = n / RANGE_LEN * RANGE_LEN;
        let r = start..(start + RANGE_LEN).min(up_to + 1);
        if !r.is_empty() && ranges.last() != Some(&r) {
            ranges.push(r);
        }
    }
    let mut per_range: HashMap<BlockRange, BTreeSet<CardanoBlockTransactionMkTreeNode>> = HashMap::new();
    for r in ranges {
        for node in chain.nodes_in(r) {
            per_range.entry(BlockRange::from_block_number(node.block_number())).or_default().insert(node);
        }
    }
    let store = Store { chain: chain.clone() };
    let mut mk_map: Map =
        block_on(BlockRangeRootRetriever::<S>::compute_merkle_map_from_block_range_roots(&store, BlockNumber(up_to)))
            .expect("merkle map of block range roots");
    let trees: BTreeMap<BlockRange, MKTree<S>> =
        per_range.into_iter().map(|(k, set)| (k, MKTree::<S>::new_from_iter(set).expect("sub tree"))).collect();
    for (k, t) in trees {
        mk_map.replace(k, t.into()).expect("replace block range by its tree (same root)");
    }
    let proof = mk_map.compute_proof(&nodes_to_prove).expect("v2 proof");
    Some(MkSetProof::new(items, proof))
}

fn part_from_json(fmt: Fmt, v: &Value) -> Part {
    let (items_key, proof_hex) = match fmt {
        Fmt::Legacy => ("transactions_hashes", v["proof"].as_str().unwrap()),
        _ => ("items", v["proof"].as_str().unwrap()),
    };
    let real = match fmt {
        Fmt::Legacy => mithril_common::crypto_helper::ProtocolMkProof::from_json_hex(proof_hex),
        _ => mithril_common::crypto_helper::ProtocolMkProof::from_bytes_hex(proof_hex),
    }
    .expect("honest proof decodes");
    let proof = PMap::from_real(&real);
    let items = v[items_key]
        .as_array()
        .unwrap()
        .iter()
        .map(|i| match fmt {
            Fmt::Legacy => Item::Hash(i.as_str().unwrap().to_string()),
            Fmt::TxV2 => Item::Tx {
                th: i["transaction_hash"].as_str().unwrap().to_string(),
                bh: i["block_hash"].as_str().unwrap().to_string(),
                n: i["block_number"].as_u64().unwrap(),
                s: i["slot_number"].as_u64().unwrap(),
            },
            Fmt::BlockV2 => Item::Block {
                bh: i["block_hash"].as_str().unwrap().to_string(),
                n: i["block_number"].as_u64().unwrap(),
                s: i["slot_number"].as_u64().unwrap(),
            },
        })
        .collect();
    Part { items, proof }
}

/// the response an honest aggregator gives for `query` with the certificate `cert_name` at `up_to`
pub fn honest_response(chain: &Chain, fmt: Fmt, cert_name: &str, up_to: u64, query: &[String]) -> Resp {
    match fmt {
        Fmt::TxV2 => {
            let found: Vec<CardanoTransaction> = query.iter().filter_map(|h| chain.tx_by_hash(h, up_to)).collect();
            let non: Vec<String> = query.iter().filter(|h| chain.tx_by_hash(h, up_to).is_none()).cloned().collect();
            let part: Option<MkSetProofMessagePart<CardanoTransactionMessagePart>> =
                v2_proof(chain, up_to, found, |t| *t.block_number).map(|p| p.try_into().expect("message part"));
            let msg = CardanoTransactionsProofsV2Message::new(cert_name, part, non, BlockNumber(up_to), BlockNumberOffset(OFFSET));
            from_wire(fmt, &serde_json::to_value(&msg).unwrap())
        }
        Fmt::BlockV2 => {
            let found: Vec<CardanoBlock> = query.iter().filter_map(|h| chain.block_by_hash(h, up_to)).collect();
            let non: Vec<String> = query.iter().filter(|h| chain.block_by_hash(h, up_to).is_none()).cloned().collect();
            let part: Option<MkSetProofMessagePart<CardanoBlockMessagePart>> =
                v2_proof(chain, up_to, found, |b| *b.block_number).map(|p| p.try_into().expect("message part"));
            let msg = CardanoBlocksProofsMessage::new(cert_name, part, non, BlockNumber(up_to), BlockNumberOffset(OFFSET));
            from_wire(fmt, &serde_json::to_value(&msg).unwrap())
        }
        Fmt::Legacy => {
            // prover_legacy.rs `compute_transactions_proofs`
            let found: Vec<CardanoTransaction> = query.iter().filter_map(|h| chain.tx_by_hash(h, up_to)).collect();
            let ranges: BTreeSet<u64> = found.iter().map(|t| *t.block_number / RANGE_LEN * RANGE_LEN).collect();
            let store = Store { chain: chain.clone() };
            let mut mk_map: Map = block_on(LegacyBlockRangeRootRetriever::<S>::compute_merkle_map_from_block_range_roots(
                &store,
                BlockNumber(up_to),
            ))
            .expect("legacy merkle map");
            let mut set_proofs: Vec<CardanoTransactionsSetProof> = vec![];
            let mut ok = true;
            for start in ranges {
                let txs = chain.txs_in(start..start + RANGE_LEN);
                let tree = MKTree::<S>::new(&txs).expect("legacy sub tree");
                if mk_map.replace(BlockRange::from(start..start + RANGE_LEN), tree.into()).is_err() {
                    ok = false; // range not signed yet (incomplete at this beacon): the real prover answers an error
                }
            }
            if ok && let Ok(proof) = mk_map.compute_proof(query) {
                let leaves = proof.leaves();
                let certified: Vec<String> =
                    query.iter().filter(|h| leaves.contains(&h.as_str().into())).cloned().collect();
                set_proofs.push(CardanoTransactionsSetProof::new(certified, proof));
            }
            let certified_all: BTreeSet<String> =
                set_proofs.iter().flat_map(|p| p.transactions_hashes().to_vec()).collect();
            let non: Vec<String> = query.iter().filter(|h| !certified_all.contains(*h)).cloned().collect();
            let parts: Vec<CardanoTransactionsSetProofMessagePart> =
                set_proofs.into_iter().map(|p| p.try_into().expect("legacy message part")).collect();
            let msg = CardanoTransactionsProofsMessage::new(cert_name, parts, non, BlockNumber(up_to));
            from_wire(fmt, &serde_json::to_value(&msg).unwrap())
        }
    }
}

pub fn from_wire(fmt: Fmt, v: &Value) -> Resp {
    let parts = match fmt {
        Fmt::Legacy => v["certified_transactions"].as_array().unwrap().iter().map(|p| part_from_json(fmt, p)).collect(),
        Fmt::TxV2 => match &v["certified_transactions"] {
            Value::Null => vec![],
            p => vec![part_from_json(fmt, p)],
        },
        Fmt::BlockV2 => match &v["certified_blocks"] {
            Value::Null => vec![],
            p => vec![part_from_json(fmt, p)],
        },
    };
    let non_key = if fmt == Fmt::BlockV2 { "non_certified_blocks" } else { "non_certified_transactions" };
    Resp {
        fmt,
        certificate_hash: v["certificate_hash"].as_str().unwrap().to_string(),
        parts,
        non_certified: v[non_key].as_array().unwrap().iter().map(|s| s.as_str().unwrap().to_string()).collect(),
        latest_block_number: v["latest_block_number"].as_u64().unwrap(),
        security_parameter: v["security_parameter"].as_u64().unwrap_or(0),
    }
}

// ---------------------------------------------------------------------------------------------
// material a dishonest aggregator can make on its own: a self-consistent proof over its own tree
// ---------------------------------------------------------------------------------------------

/// the leaf the real code derives from an item (same conversions as prover and verifier)
pub fn real_leaf(it: &Item) -> MKTreeNode {
    use mithril_common::entities::{IntoMKTreeNode, SlotNumber};
    match it {
        Item::Hash(h) => h.as_str().into(),
        Item::Tx { th, bh, n, s } => {
            CardanoTransaction::new(th.clone(), BlockNumber(*n), SlotNumber(*s), bh.clone()).into_mk_tree_node()
        }
        Item::Block { bh, n, s } => CardanoBlock::new(bh.clone(), BlockNumber(*n), SlotNumber(*s)).into_mk_tree_node(),
    }
}

/// a real `MKTree` over `tree_items` and its (valid) proof for `proven`, as a one-level map proof
pub fn self_made_sub_proof(tree_items: &[Item], proven: &[Item]) -> PMap {
    let leaves: Vec<MKTreeNode> = tree_items.iter().map(real_leaf).collect();
    let tree = MKTree::<S>::new(&leaves).expect("self-made tree");
    let proof = tree.compute_proof(&proven.iter().map(real_leaf).collect::<Vec<_>>()).expect("self-made proof");
    let mp: MKMapProof<BlockRange> = proof.into();
    mp.verify().expect("a self-made sub-proof is a valid proof of its own tree");
    PMap::from_real(&mp)
}
