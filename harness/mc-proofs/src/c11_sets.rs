//! C11 — transaction / block set proofs: the client side (real code), the oracle, the sweep.

use std::collections::{BTreeSet, HashSet};

use mc_core::{Report, catch, hash64};
use mithril_client::MessageBuilder;
use mithril_common::messages::{
    CardanoBlocksProofsMessage, CardanoTransactionsProofsMessage, CardanoTransactionsProofsV2Message,
    VerifyCardanoTransactionsProofsError, VerifyProofsV2Error,
};
use serde_json::{Value, json};

use crate::c11_alter::{Alt, QCtx, SelfMadeSub, alterations};
use crate::c11_world::{Chain, Fmt, Item, RANGE_LEN, Resp, World, forged_name, honest_response, self_made_sub_proof};

pub const KEY_LEAF_NEIGHBOUR: &str = "C11/item-leaf-and-neighbour-node-concatenation";

pub struct Reported {
    pub cert: String,
    pub items: Vec<Item>,
    pub latest_block_number: u64,
    pub offset: Option<u64>,
    pub root: Option<String>,
}

pub enum Verdict {
    Certified(Reported),
    Rejected(String),
}

/// What a client does with an answer (client-cli `cardano-transaction certify`, `cardano-block
/// certify`; examples/client-cardano-transaction*): verify the proofs, fetch the certificate named
/// in the answer (here: from the set of certificates whose chain is valid), recompute the message,
/// compare with the signed one.
pub fn client(worlds: &[World], fmt: Fmt, wire: &Value) -> Verdict {
    let r = catch(|| -> Verdict {
        let mb = MessageBuilder::new();
        match fmt {
            Fmt::Legacy => {
                let msg: CardanoTransactionsProofsMessage = match serde_json::from_value(wire.clone()) {
                    Ok(m) => m,
                    Err(_) => return Verdict::Rejected("rejected:message-does-not-parse".into()),
                };
                let verified = match msg.verify() {
                    Ok(v) => v,
                    Err(e) => {
                        return Verdict::Rejected(format!(
                            "rejected:verify:{}",
                            match e {
                                VerifyCardanoTransactionsProofsError::InvalidSetProof { .. } => "invalid-set-proof",
                                VerifyCardanoTransactionsProofsError::NoCertifiedTransaction => "no-certified-transaction",
                                VerifyCardanoTransactionsProofsError::NonMatchingMerkleRoot => "non-matching-merkle-root",
                                VerifyCardanoTransactionsProofsError::MalformedData(_) => "malformed-data",
                            }
                        ));
                    }
                };
                let Some(w) = worlds.iter().find(|w| w.name == verified.certificate_hash()) else {
                    return Verdict::Rejected("rejected:certificate-not-found".into());
                };
                let message = mb.compute_cardano_transactions_proofs_message(&w.cert, &verified);
                if !w.cert.match_message(&message) {
                    return Verdict::Rejected("rejected:message-mismatch".into());
                }
                Verdict::Certified(Reported {
                    cert: w.name.clone(),
                    items: verified.certified_transactions().iter().map(|h| Item::Hash(h.clone())).collect(),
                    // the legacy result object does not expose the number; the user sees the message's field
                    latest_block_number: *msg.latest_block_number,
                    offset: None,
                    root: None,
                })
            }
            Fmt::TxV2 => {
                let msg: CardanoTransactionsProofsV2Message = match serde_json::from_value(wire.clone()) {
                    Ok(m) => m,
                    Err(_) => return Verdict::Rejected("rejected:message-does-not-parse".into()),
                };
                let verified = match msg.verify() {
                    Ok(v) => v,
                    Err(e) => return Verdict::Rejected(v2_err(&e)),
                };
                let Some(w) = worlds.iter().find(|w| w.name == verified.certificate_hash()) else {
                    return Verdict::Rejected("rejected:certificate-not-found".into());
                };
                let message = mb.compute_cardano_transactions_proofs_v2_message(&w.cert, &verified);
                if !w.cert.match_message(&message) {
                    return Verdict::Rejected("rejected:message-mismatch".into());
                }
                Verdict::Certified(Reported {
                    cert: w.name.clone(),
                    items: verified
                        .certified_transactions()
                        .iter()
                        .map(|t| Item::Tx {
                            th: t.transaction_hash.clone(),
                            bh: t.block_hash.clone(),
                            n: *t.block_number,
                            s: *t.slot_number,
                        })
                        .collect(),
                    latest_block_number: *verified.latest_certified_block_number(),
                    offset: Some(*verified.security_parameter()),
                    root: Some(verified.certified_merkle_root().to_string()),
                })
            }
            Fmt::BlockV2 => {
                let msg: CardanoBlocksProofsMessage = match serde_json::from_value(wire.clone()) {
                    Ok(m) => m,
                    Err(_) => return Verdict::Rejected("rejected:message-does-not-parse".into()),
                };
                let verified = match msg.verify() {
                    Ok(v) => v,
                    Err(e) => return Verdict::Rejected(v2_err(&e)),
                };
                let Some(w) = worlds.iter().find(|w| w.name == verified.certificate_hash()) else {
                    return Verdict::Rejected("rejected:certificate-not-found".into());
                };
                let message = mb.compute_cardano_blocks_proofs_message(&w.cert, &verified);
                if !w.cert.match_message(&message) {
                    return Verdict::Rejected("rejected:message-mismatch".into());
                }
                Verdict::Certified(Reported {
                    cert: w.name.clone(),
                    items: verified
                        .certified_blocks()
                        .iter()
                        .map(|b| Item::Block { bh: b.block_hash.clone(), n: *b.block_number, s: *b.slot_number })
                        .collect(),
                    latest_block_number: *verified.latest_certified_block_number(),
                    offset: Some(*verified.security_parameter()),
                    root: Some(verified.certified_merkle_root().to_string()),
                })
            }
        }
    });
    match r {
        Ok(v) => v,
        Err(_) => Verdict::Rejected("rejected:panic".into()),
    }
}

fn v2_err(e: &VerifyProofsV2Error) -> String {
    format!(
        "rejected:verify:{}",
        match e {
            VerifyProofsV2Error::InvalidSetProof { .. } => "invalid-set-proof",
            VerifyProofsV2Error::NoCertifiedItem(_) => "no-certified-item",
            VerifyProofsV2Error::MalformedData(..) => "malformed-data",
        }
    )
}

/// The property, restated: what may be reported as certified under certificate `w`.
/// Returns (clause, explanation) for every clause that fails.
pub fn oracle(w: &World, resp: &Resp, rep: &Reported) -> Vec<(&'static str, String)> {
    let mut bad = vec![];
    for it in &rep.items {
        if !w.items.contains(it) {
            bad.push(("uncertified-item-reported", format!("reported item {} is not a member of the set signed by {}", it.short(), w.name)));
        }
    }
    if rep.latest_block_number != w.beacon {
        bad.push(("latest-block-number-not-the-signed-one", format!("reported latest block number {} but {} signs {}", rep.latest_block_number, w.name, w.beacon)));
    }
    if let Some(o) = rep.offset
        && o != w.offset
    {
        bad.push(("offset-not-the-signed-one", format!("reported security parameter {o} but {} signs {}", w.name, w.offset)));
    }
    if let Some(r) = &rep.root
        && r != &w.root_hex
    {
        bad.push(("root-not-the-signed-one", format!("certified root {r} but {} signs {}", w.name, w.root_hex)));
    }
    // one single root: every proof of the answer carries the signed root
    for (i, p) in resp.parts.iter().enumerate() {
        if p.proof.root_hex() != w.root_hex {
            bad.push(("proofs-of-different-roots", format!("set proof {i} has root {} but {} signs {}", p.proof.root_hex(), w.name, w.root_hex)));
        }
    }
    bad
}

pub struct Setup {
    pub chain: Chain,
    pub forged: Chain,
    pub worlds: Vec<World>,
}

struct Base {
    resp: Resp,
    shape: &'static str,
}

/// one job = one (format, beacon, query): the honest answer(s) and their deviation ball
pub struct Job {
    pub fmt: Fmt,
    pub beacon: u64,
    pub query: Vec<String>,
    pub depth: usize,
    /// this job contributes samples to the evidence file
    pub sample: bool,
    /// depth-2 jobs are cut by first alteration: this job runs the honest answer and level 1 when
    /// `chunk == 0`, and the second level below the first alterations `i` with `i % chunks == chunk`
    pub chunk: usize,
    pub chunks: usize,
    /// run on the chain with a single-transaction block range
    pub sparse: bool,
}

fn other_blocks(chain: &Chain, n: u64) -> Vec<(String, u64, u64)> {
    // the adjacent block and a block at the same place in another range
    let mut v = vec![];
    for m in [if n % RANGE_LEN == RANGE_LEN - 1 { n - 1 } else { n + 1 }, (n + RANGE_LEN) % (3 * RANGE_LEN)] {
        if let Some(b) = chain.blocks.iter().find(|b| *b.block_number == m) {
            v.push((b.block_hash.clone(), *b.block_number, *b.slot_number));
        }
    }
    v
}

fn alt_items(setup: &Setup, fmt: Fmt, beacon: u64, honest: &Resp) -> Vec<Item> {
    let chain = &setup.chain;
    let proven: BTreeSet<Item> = honest.parts.iter().flat_map(|p| p.items.clone()).collect();
    let first_n = match proven.iter().next() {
        Some(Item::Tx { n, .. }) | Some(Item::Block { n, .. }) => *n,
        Some(Item::Hash(h)) => chain.tx_by_hash(h, 1000).map(|t| *t.block_number).unwrap_or(0),
        None => 0,
    };
    let mk = |b: &mithril_common::entities::CardanoBlockWithTransactions, ti: usize| -> Item {
        match fmt {
            Fmt::Legacy => Item::Hash(b.transactions_hashes[ti.min(b.transactions_hashes.len() - 1)].clone()),
            Fmt::TxV2 => Item::Tx {
                th: b.transactions_hashes[ti.min(b.transactions_hashes.len() - 1)].clone(),
                bh: b.block_hash.clone(),
                n: *b.block_number,
                s: *b.slot_number,
            },
            Fmt::BlockV2 => Item::Block { bh: b.block_hash.clone(), n: *b.block_number, s: *b.slot_number },
        }
    };
    let mut v: Vec<Item> = vec![];
    let range_start = first_n / RANGE_LEN * RANGE_LEN;
    // certified, same block range as a proven item, not proven itself (same block first, if the block has two)
    for cand in [first_n, range_start + 2, range_start + 3] {
        if let Some(b) = chain.blocks.iter().find(|b| *b.block_number == cand && cand <= beacon) {
            for ti in 0..b.transactions_hashes.len() {
                let it = mk(b, ti);
                if !proven.contains(&it) && !v.contains(&it) && v.len() < 2 {
                    v.push(it);
                }
            }
        }
    }
    // certified, another range
    if let Some(b) = chain.blocks.iter().find(|b| *b.block_number == (range_start + RANGE_LEN + 4) % (2 * RANGE_LEN)) {
        let it = mk(b, 0);
        if !proven.contains(&it) {
            v.push(it);
        }
    }
    // on the chain but beyond what this certificate signs
    if let Some(b) = chain.blocks.iter().find(|b| *b.block_number == 43) {
        let it = mk(b, 0);
        if !setup.worlds.iter().any(|w| w.beacon == beacon && w.items.contains(&it)) {
            v.push(it);
        }
    }
    // made up
    v.push(match fmt {
        Fmt::Legacy => Item::Hash("tx-hash-made-up".into()),
        Fmt::TxV2 => Item::Tx { th: "tx-hash-made-up".into(), bh: chain.blocks[1].block_hash.clone(), n: 1, s: 101 },
        Fmt::BlockV2 => Item::Block { bh: "block-hash-made-up".into(), n: 1, s: 101 },
    });
    // the other chain's counterpart of a proven item
    if let Some(p) = proven.iter().next() {
        v.push(match p {
            Item::Hash(h) => Item::Hash(forged_name(h)),
            Item::Tx { th, bh, n, s } => Item::Tx { th: forged_name(th), bh: forged_name(bh), n: *n, s: *s },
            Item::Block { bh, n, s } => Item::Block { bh: forged_name(bh), n: *n, s: *s },
        });
    }
    v
}

/// For each of the chain's block ranges: sub-proofs an aggregator can make without the signers —
/// real `MKTree`s of its own holding items that are not on the chain, with their valid proofs.
fn self_made_subs(chain: &Chain, fmt: Fmt, honest: &Resp) -> Vec<SelfMadeSub> {
    let mut v = vec![];
    for start in [0u64, RANGE_LEN, 2 * RANGE_LEN] {
        let key = (start, start + RANGE_LEN);
        let in_range: Vec<&mithril_common::entities::CardanoBlockWithTransactions> = chain.blocks_in(start..start + RANGE_LEN).collect();
        let Some(b0) = in_range.first().copied() else { continue };
        let b = in_range.get(1).copied().unwrap_or(b0);
        let made_up = match fmt {
            Fmt::Legacy => Item::Hash(format!("tx-hash-not-on-chain-{start}")),
            Fmt::TxV2 => Item::Tx { th: format!("tx-hash-not-on-chain-{start}"), bh: b.block_hash.clone(), n: *b.block_number, s: *b.slot_number },
            Fmt::BlockV2 => Item::Block { bh: format!("block-hash-other-fork-{}", *b.block_number), n: *b.block_number, s: *b.slot_number },
        };
        // a genuine leaf of the range to sit next to the forged one: a proven item of that range if
        // the honest answer has one, the range's first item otherwise
        let genuine = honest
            .parts
            .iter()
            .flat_map(|p| p.items.iter())
            .find(|it| match it {
                Item::Tx { n, .. } | Item::Block { n, .. } => (start..start + RANGE_LEN).contains(n),
                Item::Hash(h) => chain.txs_in(start..start + RANGE_LEN).iter().any(|t| &t.transaction_hash == h),
            })
            .cloned()
            .unwrap_or_else(|| match fmt {
                Fmt::Legacy => Item::Hash(b0.transactions_hashes[0].clone()),
                Fmt::TxV2 => Item::Tx { th: b0.transactions_hashes[0].clone(), bh: b0.block_hash.clone(), n: *b0.block_number, s: *b0.slot_number },
                Fmt::BlockV2 => Item::Block { bh: b0.block_hash.clone(), n: *b0.block_number, s: *b0.slot_number },
            });
        v.push(SelfMadeSub {
            key,
            what: "a self-made sub-proof over a tree holding one item that is not on the chain",
            items: vec![made_up.clone()],
            proof: self_made_sub_proof(std::slice::from_ref(&made_up), std::slice::from_ref(&made_up)),
            also_under_unproven_key: true,
        });
        v.push(SelfMadeSub {
            key,
            what: "a self-made sub-proof over a tree holding a genuine leaf of the range and an item that is not on the chain (both proven)",
            items: vec![made_up.clone()],
            proof: self_made_sub_proof(&[genuine.clone(), made_up.clone()], &[genuine.clone(), made_up.clone()]),
            also_under_unproven_key: false,
        });
        if let Item::Tx { th, .. } = &genuine {
            // a genuine transaction moved to another block of the range
            let moved = Item::Tx { th: th.clone(), bh: b.block_hash.clone(), n: *b.block_number, s: *b.slot_number };
            if moved != genuine {
                v.push(SelfMadeSub {
                    key,
                    what: "a self-made sub-proof over a tree holding a genuine transaction moved to another block",
                    items: vec![moved.clone()],
                    proof: self_made_sub_proof(&[made_up.clone(), moved.clone()], std::slice::from_ref(&moved)),
                    also_under_unproven_key: false,
                });
            }
        }
    }
    v
}

pub struct JobResult {
    pub rep: Report,
    /// classes that violated at depth 1 (for attribution of depth-2 violations)
    pub bases: u64,
    /// first answer of this job reported as certified although it states something false (known key)
    pub example: Option<Value>,
}

pub fn cert_name(fmt: Fmt, beacon: u64) -> String {
    if fmt == Fmt::Legacy { format!("cert-legacy-{beacon}") } else { format!("cert-v2-{beacon}") }
}

pub fn run_job(setup: &Setup, job: &Job) -> JobResult {
    let mut rep = Report::new("exploration", "");
    let fmt = job.fmt;
    let name = cert_name(fmt, job.beacon);
    let world = setup.worlds.iter().find(|w| w.name == name).expect("world");
    let honest = honest_response(&setup.chain, fmt, &name, job.beacon, &job.query);
    let fquery: Vec<String> = job.query.iter().map(|q| forged_name(q)).collect();
    let foreign = honest_response(&setup.forged, fmt, &name, job.beacon, &fquery);
    let other_b = setup
        .worlds
        .iter()
        .find(|w| w.legacy == world.legacy && w.beacon != job.beacon)
        .map(|w| honest_response(&setup.chain, fmt, &w.name, w.beacon, &job.query));

    let mut bases = vec![Base { resp: honest.clone(), shape: "as the prover answers" }];
    if fmt == Fmt::Legacy && honest.parts.first().map(|p| p.items.len()).unwrap_or(0) > 1 {
        // the same true answer as one set proof per transaction (the format allows several set proofs)
        let mut split = honest.clone();
        split.parts.clear();
        for it in &honest.parts[0].items {
            if let Item::Hash(h) = it {
                let single = honest_response(&setup.chain, fmt, &name, job.beacon, std::slice::from_ref(h));
                split.parts.extend(single.parts);
            }
        }
        bases.push(Base { resp: split, shape: "one set proof per transaction" });
    }
    let foreign_split = if fmt == Fmt::Legacy && bases.len() > 1 {
        let mut split = foreign.clone();
        split.parts.clear();
        for it in foreign.parts.first().map(|p| p.items.clone()).unwrap_or_default() {
            if let Item::Hash(h) = it {
                split.parts.extend(honest_response(&setup.forged, fmt, &name, job.beacon, &[h]).parts);
            }
        }
        Some(split)
    } else {
        None
    };

    let cert_names: Vec<String> = setup.worlds.iter().map(|w| w.name.clone()).collect();
    let beacons: Vec<u64> = setup.worlds.iter().map(|w| w.beacon).collect();
    let range_keys: Vec<(u64, u64)> = vec![(0, 15), (15, 30), (30, 45), (45, 60), (0, 1), (0, 30)];
    let alts_pool = alt_items(setup, fmt, job.beacon, &honest);
    let first_n = honest
        .parts
        .iter()
        .flat_map(|p| p.items.iter())
        .find_map(|i| match i {
            Item::Tx { n, .. } | Item::Block { n, .. } => Some(*n),
            _ => None,
        })
        .unwrap_or(0);
    let oblocks = other_blocks(&setup.chain, first_n);

    let self_made = self_made_subs(&setup.chain, fmt, &honest);
    let present: BTreeSet<Item> = honest.parts.iter().flat_map(|p| p.items.clone()).collect();
    let mut nbases = 0;
    for (bi, base) in bases.iter().enumerate() {
        if job.chunk == 0 {
            nbases += 1;
        }
        let cx = QCtx {
            cert_names: &cert_names,
            beacons: &beacons,
            foreign: Some(if bi == 1 { foreign_split.as_ref().unwrap() } else { &foreign }),
            other_beacon: other_b.as_ref(),
            alt_items: &alts_pool,
            other_blocks: &oblocks,
            range_keys: &range_keys,
            self_made: &self_made,
        };
        // ---- completeness on the honest answer
        let wire = base.resp.wire();
        if job.chunk == 0 {
        rep.eval();
        match client(&setup.worlds, fmt, &wire) {
            Verdict::Certified(r) => {
                rep.outcome("honest:certified");
                rep.nontrivial(&("honest", hash64(&base.resp)));
                let got: BTreeSet<Item> = r.items.iter().cloned().collect();
                let bad = oracle(world, &base.resp, &r);
                if got != present || !bad.is_empty() || r.cert != name {
                    rep.violation(
                        &format!("C11/{}:honest-answer-misreported", fmt.name()),
                        format!("honest answer ({}) for query {:?} at beacon {}: reported {:?}, expected {:?}; {:?}", base.shape, job.query, job.beacon, got, present, bad),
                        json!({"part": "sets", "sparse_chain": job.sparse, "format": fmt.name(), "labels": ["honest"], "wire": wire, "answer": base.resp.describe()}),
                    );
                }
                if job.sample && bi == 0 && job.query.len() == 3 {
                    rep.sample(json!({"case": "honest answer", "format": fmt.name(), "query": job.query, "beacon": job.beacon, "answer": base.resp.describe(), "verdict": "certified"}));
                }
            }
            Verdict::Rejected(why) => {
                if present.is_empty() {
                    rep.outcome("honest:nothing-to-certify");
                } else {
                    rep.outcome("honest:rejected");
                    rep.violation(
                        &format!("C11/{}:honest-answer-rejected", fmt.name()),
                        format!("honest answer ({}) for query {:?} at beacon {} is {why}", base.shape, job.query, job.beacon),
                        json!({"part": "sets", "sparse_chain": job.sparse, "format": fmt.name(), "labels": ["honest"], "wire": wire, "answer": base.resp.describe()}),
                    );
                }
            }
        }
        }
        // ---- the deviation ball
        let mut seen: HashSet<u64> = HashSet::new();
        seen.insert(hash64(&base.resp));
        let level1 = alterations(&base.resp, &cx);
        let mut fresh1 = vec![];
        for a in &level1 {
            fresh1.push(seen.insert(hash64(&a.resp)));
        }
        if job.chunk == 0 {
            for (a, fresh) in level1.iter().zip(fresh1.iter()) {
                if *fresh {
                    judge(setup, fmt, job, base.shape, &[a], &mut rep);
                }
            }
        }
        if job.depth >= 2 {
            for (ai, a) in level1.iter().enumerate() {
                if ai % job.chunks != job.chunk || !fresh1[ai] {
                    continue;
                }
                for b in alterations(&a.resp, &cx) {
                    // answers already met at level 1, or earlier in this chunk, are not run again
                    if seen.insert(hash64(&b.resp)) {
                        judge(setup, fmt, job, base.shape, &[a, &b], &mut rep);
                    }
                }
            }
        }
    }
    let example = rep.extras.remove("example");
    JobResult { rep, bases: nbases, example }
}

/// run one altered answer through the client and the oracle; returns true when it violates
fn judge(
    setup: &Setup,
    fmt: Fmt,
    job: &Job,
    shape: &str,
    path: &[&Alt],
    rep: &mut Report,
) -> bool {
    let resp = &path.last().unwrap().resp;
    rep.eval();
    let wire = resp.wire();
    match client(&setup.worlds, fmt, &wire) {
        Verdict::Rejected(why) => {
            // reached the proof / message comparison (not a parse failure): counts as non-trivial
            if !why.contains("does-not-parse") && !why.contains("malformed") {
                rep.nontrivial(&hash64(resp));
            }
            rep.outcome(&why);
            if job.sample && job.query.len() == 1 && path.len() == 1 && path[0].label.ends_with("slot_number +1") {
                rep.sample(json!({"case": "altered answer", "format": fmt.name(), "query": job.query, "alteration": path[0].label, "verdict": why}));
            }
            false
        }
        Verdict::Certified(r) => {
            rep.nontrivial(&hash64(resp));
            let w = setup.worlds.iter().find(|w| w.name == r.cert).expect("certificate of the verdict");
            let bad = oracle(w, resp, &r);
            if bad.is_empty() {
                rep.outcome("certified:true-statement");
                rep.add_extra(&format!("altered_answers_certified_truthfully[{}]", path.iter().map(|a| a.class).collect::<Vec<_>>().join("+")), 1);
                if job.sample && job.query.len() == 1 && path.len() == 1 && path[0].class == "item-duplicated" {
                    rep.sample(json!({"case": "altered answer that still states only true things", "format": fmt.name(), "alteration": path[0].label, "verdict": "certified"}));
                }
                return false;
            }
            rep.outcome("certified:FALSE-statement");
            let classes: Vec<&'static str> = path.iter().map(|a| a.class).collect();
            let clause = bad[0].0;
            const LEAF: &str = "chars-moved-between-leaf-and-neighbour-node";
            // C11/item-leaf-and-neighbour-node-concatenation only when every false statement is an item whose
            // leaf string is a signed leaf with characters cut off its end or glued to its front
            let explained = |it: &Item| -> bool {
                let l = it.leaf();
                w.items.iter().any(|h| {
                    let hl = h.leaf();
                    (hl.len() > l.len() && hl.starts_with(&l)) || (l.len() > hl.len() && l.ends_with(&hl))
                })
            };
            let only_leaf_boundary = bad.iter().all(|b| b.0 == "uncertified-item-reported")
                && r.items.iter().filter(|it| !w.items.contains(it)).all(explained);
            const MAPKEY: &str = "chars-moved-between-map-key-and-single-leaf";
            // C11/<fmt>:map-key-and-single-leaf-concatenation only when every false statement is an item whose
            // leaf is a signed leaf with characters of a key text ("<start>-<end>") glued to its front, or
            // with leading digits cut off
            let explained_by_key = |it: &Item| -> bool {
                let l = it.leaf();
                w.items.iter().any(|h| {
                    let hl = h.leaf();
                    (l.len() > hl.len() && l.ends_with(&hl) && l[..l.len() - hl.len()].iter().all(|c| c.is_ascii_digit() || *c == b'-'))
                        || (hl.len() > l.len() && hl.ends_with(&l) && hl[..hl.len() - l.len()].iter().all(|c| c.is_ascii_digit()))
                })
            };
            let only_key_boundary = bad.iter().all(|b| b.0 == "uncertified-item-reported")
                && r.items.iter().filter(|it| !w.items.contains(it)).all(explained_by_key);
            // both concatenation alterations in one answer: every false item explained by one of the two
            let both_boundaries = classes.contains(&MAPKEY)
                && classes.contains(&LEAF)
                && bad.iter().all(|b| b.0 == "uncertified-item-reported")
                && r.items.iter().filter(|it| !w.items.contains(it)).all(|it| explained_by_key(it) || explained(it));
            let key = if classes.contains(&MAPKEY) && only_key_boundary {
                format!("C11/{}:map-key-and-single-leaf-concatenation", fmt.name())
            } else if classes.contains(&LEAF) && only_leaf_boundary {
                KEY_LEAF_NEIGHBOUR.to_string()
            } else if both_boundaries {
                format!("C11/{}:map-key-and-single-leaf-concatenation", fmt.name())
            } else {
                let mut cs = classes.clone();
                cs.sort();
                cs.dedup();
                format!("C11/{}:{}:{}", fmt.name(), clause, cs.join("+"))
            };
            if key == KEY_LEAF_NEIGHBOUR && path.len() == 1 && !rep.extras.contains_key("example") {
                rep.extra(
                    "example",
                    json!({"format": fmt.name(), "query": job.query, "beacon": job.beacon, "alteration": path[0].label,
                           "reported_as_certified": r.items.iter().map(|i| i.short()).collect::<Vec<_>>()}),
                );
            }
            rep.add_extra(&format!("false_statements_certified[{}|{}]", fmt.name(), key), 1);
            if job.sample && job.query.len() == 1 && rep.samples.len() < 2 && path.len() == 1 {
                rep.sample(json!({"case": "altered answer reported as certified", "format": fmt.name(), "alteration": path[0].label,
                                  "reported": r.items.iter().map(|i| i.short()).collect::<Vec<_>>(), "key": key}));
            }
            rep.violation(
                &key,
                format!(
                    "{}{} answer for query {:?} at beacon {} ({shape}), altered by [{}], is reported as certified by {}: {}",
                    if job.sparse { "(chain whose block range 15-30 holds a single transaction) " } else { "" },
                    fmt.name(),
                    job.query,
                    job.beacon,
                    path.iter().map(|a| a.label.clone()).collect::<Vec<_>>().join(" ; "),
                    r.cert,
                    bad.iter().map(|b| b.1.clone()).collect::<Vec<_>>().join("; ")
                ),
                json!({"part": "sets", "key": key, "sparse_chain": job.sparse, "format": fmt.name(), "labels": path.iter().map(|a| a.label.clone()).collect::<Vec<_>>(),
                       "classes": classes, "wire": wire, "answer": resp.describe()}),
            );
            true
        }
    }
}

/// replay of one recorded answer
pub fn replay(setup: &Setup, v: &Value, rep: &mut Report) {
    let fmt = match v["format"].as_str().unwrap_or("") {
        "legacy-tx" => Fmt::Legacy,
        "v2-tx" => Fmt::TxV2,
        _ => Fmt::BlockV2,
    };
    let wire = &v["wire"];
    rep.eval();
    let resp = crate::c11_world::from_wire(fmt, wire);
    match client(&setup.worlds, fmt, wire) {
        Verdict::Rejected(why) => {
            rep.outcome(&why);
            eprintln!("replay: answer is {why}");
        }
        Verdict::Certified(r) => {
            let w = setup.worlds.iter().find(|w| w.name == r.cert).unwrap();
            let bad = oracle(w, &resp, &r);
            eprintln!("replay: answer is certified by {}; reported items {:?}; oracle: {:?}", r.cert, r.items.iter().map(|i| i.short()).collect::<Vec<_>>(), bad);
            if bad.is_empty() {
                rep.outcome("certified:true-statement");
            } else {
                rep.outcome("certified:FALSE-statement");
                let key = v["key"].as_str().map(|s| s.to_string()).unwrap_or_else(|| format!("C11/{}:{}:replayed", fmt.name(), bad[0].0));
                rep.violation(&key, format!("replayed answer is reported as certified by {}: {}", r.cert, bad.iter().map(|b| b.1.clone()).collect::<Vec<_>>().join("; ")), v.clone());
            }
        }
    }
}
