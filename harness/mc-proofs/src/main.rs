//! mc-proofs: serves C11 (see /verif/DESIGN.md §4)
mod c11;
mod c11_alter;
mod c11_sets;
mod c11_stake;
mod c11_world;

fn main() {
    let ctx = mc_core::Ctx::from_args();
    if std::env::var("MC_LOUD_PANICS").is_err() {
        mc_core::quiet_panics();
    }
    match ctx.property.as_str() {
        "C11" => c11::run(&ctx),
        other => {
            eprintln!("mc-proofs does not serve {other}");
            std::process::exit(2);
        }
    }
}
