//! mc-proofs: serves C11 (see /verif/DESIGN.md §4)
mod c11;

fn main() {
    let ctx = mc_core::Ctx::from_args();
    mc_core::quiet_panics();
    match ctx.property.as_str() {
        "C11" => c11::run(&ctx),
        other => {
            eprintln!("mc-proofs does not serve {other}");
            std::process::exit(2);
        }
    }
}
