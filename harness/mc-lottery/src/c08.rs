//! C08 — the signing lottery is exact, deterministic and monotone in stake.
//!
//! Seam 1 (included source): `is_lottery_won(phi_f, ev, stake, total)` compiled from the working
//! tree's `mithril-stm/src/proof_system/concatenation/eligibility.rs` (see main.rs for the shim).
//! Seam 2 (public path): `Signer::create_single_signature` against `SingleSignature::verify`, one
//! index at a time, with the draw recomputed by `mc_ref::dense_mapping`.
//!
//! Space: a lattice of (phi_f, total, stake) and, for every (phi_f, total), ONE common set of draws
//! (extremes, a uniform grid, and for every stake of that total the points T ± j·2^s around the
//! exact threshold T bracketed by the reference). Every stake of the total is evaluated on every
//! draw of the set, so the decision matrix (stake × draw) carries the stake-ascending and
//! draw-descending chains of the property.
//!
//! Oracle: `mc_ref::lottery` (interval arithmetic, proven brackets) outside the band (2^-44 for a
//! party with all the stake, proportionally narrower for smaller stakes, see [`band_log2`]); zero
//! stake ⇒ lost and phi_f = 1 ⇒ won unconditionally; the monotonicity clauses are evaluated on the
//! implementation's own decisions; signer's index set = indices the verifier accepts one by one.

use crate::eligibility::is_lottery_won;
use mc_core::{Ctx, Report, catch, par_map};
use mc_ref::lottery::{self as lot, Iv, Verdict};
use mithril_stm::{
    AggregateVerificationKey, Initializer, KeyRegistration, MithrilMembershipDigest, Parameters, RegistrationEntry, Signer,
};
use num_bigint::{BigInt, BigUint};
use num_traits::{One, ToPrimitive, Zero};
use rand_chacha::ChaCha20Rng;
use rand_core::SeedableRng;
use serde_json::{Value, json};

type D = MithrilMembershipDigest;

/// Half-width of the "numerically negligible band" around equality, as |draw/2^512 − threshold|:
/// 2^-44 for a party holding the whole stake; see [`band_log2`] for smaller stakes.
const BAND_LOG2: i32 = -44;

/// The band for one (stake, total, phi_f): 2^-44 · min(1, 2·max(w, x)) rounded UP to a power of two,
/// w = stake/total, x = −w·ln(1−phi_f). Never wider than 2^-44.
///
/// Why this is still ≥ 256 × the error the implementation's design permits: it computes
/// c = fl(ln(fl(1−phi_f))) in f64 and is exact afterwards (x = w·c and q = 2^512/(2^512−ev) are exact
/// rationals). |fl(1−phi_f) − (1−phi_f)| ≤ 2^-54 (0 for phi_f ≥ 1/2) and fl(1−phi_f) ≥ 1/2 whenever
/// it is inexact, ln is accurate to 1 ulp, so |c − ln(1−phi_f)| ≤ 2^-53 + |c|·2^-52 and
/// |Δthreshold| = e^-x·|Δx| ≤ w·2^-53 + x·e^-x·2^-52 ≤ 2^-52·(w/2 + min(x, 1/e)).
fn band_log2(stake: u64, total: u64, x: f64) -> i32 {
    let w = stake as f64 / total as f64;
    let scale = (2.0 * w.max(x) * (1.0 + 1e-9)).min(1.0);
    if scale <= 0.0 {
        return BAND_LOG2;
    }
    (BAND_LOG2 + scale.log2().ceil() as i32).clamp(-400, BAND_LOG2)
}

/// x0 = 2.65567469476558…: the positive root of e^x = 1 + x + 3x²/2. For x above it the first
/// early-exit "error term" 3·x²/2! is smaller than the true Taylor remainder e^x − 1 − x.
/// Used ONLY to name the classifier key of an exactness violation, never to decide one.
const X0_FIRST_ERROR_TERM_VALID: f64 = 2.6556746947;

const K_TAYLOR: &str = "C08/taylor-error-bound-invalid-for-large-x";
const K_NEAR_ONE: &str = "C08/phi-within-epsilon-of-one-treated-as-one";
const K_LOST_WON: &str = "C08/lost-although-exactly-won";
const K_WON_LOST: &str = "C08/won-although-exactly-lost";
const K_ZERO: &str = "C08/zero-stake-wins";
const K_ONE: &str = "C08/phi-one-loses";
const K_NONDET: &str = "C08/nondeterministic-decision";
const K_MONO_STAKE: &str = "C08/stake-growth-flips-won-to-lost";
const K_MONO_DRAW: &str = "C08/smaller-draw-flips-won-to-lost";
const K_AGREE: &str = "C08/signer-verifier-disagree";
const K_PUBLIC_DRAW: &str = "C08/public-path-differs-from-eligibility-on-reference-draw";

// ---------------------------------------------------------------------------------------------
// the lattice
// ---------------------------------------------------------------------------------------------

fn phi_next_to_one() -> f64 {
    1.0 - f64::EPSILON / 2.0 // 1 − 2^-53, the f64 just below 1
}

fn phis(thorough: bool) -> Vec<f64> {
    let mut v = vec![
        f64::EPSILON, // 2^-52
        1e-6,
        0.05,
        0.2,
        0.5,
        0.8,
        0.92,
        0.9297, // x = 2.65498 at full stake: just below x0
        0.9298, // x = 2.65641 at full stake: just above x0
        0.95,
        0.99,
        1.0 - f64::EPSILON, // 1 − 2^-52
        phi_next_to_one(),
        1.0,
    ];
    if thorough {
        // 0.92974 / 0.92975: x = 2.655553 / 2.655695 at full stake, the closest pair around x0 = 2.6556747
        v.extend_from_slice(&[f64::MIN_POSITIVE, 1e-12, 0.01, 0.1, 0.35, 0.65, 0.9, 0.925, 0.92974, 0.92975, 0.93, 0.97, 0.999, 0.999999]);
    }
    v
}

fn stakes_for(total: u64, dense_max: u64) -> Vec<u64> {
    if total <= dense_max {
        (0..=total).collect()
    } else {
        let mut v = vec![0, 1, total / 3, total / 2, total - 1, total];
        v.sort();
        v.dedup();
        v
    }
}

fn totals(dense_max: u64) -> Vec<u64> {
    let mut v: Vec<u64> = (1..=dense_max).collect();
    v.extend_from_slice(&[1000, 45_000_000_000_000_000, u64::MAX]);
    v
}

struct Bounds {
    dense_max: u64,
    /// threshold offsets j·2^s, s absolute (bit position in the 512-bit draw)
    shifts: Vec<u32>,
    /// threshold offsets j·2^s, s relative to the band edge of the row (0 = exactly the band width)
    rel_shifts: Vec<i32>,
    jmax: u32,
    grid: u32,
    /// rows with x = -(stake/total)·ln(1−phi_f) above this get no offsets below 2^440 (such draws
    /// need hundreds of Taylor iterations on very large rationals); None = no restriction
    deep_x_limit: Option<f64>,
    /// phi_f = 1−2^-52 and 1−2^-53 (x up to 36.7: by far the most expensive rows) are combined with the
    /// dense totals up to this value only (and with all the large totals)
    near_one_dense_max: u64,
}

fn bounds(ctx: &Ctx) -> Bounds {
    ctx.tier.pick(
        Bounds { dense_max: 10, shifts: vec![0, 128, 384, 460, 467, 469, 472, 480, 490, 500, 506],
            rel_shifts: vec![-1, 0, 1, 3, 8, 16],
            jmax: 2,
            grid: 64,
            deep_x_limit: Some(8.0),
            near_one_dense_max: 4,
        },
        Bounds {
            dense_max: 12,
            shifts: vec![
                0, 32, 64, 128, 192, 256, 320, 384, 448, 460, 466, 467, 468, 469, 470, 472, 476, 480, 484, 488, 490, 492, 496, 500,
                504, 506, 508,
            ],
            rel_shifts: vec![-8, -2, -1, 0, 1, 2, 3, 4, 6, 8, 12, 16, 20, 24],
            jmax: 3,
            grid: 256,
            deep_x_limit: None,
            near_one_dense_max: 6,
        },
    )
}

// ---------------------------------------------------------------------------------------------
// reference side
// ---------------------------------------------------------------------------------------------

fn iv_to_f64(x: &BigInt) -> f64 {
    let y: BigInt = x >> (lot::P - 60);
    y.to_i128().map(|v| v as f64 / (1u64 << 60) as f64).unwrap_or(f64::INFINITY)
}

/// lower bound of x = −(stake/total)·ln(1−phi) (exact reference arithmetic, for classification)
fn exponent_lower(stake: u64, total: u64, phi: f64, ln2c: &Iv) -> f64 {
    let (a, s) = lot::dyadic(phi);
    let den = BigUint::one() << s;
    if a >= den {
        return f64::INFINITY;
    }
    if stake == 0 {
        return 0.0;
    }
    let ln1m = lot::ln_ratio(&(&den - &a), &den, ln2c); // ≤ 0
    let m = ln1m.mul_ratio(&BigInt::from(stake), &BigInt::from(total));
    // smallest magnitude
    let mag = m.lo.magnitude().min(m.hi.magnitude()).clone();
    iv_to_f64(&BigInt::from(mag))
}

struct Row {
    stake: u64,
    /// bracket of 1 − (1−phi)^(stake/total); None for the contradictory case phi = 1, stake = 0
    p: Option<Iv>,
    x_lo: f64,
    band_log2: i32,
}

struct Cell {
    phi: f64,
    total: u64,
    rows: Vec<Row>,
    /// ascending, distinct
    draws: Vec<BigUint>,
}

fn build_cell(phi: f64, total: u64, stakes: &[u64], extra_draws: &[BigUint], b: &Bounds, ln2c: &Iv) -> Cell {
    let max = (BigUint::one() << 512u32) - BigUint::one();
    let mut draws: Vec<BigUint> = vec![BigUint::zero(), BigUint::one(), max.clone()];
    // uniform grid: midpoints of `grid` equal slices of [0, 2^512)
    let g_log = b.grid.trailing_zeros();
    assert!(b.grid.is_power_of_two());
    for k in 0..b.grid {
        draws.push((BigUint::from(2 * k + 1)) << (512 - g_log - 1));
    }
    let mut rows = vec![];
    for &stake in stakes {
        let p = lot::probability(stake, total, phi, ln2c);
        let x_lo = exponent_lower(stake, total, phi, ln2c);
        let band = if x_lo.is_finite() { band_log2(stake, total, x_lo) } else { BAND_LOG2 };
        if let Some((lo, hi)) = lot::threshold_512(stake, total, phi, ln2c) {
            draws.push(lo.clone().min(max.clone()));
            draws.push(hi.clone().min(max.clone()));
            let rel = b.rel_shifts.iter().map(|r| (512 + band + r).clamp(0, 511) as u32);
            let shallow_only = b.deep_x_limit.is_some_and(|l| x_lo.is_finite() && x_lo > l);
            for s in b.shifts.iter().copied().chain(rel) {
                if shallow_only && s < 440 {
                    continue;
                }
                for j in 1..=b.jmax {
                    let off = BigUint::from(j) << s;
                    if lo >= off {
                        draws.push(&lo - &off);
                    }
                    let up = &hi + &off;
                    if up <= max {
                        draws.push(up);
                    }
                }
            }
        }
        rows.push(Row { stake, p, x_lo, band_log2: band });
    }
    draws.extend(extra_draws.iter().cloned());
    draws.sort();
    draws.dedup();
    Cell { phi, total, rows, draws }
}

// ---------------------------------------------------------------------------------------------
// implementation side
// ---------------------------------------------------------------------------------------------

const LOST: u8 = 0;
const WON: u8 = 1;
const PANIC: u8 = 2;
const NONDET: u8 = 0x80;

fn call(phi: f64, ev: [u8; 64], stake: u64, total: u64) -> u8 {
    match catch(|| is_lottery_won(phi, ev, stake, total)) {
        Ok(true) => WON,
        Ok(false) => LOST,
        Err(_) => PANIC,
    }
}

/// not evaluated (row cut short by the slow-decision guard or by the wall budget): never judged
const SKIPPED: u8 = 3;

/// Protection against pathologically slow decisions (a change that makes the Taylor loop run its
/// 1000 iterations on exploding rationals must end in a verdict, not in an endless sweep).
struct Guard {
    start: std::time::Instant,
    /// wall budget for the whole run, seconds (VERIF_C08_BUDGET_S)
    budget_s: f64,
    /// a single decision using more CPU time than this is "slow" (VERIF_C08_SLOW_CALL_S); normal
    /// decisions take micro- to milliseconds
    slow_call_s: f64,
    /// a row is cut short after this many slow decisions
    handful: usize,
    /// the FIRST decision of every row runs on a helper thread; if it has not answered after this
    /// many seconds (wall, VERIF_C08_HARD_TIMEOUT_S) the helper is abandoned and the row is cut
    hard_timeout_s: f64,
}

/// helper threads abandoned in a decision that did not return in time (they die with the process)
static ABANDONED: std::sync::atomic::AtomicUsize = std::sync::atomic::AtomicUsize::new(0);
/// beyond this many the sweep gives up (remaining rows are skipped like after the wall budget)
const ABANDON_CAP: usize = 64;

impl Guard {
    fn new(ctx: &Ctx) -> Guard {
        let env = |k: &str| std::env::var(k).ok().and_then(|v| v.trim().parse::<f64>().ok());
        Guard {
            start: ctx.start,
            budget_s: env("VERIF_C08_BUDGET_S").unwrap_or(ctx.tier.pick(150.0, 1500.0)),
            slow_call_s: env("VERIF_C08_SLOW_CALL_S").unwrap_or(0.5),
            handful: 3,
            hard_timeout_s: env("VERIF_C08_HARD_TIMEOUT_S").unwrap_or(10.0),
        }
    }
    fn over_budget(&self) -> bool {
        self.start.elapsed().as_secs_f64() > self.budget_s || ABANDONED.load(std::sync::atomic::Ordering::SeqCst) >= ABANDON_CAP
    }
    /// One decision on a helper thread: Some((decision, cpu seconds)), or None when it did not
    /// answer within the hard timeout (the helper is left behind; a decision cannot be interrupted).
    fn first_call(&self, phi: f64, ev: [u8; 64], stake: u64, total: u64) -> Option<(u8, f64)> {
        let (tx, rx) = std::sync::mpsc::channel();
        std::thread::spawn(move || {
            let t0 = thread_cpu_s();
            let a = call(phi, ev, stake, total);
            let _ = tx.send((a, thread_cpu_s() - t0));
        });
        match rx.recv_timeout(std::time::Duration::from_secs_f64(self.hard_timeout_s)) {
            Ok(v) => Some(v),
            Err(_) => {
                ABANDONED.fetch_add(1, std::sync::atomic::Ordering::SeqCst);
                None
            }
        }
    }
}

/// CPU time of the calling thread (independent of how loaded the machine is)
fn thread_cpu_s() -> f64 {
    let mut ts = libc::timespec { tv_sec: 0, tv_nsec: 0 };
    // SAFETY: plain syscall writing into a local timespec
    unsafe { libc::clock_gettime(libc::CLOCK_THREAD_CPUTIME_ID, &mut ts) };
    ts.tv_sec as f64 + ts.tv_nsec as f64 * 1e-9
}

#[derive(Clone, Copy, PartialEq, Debug)]
enum Cut {
    No,
    Slow,
    Budget,
}

/// decisions of the real code for one stake over all draws of the cell; every 4th draw is decided
/// twice (determinism). Draws after a cut are SKIPPED.
fn run_row(cell: &Cell, r: usize, g: &Guard) -> (Vec<u8>, Cut) {
    let row = &cell.rows[r];
    let mut out = vec![SKIPPED; cell.draws.len()];
    let mut slow = 0usize;
    for (i, d) in cell.draws.iter().enumerate() {
        if g.over_budget() {
            return (out, Cut::Budget);
        }
        let ev = lot::ev_from_biguint(d);
        let (a, cpu) = if i == 0 {
            match g.first_call(cell.phi, ev, row.stake, cell.total) {
                Some(v) => v,
                None => return (out, Cut::Slow),
            }
        } else {
            let t0 = thread_cpu_s();
            let a = call(cell.phi, ev, row.stake, cell.total);
            (a, thread_cpu_s() - t0)
        };
        let was_slow = cpu > g.slow_call_s;
        out[i] = if !was_slow && i % 4 == 0 && call(cell.phi, ev, row.stake, cell.total) != a { a | NONDET } else { a };
        if was_slow {
            // a decision ten times over the threshold counts as the whole handful
            slow += if cpu > 10.0 * g.slow_call_s { g.handful } else { 1 };
            if slow >= g.handful && i + 1 < cell.draws.len() {
                return (out, Cut::Slow);
            }
        }
    }
    (out, Cut::No)
}

fn is_won(d: u8) -> bool {
    d & 0x7f == WON
}

fn hex_be(d: &BigUint) -> String {
    format!("{:0>128}", d.to_str_radix(16))
}

fn case_json(cell: &Cell, r: usize, d: usize) -> Value {
    json!({
        "kind": "included",
        "phi_f": cell.phi,
        "phi_f_bits": format!("{:#018x}", cell.phi.to_bits()),
        "total": cell.total.to_string(),
        "stake": cell.rows[r].stake.to_string(),
        "draw_hex_be": hex_be(&cell.draws[d]),
        "draw_over_2^512": draw_f64(&cell.draws[d]),
    })
}

fn draw_f64(d: &BigUint) -> f64 {
    let top: BigUint = d >> (512u32 - 64);
    top.to_u64().unwrap_or(u64::MAX) as f64 / 18446744073709551616.0
}

/// distance class of a draw from the threshold bracket, as floor(log2 |draw − T|) − 512 (None inside the bracket)
fn dist_log2(p: &Iv, d: &BigUint) -> Option<i64> {
    let ev = BigInt::from(d.clone()) << (lot::P - 512);
    let dist = if ev < p.lo {
        &p.lo - &ev
    } else if ev > p.hi {
        &ev - &p.hi
    } else {
        return None;
    };
    Some(dist.bits() as i64 - 1 - lot::P as i64)
}

/// per (phi_f, stake, total) tallies, used for the summary extras of the evidence
struct RowStat {
    phi: f64,
    x_lo: f64,
    decisive: u64,
    wrong_lost: u64,
    wrong_won: u64,
}

#[derive(Default)]
struct Stats {
    rows: Vec<RowStat>,
    /// draws inside the band (but outside the reference bracket) that the implementation decides
    /// against the exact sign — allowed by the property, reported to show how much of the band is used
    inband_disagreements: u64,
    /// largest log2(|draw/2^512 − T| / band) among those
    inband_max_rel: Option<i64>,
}

fn judge_cell(cell: &Cell, dec: &[Vec<u8>]) -> (Report, Stats) {
    let mut rep = Report::new("exploration", "");
    let mut stats = Stats::default();
    let phi = cell.phi;
    // restated from the property: "phi_f is 1" means the f64 1.0 and nothing else
    let phi_is_one = phi == 1.0;
    let next_to_one = !phi_is_one && (1.0 - phi) < f64::EPSILON;
    let nd = cell.draws.len();
    let evs: Vec<[u8; 64]> = cell.draws.iter().map(lot::ev_from_biguint).collect();
    // reference verdicts
    let ver: Vec<Vec<Option<Verdict>>> = cell
        .rows
        .iter()
        .map(|row| evs.iter().map(|ev| row.p.as_ref().map(|p| lot::decide_p(ev, p, row.band_log2))).collect())
        .collect();

    for (r, row) in cell.rows.iter().enumerate() {
        let mut sample_w: Option<usize> = None;
        let mut sample_l: Option<usize> = None;
        let mut st = RowStat { phi, x_lo: row.x_lo, decisive: 0, wrong_lost: 0, wrong_won: 0 };
        let (mut n_close, mut n_won, mut n_lost, mut n_near) = (0u64, 0u64, 0u64, 0u64);
        rep.add_extra("decided_twice", (0..nd).step_by(4).filter(|d| dec[r][*d] != SKIPPED).count() as u64);
        for d in 0..nd {
            let raw = dec[r][d];
            if raw == SKIPPED {
                rep.add_extra("decisions_skipped_never_judged", 1);
                continue;
            }
            rep.eval();
            if raw & NONDET != 0 {
                rep.violation(
                    K_NONDET,
                    format!("two calls of is_lottery_won with the same arguments returned different results: {}", case_json(cell, r, d)),
                    case_json(cell, r, d),
                );
            }
            let code = raw & 0x7f;
            let won = code == WON;
            match code {
                WON => rep.outcome("won"),
                LOST => rep.outcome("lost"),
                _ => {
                    rep.outcome("panic(counted as lost)");
                    rep.add_extra("panics_observed", 1);
                }
            }
            // --- always lost for zero stake / always won when phi_f is 1
            if row.stake == 0 && phi_is_one {
                rep.add_extra("excluded_contradictory_phi1_stake0", 1);
                continue;
            }
            if row.stake == 0 {
                rep.nontrivial(&("zero", phi.to_bits(), cell.total, &evs[d][..]));
                if won {
                    let key = if next_to_one { K_NEAR_ONE } else { K_ZERO };
                    rep.violation(
                        key,
                        format!(
                            "zero stake wins the lottery: is_lottery_won(phi_f={phi:e}, draw, stake=0, total={}) = true for {}",
                            cell.total,
                            case_json(cell, r, d)
                        ),
                        case_json(cell, r, d),
                    );
                }
                continue;
            }
            if phi_is_one {
                rep.nontrivial(&("one", row.stake, cell.total, &evs[d][..]));
                if !won {
                    rep.violation(
                        K_ONE,
                        format!("phi_f = 1 but the lottery is lost for {}", case_json(cell, r, d)),
                        case_json(cell, r, d),
                    );
                }
                continue;
            }
            // --- exactness outside the band
            match ver[r][d] {
                Some(Verdict::TooClose) | None => {
                    n_close += 1;
                    // how much of the band does the implementation use? (information only)
                    if let Some(p) = row.p.as_ref()
                        && !next_to_one
                        && row.x_lo <= X0_FIRST_ERROR_TERM_VALID
                        && let Some(dl) = dist_log2(p, &cell.draws[d])
                    {
                        let exact_won = (BigInt::from(cell.draws[d].clone()) << (lot::P - 512)) < p.lo;
                        if exact_won != won {
                            stats.inband_disagreements += 1;
                            let rel = dl - row.band_log2 as i64;
                            stats.inband_max_rel = Some(stats.inband_max_rel.map_or(rel, |m| m.max(rel)));
                        }
                    }
                }
                Some(v) => {
                    let exact_won = v == Verdict::Won;
                    if exact_won {
                        n_won += 1;
                    } else {
                        n_lost += 1;
                    }
                    st.decisive += 1;
                    rep.nontrivial(&(phi.to_bits(), row.stake, cell.total, &evs[d][..]));
                    let dl = row.p.as_ref().and_then(|p| dist_log2(p, &cell.draws[d])).unwrap_or(-600);
                    if dl < -32 {
                        n_near += 1;
                    }
                    if exact_won && sample_w.is_none_or(|s| cell.draws[s] < cell.draws[d]) {
                        sample_w = Some(d);
                    }
                    if !exact_won && sample_l.is_none() {
                        sample_l = Some(d);
                    }
                    if exact_won != won {
                        if exact_won {
                            st.wrong_lost += 1;
                        } else {
                            st.wrong_won += 1;
                        }
                        let key = match (exact_won, next_to_one) {
                            (false, true) => K_NEAR_ONE,
                            (false, false) => K_WON_LOST,
                            (true, _) if row.x_lo > X0_FIRST_ERROR_TERM_VALID => K_TAYLOR,
                            (true, _) => K_LOST_WON,
                        };
                        let p = row.p.as_ref().unwrap();
                        let mut c = case_json(cell, r, d);
                        c["exact_threshold_bracket"] = json!([iv_to_f64(&p.lo), iv_to_f64(&p.hi)]);
                        c["x=-w*ln(1-phi_f)"] = json!(row.x_lo);
                        c["log2_distance_from_threshold"] = json!(dl);
                        c["band_log2"] = json!(row.band_log2);
                        rep.violation(
                            key,
                            format!(
                                "is_lottery_won says {} but draw/2^512 {} 1-(1-phi_f)^(stake/total) exactly (|difference| >= 2^{dl}, band 2^{}): {c}",
                                if won { "WON" } else { "LOST" },
                                if exact_won { "<" } else { ">=" },
                                row.band_log2,
                            ),
                            c,
                        );
                    }
                }
            }
        }
        rep.add_extra("reference_too_close", n_close);
        rep.add_extra("reference_won", n_won);
        rep.add_extra("reference_lost", n_lost);
        rep.add_extra("decisive_cases_within_2^-32_of_threshold", n_near);
        stats.rows.push(st);
        // evidence samples: the decisive draws closest to the threshold on either side
        if (cell.total == 3 || cell.total == u64::MAX) && row.stake == cell.total / 3 && (phi == 0.2 || phi == 0.8) {
            for s in [sample_w, sample_l].into_iter().flatten() {
                let mut c = case_json(cell, r, s);
                c["decision"] = json!(if is_won(dec[r][s]) { "won" } else { "lost" });
                c["reference"] = json!(format!("{:?}", ver[r][s].unwrap()));
                c["log2_distance_from_threshold"] = json!(row.p.as_ref().and_then(|p| dist_log2(p, &cell.draws[s])));
                c["band_log2"] = json!(row.band_log2);
                rep.sample(c);
            }
        }
    }

    let too_close = |r: usize, d: usize| matches!(ver[r][d], Some(Verdict::TooClose));
    // --- draw-descending chains (same phi, stake, total): once lost at a draw, lost at every larger one.
    for r in 0..cell.rows.len() {
        rep.add_extra("draw_chains", 1);
        let mut first_lost: Option<usize> = None; // any
        let mut first_lost_decisive: Option<usize> = None; // not inside the band
        for d in 0..nd {
            if dec[r][d] == SKIPPED {
                continue;
            }
            if !is_won(dec[r][d]) {
                first_lost.get_or_insert(d);
                if !too_close(r, d) {
                    first_lost_decisive.get_or_insert(d);
                }
            } else {
                let witness = if too_close(r, d) { first_lost_decisive } else { first_lost };
                if let Some(l) = witness {
                    let mut c = case_json(cell, r, d);
                    c["smaller_draw_hex_be"] = json!(hex_be(&cell.draws[l]));
                    rep.violation(
                        K_MONO_DRAW,
                        format!("the lottery is won at a draw but lost at a SMALLER draw (same phi_f, stake, total): {c}"),
                        c,
                    );
                    break;
                }
            }
        }
    }
    // --- stake-ascending chains (same phi, total, draw): once won at a stake, won at every larger one.
    for d in 0..nd {
        rep.add_extra("stake_chains", 1);
        let mut last_won: Option<usize> = None;
        let mut last_won_decisive: Option<usize> = None;
        for r in 0..cell.rows.len() {
            if dec[r][d] == SKIPPED {
                continue;
            }
            if is_won(dec[r][d]) {
                last_won = Some(r);
                if !too_close(r, d) {
                    last_won_decisive = Some(r);
                }
            } else {
                let witness = if too_close(r, d) { last_won_decisive } else { last_won };
                if let Some(w) = witness {
                    let mut c = case_json(cell, r, d);
                    c["smaller_stake"] = json!(cell.rows[w].stake.to_string());
                    rep.violation(
                        K_MONO_STAKE,
                        format!("the lottery is lost at a stake but won at a SMALLER stake (same phi_f, total, draw): {c}"),
                        c,
                    );
                    break;
                }
            }
        }
    }
    (rep, stats)
}

// ---------------------------------------------------------------------------------------------
// public path: signer vs verifier, index by index
// ---------------------------------------------------------------------------------------------

struct PubCase {
    stakes: Vec<u64>,
    phi: f64,
    m: u64,
    msg: Vec<u8>,
}

fn public_case(pc: &PubCase, ln2c: &Iv, g: &Guard) -> Report {
    let mut rep = Report::new("exploration", "");
    let desc = json!({"kind": "public", "stakes": pc.stakes.iter().map(|s| s.to_string()).collect::<Vec<_>>(),
        "phi_f": pc.phi, "phi_f_bits": format!("{:#018x}", pc.phi.to_bits()), "m": pc.m, "msg_hex": hex::encode(&pc.msg)});
    let params = Parameters { m: pc.m, k: 1, phi_f: pc.phi };
    let all = Parameters { m: pc.m, k: 1, phi_f: 1.0 };
    let mut rng = ChaCha20Rng::from_seed([8u8; 32]);
    let inits: Vec<Initializer> = pc.stakes.iter().map(|s| Initializer::new(params, *s, &mut rng)).collect();
    let mut reg = KeyRegistration::initialize();
    for i in &inits {
        let e = RegistrationEntry::new(i.get_verification_key_proof_of_possession_for_concatenation(), i.stake).expect("entry");
        reg.register_by_entry(&e).expect("register");
    }
    let closed = reg.close_registration(&params).expect("close");
    let total = closed.total_stake;
    let avk: AggregateVerificationKey<D> = AggregateVerificationKey::from(&closed);
    let root: Vec<u8> = serde_json::to_value(avk.to_concatenation_aggregate_verification_key())
        .ok()
        .and_then(|v| v["mt_commitment"]["root"].as_array().map(|a| a.iter().map(|b| b.as_u64().unwrap_or(0) as u8).collect()))
        .unwrap_or_default();
    if root.len() != 32 {
        rep.machinery_error(format!("cannot read the Merkle root out of the aggregate verification key ({} bytes)", root.len()));
        return rep;
    }
    let mut msgp = pc.msg.clone();
    msgp.extend_from_slice(&root);

    for init in &inits {
        let stake = init.stake;
        let signer: Signer<D> = init.clone().try_create_signer(&closed).expect("signer");
        // same key, same registration, phi_f = 1: yields the signer's sigma whatever the lottery says
        let mut init_all = init.clone();
        init_all.parameters = all;
        let signer_all: Signer<D> = init_all.try_create_signer(&closed).expect("signer(all)");
        let Ok(sig_all) = signer_all.create_single_signature(&pc.msg) else {
            rep.machinery_error(format!("the phi_f=1 twin of a signer produced no signature: {desc}"));
            continue;
        };
        // The included is_lottery_won decides every index first, under the slow-decision guard: the
        // signer and the verifier repeat the same decisions inside calls that cannot be interrupted.
        let sigma = sig_all.get_concatenation_signature_sigma().to_bytes();
        if g.over_budget() {
            rep.add_extra("public_parties_skipped_by_wall_budget", 1);
            rep.exhaustive = false;
            continue;
        }
        let mut incl_dec: Vec<bool> = vec![];
        let mut slow = 0usize;
        for index in 0..pc.m {
            let ev = mc_ref::dense_mapping(&msgp, index, &sigma);
            let (a, cpu) = if index == 0 {
                match g.first_call(pc.phi, ev, stake, total) {
                    Some(v) => v,
                    None => {
                        slow = g.handful;
                        break;
                    }
                }
            } else {
                let t0 = thread_cpu_s();
                let a = call(pc.phi, ev, stake, total);
                (a, thread_cpu_s() - t0)
            };
            incl_dec.push(a == WON);
            if cpu > g.slow_call_s {
                slow += if cpu > 10.0 * g.slow_call_s { g.handful } else { 1 };
                if slow >= g.handful {
                    break;
                }
            }
        }
        if slow >= g.handful {
            rep.add_extra("public_parties_skipped_because_decisions_were_slow", 1);
            rep.exhaustive = false;
            continue;
        }
        let signed: Vec<u64> = match catch(|| signer.create_single_signature(&pc.msg)) {
            Ok(Ok(s)) => {
                if s.get_concatenation_signature_sigma().to_bytes() != sig_all.get_concatenation_signature_sigma().to_bytes() {
                    rep.machinery_error(format!("sigma of the signer and of its phi_f=1 twin differ: {desc}"));
                }
                s.get_concatenation_signature_indices()
            }
            Ok(Err(_)) => vec![],
            Err(_) => {
                rep.add_extra("panics_observed", 1);
                vec![]
            }
        };
        let pk = signer.get_bls_verification_key();
        let p = lot::probability(stake, total, pc.phi, ln2c);
        let x_lo = exponent_lower(stake, total, pc.phi, ln2c);
        let band = if x_lo.is_finite() { band_log2(stake, total, x_lo) } else { BAND_LOG2 };
        for index in 0..pc.m {
            rep.eval();
            let s_won = signed.contains(&index);
            let mut one = sig_all.clone();
            one.set_concatenation_signature_indices(&[index]);
            let v_won = matches!(catch(|| one.verify(&params, &pk, &stake, &avk, &pc.msg)), Ok(Ok(())));
            let mut c = desc.clone();
            c["stake"] = json!(stake.to_string());
            c["total"] = json!(total.to_string());
            c["index"] = json!(index);
            rep.outcome(if s_won { "public: index signed" } else { "public: index not signed" });
            if s_won != v_won {
                rep.violation(
                    K_AGREE,
                    format!(
                        "signer {} index {index} but the verifier {} the same sigma for that index: {c}",
                        if s_won { "signs" } else { "does not sign" },
                        if v_won { "accepts" } else { "rejects" }
                    ),
                    c.clone(),
                );
            }
            // the draw, recomputed independently
            let ev = mc_ref::dense_mapping(&msgp, index, &sigma);
            c["draw_hex_le"] = json!(hex::encode(ev));
            let incl = incl_dec[index as usize];
            if incl != s_won {
                rep.violation(
                    K_PUBLIC_DRAW,
                    format!(
                        "Signer::create_single_signature {} index {index}, but is_lottery_won on Blake2b-512(\"map\"||msg||root||index_le||sigma) read little-endian says {}: {c}",
                        if s_won { "signs" } else { "does not sign" },
                        if incl { "won" } else { "lost" }
                    ),
                    c.clone(),
                );
            }
            if stake == 0 && pc.phi == 1.0 {
                rep.add_extra("excluded_contradictory_phi1_stake0", 1);
                continue;
            }
            rep.nontrivial(&("public", pc.phi.to_bits(), &pc.stakes, stake, &pc.msg, index));
            let next_to_one = pc.phi != 1.0 && (1.0 - pc.phi) < f64::EPSILON;
            if stake == 0 {
                if s_won || v_won {
                    rep.violation(if next_to_one { K_NEAR_ONE } else { K_ZERO }, format!("zero stake wins index {index} on the public path: {c}"), c);
                }
                continue;
            }
            if pc.phi == 1.0 {
                if !s_won || !v_won {
                    rep.violation(K_ONE, format!("phi_f = 1 but index {index} is lost on the public path: {c}"), c);
                }
                continue;
            }
            match p.as_ref().map(|p| lot::decide_p(&ev, p, band)) {
                Some(Verdict::TooClose) | None => rep.add_extra("reference_too_close", 1),
                Some(v) => {
                    let exact_won = v == Verdict::Won;
                    rep.add_extra(if exact_won { "public_reference_won" } else { "public_reference_lost" }, 1);
                    for (who, got) in [("signer", s_won), ("verifier", v_won)] {
                        if got != exact_won {
                            let key = match (exact_won, next_to_one) {
                                (false, true) => K_NEAR_ONE,
                                (false, false) => K_WON_LOST,
                                (true, _) if x_lo > X0_FIRST_ERROR_TERM_VALID => K_TAYLOR,
                                (true, _) => K_LOST_WON,
                            };
                            rep.violation(
                                key,
                                format!("public path: the {who} decides {} for index {index} but the draw is exactly {}: {c}",
                                    if got { "WON" } else { "LOST" }, if exact_won { "below the threshold" } else { "not below the threshold" }),
                                c.clone(),
                            );
                        }
                    }
                }
            }
        }
    }
    if rep.samples.is_empty() {
        rep.sample(desc);
    }
    rep
}

fn public_cases(ctx: &Ctx) -> Vec<PubCase> {
    let m = ctx.tier.pick(24u64, 64);
    let mut stake_sets: Vec<Vec<u64>> = vec![
        vec![1],
        vec![0, 5],
        vec![1, 1],
        vec![1, 2, 3],
        vec![1, 1000],
        vec![15_000_000_000_000_000, 30_000_000_000_000_000],
        vec![u64::MAX - 1, 1],
    ];
    if ctx.tier == mc_core::Tier::Thorough {
        stake_sets.extend([vec![0, 0, 1], vec![2, 3, 7], vec![1, u64::MAX / 2, u64::MAX / 2], vec![1, 11]]);
    }
    let phis = [1e-6, 0.05, 0.2, 0.5, 0.8, 0.92, 0.95, 0.99, phi_next_to_one(), 1.0];
    let msgs: Vec<Vec<u8>> = (0..ctx.tier.pick(2u8, 4)).map(|i| vec![i; 16]).collect();
    let mut v = vec![];
    for s in &stake_sets {
        for &phi in &phis {
            for msg in &msgs {
                v.push(PubCase { stakes: s.clone(), phi, m, msg: msg.clone() });
            }
        }
    }
    v
}

// ---------------------------------------------------------------------------------------------

fn parse_u64(v: &Value) -> Option<u64> {
    v.as_str().and_then(|s| s.parse().ok()).or(v.as_u64())
}

fn phi_from(v: &Value) -> f64 {
    v["phi_f_bits"]
        .as_str()
        .and_then(|s| u64::from_str_radix(s.trim_start_matches("0x"), 16).ok())
        .map(f64::from_bits)
        .or(v["phi_f"].as_f64())
        .unwrap_or(0.2)
}

pub fn run(ctx: &Ctx) -> ! {
    let b = bounds(ctx);
    let thorough = ctx.tier == mc_core::Tier::Thorough;
    let mut rep = Report::new(
        "exploration",
        "every (phi_f, total, stake, draw) of the lattice is decided by the working tree's is_lottery_won (source inclusion); \
         for each (phi_f, total) all stakes are decided on one common draw set = {0, 1, 2^512-1} + uniform grid + for every stake the \
         exact threshold bracket T and T -/+ j*2^s; a case is non-trivial when the reference verdict is decisive (draw outside the \
         2^-44 band) or one of the unconditional clauses (zero stake, phi_f = 1) applies; distinct = distinct (phi_f, stake, total, draw); \
         public-path cases (Signer::create_single_signature vs SingleSignature::verify, per index) are counted too",
    );
    rep.extra(
        "lattice",
        json!({
            "phi_f": phis(thorough),
            "totals": totals(b.dense_max).iter().map(|t| t.to_string()).collect::<Vec<_>>(),
            "stakes": format!("0..=total for total <= {}, else {{0, 1, total/3, total/2, total-1, total}}", b.dense_max),
            "threshold_offsets": format!("T -/+ j*2^s, j in 1..={}, s in {:?} (draws are 512-bit; the band is 2^468)", b.jmax, b.shifts),
            "uniform_grid_points": b.grid,
            "offsets_below_2^440_skipped_for_rows_with_x_above": b.deep_x_limit,
            "phi_f_1-2^-52_and_1-2^-53_only_with_dense_totals_up_to": b.near_one_dense_max,
            "band": "2^-44 * min(1, 2*max(stake/total, x)) rounded up to a power of two, x = -(stake/total)*ln(1-phi_f)",
        }),
    );
    rep.assume(
        "numerically negligible band: cases with |draw/2^512 - (1-(1-phi_f)^(stake/total))| < 2^-44 * min(1, 2*max(w, x)) (w = stake/total, \
         x = -w*ln(1-phi_f); i.e. the absolute band 2^-44 for a party with all the stake, narrower in proportion for smaller stakes) are not \
         compared with the reference. Justification: the implementation takes c = ln(1-phi_f) in f64 and is exact afterwards, so its threshold \
         is off by at most e^-x*w*(2^-53 + |c|*2^-52) <= 2^-52*(w/2 + min(x, 1/e)); the band is >= 256 times that",
    );
    rep.assume(
        "phi_f = 1.0 with stake = 0 is contradictory in the property itself (always lost for zero stake / always won when phi_f is 1) and is \
         excluded from the exactness and unconditional clauses (it stays in the monotonicity chains)",
    );
    rep.assume(
        "the draw is the 64-byte Blake2b-512(\"map\"||msg||merkle_root||index_le||sigma) read as a little-endian integer (mechanism named by the property)",
    );
    rep.assume(
        "reference = mc-ref::lottery: fixed-point interval arithmetic with 704 fractional bits and proven series remainders; phi_f is taken as the \
         exact binary rational of the f64; only the default num-integer back end of eligibility.rs is compiled (rug cannot be built offline)",
    );
    rep.assume("a panic of is_lottery_won counts as 'lost' (counted in panics_observed)");
    let ln2c = lot::ln2();
    let guard = Guard::new(ctx);
    rep.extra(
        "guards",
        json!({"wall_budget_s": guard.budget_s, "slow_decision_cpu_s": guard.slow_call_s, "row_cut_after_slow_decisions": guard.handful,
               "or_after_one_decision_slower_than_cpu_s": 10.0 * guard.slow_call_s,
               "first_decision_of_a_row_abandoned_after_wall_s": guard.hard_timeout_s}),
    );

    // ---- replay of one case
    if let Some(path) = &ctx.replay {
        let v = mc_core::load_replay(path);
        if v["kind"] == "public" {
            let pc = PubCase {
                stakes: v["stakes"].as_array().map(|a| a.iter().filter_map(parse_u64).collect()).unwrap_or_default(),
                phi: phi_from(&v),
                m: v["m"].as_u64().unwrap_or(24),
                msg: hex::decode(v["msg_hex"].as_str().unwrap_or("")).unwrap_or_default(),
            };
            rep.merge(public_case(&pc, &ln2c, &guard));
        } else {
            let phi = phi_from(&v);
            let total = parse_u64(&v["total"]).unwrap_or(1);
            let mut stakes = stakes_for(total, b.dense_max);
            for k in ["stake", "smaller_stake"] {
                if let Some(s) = parse_u64(&v[k]) {
                    stakes.push(s);
                }
            }
            stakes.sort();
            stakes.dedup();
            let mut extra = vec![];
            for k in ["draw_hex_be", "smaller_draw_hex_be"] {
                if let Some(d) = v[k].as_str().and_then(|s| BigUint::parse_bytes(s.as_bytes(), 16)) {
                    extra.push(d);
                }
            }
            let cell = build_cell(phi, total, &stakes, &extra, &b, &ln2c);
            let dec: Vec<Vec<u8>> =
                par_map(&(0..cell.rows.len()).collect::<Vec<_>>(), ctx.threads(), |_, r| run_row(&cell, *r, &guard).0);
            rep.merge(judge_cell(&cell, &dec).0);
        }
        rep.nontrivial(&0u8);
        rep.nontrivial(&1u8);
        if rep.samples.is_empty() {
            rep.sample(v);
        }
        rep.finish(ctx);
    }

    // ---- public path: executed first (it is cheap), merged into the report after the sweep
    let pcs = public_cases(ctx);
    let pub_parts = par_map(&pcs, ctx.threads(), |_, pc| public_case(pc, &ln2c, &guard));

    // ---- phase 1: reference thresholds and draw sets, one cell per (phi_f, total)
    let mut keys = vec![];
    for total in totals(b.dense_max) {
        for phi in phis(thorough) {
            let near_one = phi < 1.0 && 1.0 - phi <= f64::EPSILON;
            if near_one && total > b.near_one_dense_max && total <= b.dense_max {
                continue;
            }
            keys.push((phi, total));
        }
    }
    let cells: Vec<Cell> =
        par_map(&keys, ctx.threads(), |_, (phi, total)| build_cell(*phi, *total, &stakes_for(*total, b.dense_max), &[], &b, &ln2c));
    // ---- phase 2: the real code, one work item per (cell, stake)
    let bounds_dense_max = b.dense_max;
    let mut items: Vec<(usize, usize)> = vec![];
    for (ci, c) in cells.iter().enumerate() {
        for r in 0..c.rows.len() {
            items.push((ci, r));
        }
    }
    // Order of execution only (results are stored by index). First the cheap rows that see the most
    // (the large totals 1000 / 45e15 / 2^64-1 with their few stakes, then the extreme stakes 0, 1,
    // total-1, total of the dense totals), so that their violations are on record if a budget cuts
    // the run; the remaining rows by descending exponent x (they need the most Taylor iterations on
    // the biggest rationals; first keeps the tail short). VERIF_SEED permutes the order instead.
    items.sort_by(|a, b| {
        let class = |i: &(usize, usize)| {
            let (c, row) = (&cells[i.0], &cells[i.0].rows[i.1]);
            if c.total > bounds_dense_max {
                0u8
            } else if row.stake <= 1 || row.stake + 1 >= c.total {
                1
            } else {
                2
            }
        };
        let x = |i: &(usize, usize)| {
            let v = cells[i.0].rows[i.1].x_lo;
            if v.is_finite() { v } else { -1.0 }
        };
        class(a).cmp(&class(b)).then(x(b).partial_cmp(&x(a)).unwrap_or(std::cmp::Ordering::Equal)).then(a.cmp(b))
    });
    if ctx.seed != 0 {
        items.sort_by_key(|(c, r)| mc_core::mix(ctx.seed, (*c as u64) << 16 | *r as u64));
    }
    let timing = std::env::var_os("VERIF_C08_TIMING").is_some(); // stderr diagnostics only
    let rows: Vec<((Vec<u8>, Cut), f64)> = par_map(&items, ctx.threads(), |_, (ci, r)| {
        let t = std::time::Instant::now();
        let v = run_row(&cells[*ci], *r, &guard);
        (v, if timing { t.elapsed().as_secs_f64() } else { 0.0 })
    });
    let mut dec: Vec<Vec<Vec<u8>>> = cells.iter().map(|c| vec![vec![]; c.rows.len()]).collect();
    let mut cpu_by_phi: std::collections::BTreeMap<String, f64> = Default::default();
    let (mut cut_slow, mut cut_budget) = (0u64, 0u64);
    let mut cut_examples: Vec<Value> = vec![];
    for ((ci, r), ((row, cut), secs)) in items.iter().zip(rows) {
        dec[*ci][*r] = row;
        *cpu_by_phi.entry(format!("{:e}", cells[*ci].phi)).or_default() += secs;
        match cut {
            Cut::No => {}
            Cut::Slow => {
                cut_slow += 1;
                if cut_examples.len() < 4 {
                    let c = &cells[*ci];
                    cut_examples.push(json!({"phi_f": c.phi, "total": c.total.to_string(), "stake": c.rows[*r].stake.to_string()}));
                }
            }
            Cut::Budget => cut_budget += 1,
        }
    }
    rep.extra("rows_cut_short_because_decisions_were_slow", json!(cut_slow));
    rep.extra("decisions_abandoned_after_hard_timeout", json!(ABANDONED.load(std::sync::atomic::Ordering::SeqCst)));
    rep.extra("rows_skipped_or_cut_by_wall_budget", json!(cut_budget));
    if cut_slow + cut_budget > 0 {
        rep.exhaustive = false;
        rep.extra("rows_cut_short_examples", json!(cut_examples));
    }
    if timing {
        eprintln!("[C08] cpu seconds in is_lottery_won by phi_f: {cpu_by_phi:?}");
    }
    // ---- phase 3: the oracle
    let idx: Vec<usize> = (0..cells.len()).collect();
    let parts = par_map(&idx, ctx.threads(), |_, ci| judge_cell(&cells[*ci], &dec[*ci]));
    let mut inband = (0u64, None::<i64>);
    // (largest x of a row that was decided exactly everywhere, smallest x of a row with a wrongly lost draw)
    let (mut x_clean_max, mut x_wrong_min) = (0f64, f64::INFINITY);
    let mut wrong_by_phi: std::collections::BTreeMap<String, (u64, u64, u64)> = Default::default();
    for (p, st) in parts {
        rep.merge(p);
        inband.0 += st.inband_disagreements;
        inband.1 = match (inband.1, st.inband_max_rel) {
            (Some(a), Some(b)) => Some(a.max(b)),
            (a, b) => a.or(b),
        };
        for r in st.rows {
            let next_to_one = r.phi != 1.0 && (1.0 - r.phi) < f64::EPSILON;
            if r.x_lo.is_finite() && r.decisive > 0 && !next_to_one {
                if r.wrong_lost > 0 {
                    x_wrong_min = x_wrong_min.min(r.x_lo);
                } else {
                    x_clean_max = x_clean_max.max(r.x_lo);
                }
            }
            let e = wrong_by_phi.entry(format!("{:e}", r.phi)).or_default();
            e.0 += r.decisive;
            e.1 += r.wrong_lost;
            e.2 += r.wrong_won;
        }
    }
    rep.extra(
        "per_phi_f(decisive,wrongly_lost,wrongly_won)",
        json!(wrong_by_phi.iter().map(|(k, v)| (k.clone(), json!([v.0, v.1, v.2]))).collect::<serde_json::Map<_, _>>()),
    );
    rep.extra(
        "x=-w*ln(1-phi_f)",
        json!({"largest_x_of_a_row_with_no_wrong_decision": x_clean_max,
               "smallest_x_of_a_row_with_a_wrongly_lost_draw": if x_wrong_min.is_finite() { json!(x_wrong_min) } else { Value::Null }}),
    );
    rep.extra(
        "in_band_use",
        json!({"draws_inside_the_band_decided_against_the_exact_sign": inband.0,
               "largest_log2(distance/band)_among_them": inband.1,
               "note": "rows with x above 2.6556746947 and phi_f = 1-2^-53 are left out of this tally"}),
    );
    rep.extra("included_source_evaluations", json!(rep.evaluations));
    rep.extra("cells_phi_total", json!(cells.len()));
    rep.extra("largest_common_draw_set", json!(cells.iter().map(|c| c.draws.len()).max().unwrap_or(0)));

    // ---- public path
    let before = rep.evaluations;
    for p in pub_parts {
        rep.merge(p);
    }
    rep.extra("public_path_index_decisions", json!(rep.evaluations - before));
    rep.extra("public_path_configurations", json!(pcs.len()));
    // A run that was cut short may only end with a verdict when it found something beyond the two
    // findings the unchanged tree is known to show; otherwise it proves nothing: no verdict (exit 2).
    if !rep.exhaustive {
        let other = rep.violation_counts.iter().any(|(k, n)| *n > 0 && k != K_TAYLOR && k != K_NEAR_ONE);
        if !other {
            rep.machinery_error(format!(
                "the sweep was cut short (rows cut for slow decisions: {cut_slow}, rows cut/skipped by the {} s wall budget: {cut_budget}, \
                 public-path parties skipped: see evidence) and no violation other than the baseline findings was found: no verdict",
                guard.budget_s
            ));
        }
    }
    rep.finish(ctx)
}
