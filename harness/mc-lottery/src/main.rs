//! mc-lottery: serves C08 (see /verif/DESIGN.md §4)
mod c08;

fn main() {
    let ctx = mc_core::Ctx::from_args();
    mc_core::quiet_panics();
    match ctx.property.as_str() {
        "C08" => c08::run(&ctx),
        other => {
            eprintln!("mc-lottery does not serve {other}");
            std::process::exit(2);
        }
    }
}
