//! mc-lottery: serves C08 (see /verif/DESIGN.md §4)
//!
//! `is_lottery_won` is `pub(crate)` in mithril-stm, so the working-tree file that defines it is
//! compiled into this crate by *source inclusion* (DESIGN.md §1, "access to crate-private code").
//! The shim below supplies the only `crate::` names and macros that file uses; it selects the
//! default (num-integer) back end, the one mithril-stm is built with here (the rug back end
//! cannot be built offline).

/// shim for `use crate::{PhiFValue, Stake}` in eligibility.rs (same definitions as mithril-stm/src/lib.rs)
pub type Stake = u64;
pub type PhiFValue = f64;

/// shim for mithril-stm/src/proof_system/mod.rs: the num-integer back end is the one compiled
macro_rules! cfg_num_integer {
    ($($item:item)*) => { $( $item )* };
}
macro_rules! cfg_rug {
    ($($item:item)*) => {};
}

#[allow(dead_code, unused_imports)]
#[path = "/repo/mithril-stm/src/proof_system/concatenation/eligibility.rs"]
mod eligibility;

mod c08;

fn main() {
    let ctx = mc_core::Ctx::from_args();
    mc_core::quiet_panics();
    match ctx.property.as_str() {
        "C08" => c08::run(&ctx),
        other => {
            eprintln!("mc-lottery does not serve {other}");
            std::process::exit(2);
        }
    }
}
