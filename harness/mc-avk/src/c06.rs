//! C06 — all parties derive the same aggregate key from the same registrations.
//!
//! Bounded exhaustive enumeration on the real code. A *registration set* is a set of
//! (party, stake) pairs over a pool of 5 certified parties (real BLS keys with proof of
//! possession, operational certificate and KES signature; two of the keys share the longest
//! common prefix found by a deterministic birthday search over 2^18 (thorough 2^21) candidates). For every set of the family
//! every permutation of the registration order is pushed through four computation routes
//!
//! * `stm`        mithril-stm directly: `KeyRegistration::register` … `close_registration` →
//!                `Clerk::compute_aggregate_verification_key`, signers made with
//!                `Initializer::try_create_signer`;
//! * `signer`     `SignerBuilder::new` + `compute_aggregate_verification_key` +
//!                `restore_signer_from_initializer` (mithril-signer: `single_signer.rs`,
//!                `signable_seed_builder.rs`);
//! * `aggregator` `SignerBuilder::new` + `build_multi_signer().compute_aggregate_verification_key()`
//!                (mithril-aggregator: `epoch_service.rs::precompute_epoch_data`);
//! * `client`     `MessageBuilder::compute_mithril_stake_distribution_message` on a
//!                `MithrilStakeDistribution` parsed from its JSON message text,
//!
//! each fed with the inputs in memory and after every encode/decode round trip the nodes use
//! (message-part JSON, entity JSON, epoch-settings JSON + stake re-association, json-hex keys,
//! bytes-hex keys, raw bytes). The oracle only compares: inside one set everything (key bytes,
//! json-hex text, total stake, every member's signer slot) must be identical, the total stake is
//! the sum of the registered stakes, and two different sets never share a key.

use std::collections::BTreeMap;
use std::sync::Arc;

use mc_core::{Ctx, Report, catch, par_map, permutations};
use mithril_client::{MessageBuilder, MithrilCertificate, MithrilStakeDistribution};
use mithril_common::crypto_helper::{
    KesEvolutions, KesPeriod, KesSigner, KesSignerStandard, ProtocolAggregateVerificationKey,
    ProtocolAggregateVerificationKeyForConcatenation, ProtocolInitializer, ProtocolKey, ProtocolKeyRegistration,
    ProtocolOpCert, ProtocolSignerVerificationKeyForConcatenation, ProtocolSignerVerificationKeySignatureForConcatenation,
    SignerRegistrationParameters,
};
use mithril_common::entities::{
    ProtocolMessage, ProtocolMessagePartKey, ProtocolParameters, Signer, SignerWithStake, SingleSignature,
};
use mithril_common::messages::{SignerMessagePart, SignerWithStakeMessagePart};
use mithril_common::protocol::{MultiSigner, SignerBuilder};
use mithril_common::test::builder::MithrilFixtureBuilder;
use mithril_common::test::double::Dummy;
use mithril_stm::{
    AggregateVerificationKeyForConcatenation, Clerk, ClosedKeyRegistration, ClosedRegistrationEntry, Initializer,
    KeyRegistration, MithrilMembershipDigest, Parameters, VerificationKeyProofOfPossessionForConcatenation,
};
use rand_chacha::ChaCha20Rng;
use rand_core::SeedableRng;
use serde_json::{Value, json};

type D = MithrilMembershipDigest;
/// (index of the party in the pool, stake it registers with)
type Member = (usize, u64);

const POOL: usize = 5;
/// size of the birthday search for the equal-prefix key pair (doubled until MIN_PREFIX_BITS is reached)
const CANDIDATES_QUICK: usize = 1 << 18;
const CANDIDATES_THOROUGH: usize = 1 << 21;
const MIN_PREFIX_BITS: usize = 32;
const SEARCH_CHUNK: usize = 2048;
/// a stake no f64 can carry (2^53 + 1): a lossy numeric route changes it
const BIG: u64 = (1u64 << 53) + 1;
const STAKES: [u64; 5] = [1, 2, 3, 10, BIG];
/// stakes that collide with 1 (and with each other) once truncated to 32 / 56 bits
const T32: u64 = 1 + (1 << 32);
const T33: u64 = 1 + (1 << 33);
const T56: u64 = 1 + (1 << 56);
const T57: u64 = 1 + (1 << 57);
const ALL_STAKES: [u64; 9] = [1, 2, 3, 10, BIG, T32, T33, T56, T57];

const PATHS: [&str; 4] = ["stm", "signer", "aggregator", "client"];
const STM_ENCODINGS: [&str; 4] = ["mem", "raw-bytes", "json-hex", "bytes-hex"];
const SB_ENCODINGS: [&str; 5] = ["mem", "message-json", "entity-json", "epoch-settings-json", "bytes-hex-keys"];
const CLIENT_ENCODINGS: [&str; 2] = ["message-json", "message-json-bytes-hex-keys"];

fn base_encoding(path: &str) -> &'static str {
    if path == "client" { "message-json" } else { "mem" }
}

/// Pool layout (party index -> role). Members of a special pair never meet members of another special pair in a
/// set, so the five certified pool identities (operational certificate + KES key) are enough: the first member of
/// every pair is pool 0, the second pool 1, the fillers are pools 2, 3, 4.
const PARTY_LABELS: [&str; 13] = [
    "prefix-pair/0", "prefix-pair/1", "filler/0", "filler/1", "filler/2", "opposite-pair/0 (sk)", "opposite-pair/1 (r-sk)",
    "suffix-pair/0", "suffix-pair/1", "bytes48..-pair/0", "bytes48..-pair/1", "bytes..48-pair/0", "bytes..48-pair/1",
];
const PARTY_IDENTITY: [usize; 13] = [0, 1, 2, 3, 4, 0, 1, 0, 1, 0, 1, 0, 1];
/// (first member, second member, name) of the special pairs
const PAIRS: [(usize, usize, &str); 5] =
    [(0, 1, "equal-prefix"), (5, 6, "opposite"), (7, 8, "equal-suffix"), (9, 10, "equal-from-byte-48"), (11, 12, "equal-up-to-byte-48")];
const F0: usize = 2;
const F1: usize = 3;
const F2: usize = 4;

struct Party {
    identity: usize,
    party_id: String,
    /// the candidate seed the key comes from (None: the opposite key r - sk)
    candidate: Option<usize>,
    vk_bytes: [u8; 96],
    vk: ProtocolSignerVerificationKeyForConcatenation,
    kes_sig: Option<ProtocolSignerVerificationKeySignatureForConcatenation>,
    opcert: Option<ProtocolOpCert>,
    /// mithril-stm initializer holding the party's secret key (stake is set per case)
    stm_init: Initializer,
    /// the signer node's stored protocol initializer, one per stake value
    inits: BTreeMap<u64, ProtocolInitializer>,
}

struct World {
    parties: Vec<Party>,
    /// [pool identity][party]: that pool's KES signature over the party's key (a pool announcing a key that
    /// another pool already registered)
    identity_sig_over_key: Vec<Vec<ProtocolSignerVerificationKeySignatureForConcatenation>>,
    identities: Vec<(String, Option<ProtocolOpCert>)>,
    pp: ProtocolParameters,
    params: Parameters,
    msg: ProtocolMessage,
    msg_bytes: Vec<u8>,
    cert: MithrilCertificate,
    /// common bits of the four searched pairs: prefix, suffix, from byte 48, up to byte 48
    pair_bits: [usize; 4],
    opposite_is_opposite: bool,
    candidates: usize,
}

fn candidate_rng(j: usize) -> ChaCha20Rng {
    let mut seed = [0u8; 32];
    seed[..8].copy_from_slice(b"C06-key-");
    seed[8..16].copy_from_slice(&(j as u64).to_le_bytes());
    ChaCha20Rng::from_seed(seed)
}

fn common_prefix_bits(a: &[u8], b: &[u8]) -> usize {
    let mut n = 0;
    for (x, y) in a.iter().zip(b.iter()) {
        if x == y {
            n += 8;
        } else {
            n += (x ^ y).leading_zeros() as usize;
            break;
        }
    }
    n
}

fn common_suffix_bits(a: &[u8], b: &[u8]) -> usize {
    let mut n = 0;
    for (x, y) in a.iter().rev().zip(b.iter().rev()) {
        if x == y {
            n += 8;
        } else {
            n += (x ^ y).trailing_zeros() as usize;
            break;
        }
    }
    n
}

/// The secret key candidate `j` gets: made from the first 32 bytes of the candidate's ChaCha stream exactly as
/// `BlsSigningKey::generate` does. The chosen candidates are re-derived through the real `Initializer::new`
/// afterwards and must give the same verification key.
fn candidate_sk(j: usize) -> blst::min_sig::SecretKey {
    use rand_core::RngCore;
    let mut ikm = [0u8; 32];
    candidate_rng(j).fill_bytes(&mut ikm);
    blst::min_sig::SecretKey::key_gen(&ikm, &[]).expect("32 bytes of key material")
}

/// Four 16-byte windows of the compressed verification key of candidate `j` (sk -> vk only), each arranged so
/// that "longest common leading bits" of the window is what is searched: the first bytes, the last bytes
/// (bit-reversed), the bytes from 48 on (second coordinate component), the bytes up to 48 (bit-reversed).
fn candidate_windows(j: usize) -> [u128; 4] {
    let vk = candidate_sk(j).sk_to_pk().to_bytes();
    let w = |a: usize| u128::from_be_bytes(vk[a..a + 16].try_into().unwrap());
    [w(0), w(80).reverse_bits(), w(48), w(32).reverse_bits()]
}

fn measured_bits(window: usize, a: &[u8; 96], b: &[u8; 96]) -> usize {
    match window {
        0 => common_prefix_bits(a, b),
        1 => common_suffix_bits(a, b),
        2 => common_prefix_bits(&a[48..], &b[48..]),
        _ => common_suffix_bits(&a[..48], &b[..48]),
    }
}

/// Deterministic parallel birthday search: for each of the four windows the two candidates that agree on the
/// most bits (a candidate serves one pair only). Returns ([(bits, a, b); 4], size).
fn search_pairs(threads: usize, start: usize) -> ([(usize, usize, usize); 4], usize) {
    let mut feats: Vec<[u128; 4]> = vec![];
    let mut size = start;
    loop {
        let chunks: Vec<(usize, usize)> = (feats.len()..size).step_by(SEARCH_CHUNK).map(|a| (a, (a + SEARCH_CHUNK).min(size))).collect();
        for part in par_map(&chunks, threads, |_, (a, b)| (*a..*b).map(candidate_windows).collect::<Vec<_>>()) {
            feats.extend(part);
        }
        let mut found = [(0usize, 0usize, 1usize); 4];
        // the fillers and the opposite pair's first member are candidates 0..=3
        let mut used: Vec<usize> = vec![0, 1, 2, 3];
        for win in 0..4 {
            let mut keys: Vec<(u128, u32)> = feats.iter().enumerate().map(|(j, f)| (f[win], j as u32)).collect();
            keys.sort_unstable();
            let mut best = (0usize, 0usize, 1usize);
            for w in keys.windows(2) {
                let l = (w[0].0 ^ w[1].0).leading_zeros() as usize;
                if l > best.0 && !used.contains(&(w[0].1 as usize)) && !used.contains(&(w[1].1 as usize)) {
                    best = (l, w[0].1 as usize, w[1].1 as usize);
                }
            }
            found[win] = (best.0, best.1.min(best.2), best.1.max(best.2));
            used.push(best.1);
            used.push(best.2);
        }
        if found.iter().all(|f| f.0 >= MIN_PREFIX_BITS) || size >= 1 << 24 {
            return (found, size);
        }
        size *= 2;
    }
}

/// r - sk for the order r of the BLS12-381 scalar field (big-endian bytes)
fn negate_scalar(sk: &[u8; 32]) -> [u8; 32] {
    const R: [u8; 32] = [
        0x73, 0xed, 0xa7, 0x53, 0x29, 0x9d, 0x7d, 0x48, 0x33, 0x39, 0xd8, 0x08, 0x09, 0xa1, 0xd8, 0x05, 0x53, 0xbd, 0xa4, 0x02, 0xff, 0xfe,
        0x5b, 0xfe, 0xff, 0xff, 0xff, 0xff, 0x00, 0x00, 0x00, 0x01,
    ];
    let mut out = [0u8; 32];
    let mut borrow = 0i16;
    for k in (0..32).rev() {
        let mut d = R[k] as i16 - sk[k] as i16 - borrow;
        borrow = if d < 0 {
            d += 256;
            1
        } else {
            0
        };
        out[k] = d as u8;
    }
    out
}

fn build_world(threads: usize, candidates: usize) -> World {
    // phi_f = 1: every party wins every lottery, so every member's signature exists and its slot can be read
    let pp = ProtocolParameters::new(1, 4, 1.0);
    let params: Parameters = pp.clone().into();
    // operational certificates and KES keys of 5 certified pools (written under TMPDIR = scratch)
    let fixture = MithrilFixtureBuilder::default().with_signers(POOL).with_protocol_parameters(pp.clone()).build();
    let fx = fixture.signers_fixture();
    assert_eq!(fx.len(), POOL);
    let kes_signers: Vec<Arc<dyn KesSigner>> = fx
        .iter()
        .map(|f| {
            Arc::new(KesSignerStandard::new(
                f.kes_secret_key_path.clone().expect("certified fixture has a KES key"),
                f.operational_certificate_path.clone().expect("certified fixture has an operational certificate"),
            )) as Arc<dyn KesSigner>
        })
        .collect();
    let identities: Vec<(String, Option<ProtocolOpCert>)> =
        fx.iter().map(|f| (f.signer_with_stake.party_id.clone(), f.signer_with_stake.operational_certificate.clone())).collect();

    // key material: fillers = candidates 0,1,2; opposite pair = candidate 3 and its negation; the searched pairs
    let (found, candidates) = search_pairs(threads, candidates);
    // party index -> candidate (None: the negated key, made below)
    let cand_of: [Option<usize>; 13] = [
        Some(found[0].1), Some(found[0].2), Some(0), Some(1), Some(2), Some(3), None,
        Some(found[1].1), Some(found[1].2), Some(found[2].1), Some(found[2].2), Some(found[3].1), Some(found[3].2),
    ];

    let mut parties: Vec<Party> = vec![];
    for (i, cand) in cand_of.iter().enumerate() {
        let identity = PARTY_IDENTITY[i];
        let kes_signer = kes_signers[identity].clone();
        let (stm_init, inits) = match cand {
            Some(cand) => {
                let mut inits = BTreeMap::new();
                for s in ALL_STAKES {
                    let init = ProtocolInitializer::setup(params, Some(kes_signer.clone()), Some(KesPeriod(0)), s, &mut candidate_rng(*cand))
                        .expect("protocol initializer setup");
                    inits.insert(s, init);
                }
                let stm_init = Initializer::new(params, 1, &mut candidate_rng(*cand));
                assert_eq!(
                    stm_init.get_verification_key_proof_of_possession_for_concatenation().vk.to_bytes(),
                    candidate_sk(*cand).sk_to_pk().to_bytes(),
                    "the search derives the key the real Initializer::new derives from the same seed"
                );
                (stm_init, inits)
            }
            None => {
                // the opposite key: sk' = r - sk of the pair's first member. The proof of possession is made as
                // mithril-stm makes it (k1 = sk'.sign("PoP"), k2 = sk' * G1) and is checked by the real
                // RegistrationEntry::new at every registration; the initializers are the first member's with the
                // secret key, the key + proof of possession and the KES signature replaced.
                let first = &parties[i - 1];
                let sk0 = candidate_sk(first.candidate.expect("first member comes from a candidate")).to_bytes();
                let sk1 = negate_scalar(&sk0);
                let blst_sk = blst::min_sig::SecretKey::from_bytes(&sk1).expect("r - sk is a valid scalar");
                let mut vkpop = [0u8; 192];
                vkpop[..96].copy_from_slice(&blst_sk.sk_to_pk().to_bytes());
                vkpop[96..144].copy_from_slice(&blst_sk.sign(b"PoP", &[], &[]).to_bytes());
                vkpop[144..].copy_from_slice(&blst::min_pk::SecretKey::from_bytes(&sk1).expect("scalar").sk_to_pk().to_bytes());
                let vkpop = VerificationKeyProofOfPossessionForConcatenation::from_bytes(&vkpop).expect("opposite key + proof of possession decode");
                let (kes_sig, _) = kes_signer.sign(&vkpop.to_bytes(), KesPeriod(0)).expect("KES signature over the opposite key");
                let patch = |mut init: Value| -> Value {
                    init["sk"] = json!(sk1.to_vec());
                    init["pk"] = serde_json::to_value(vkpop).expect("key json");
                    init
                };
                let stm_init: Initializer =
                    serde_json::from_value(patch(serde_json::to_value(&first.stm_init).expect("initializer json"))).expect("opposite initializer");
                let mut inits = BTreeMap::new();
                for s in ALL_STAKES {
                    let mut v = serde_json::to_value(&first.inits[&s]).expect("protocol initializer json");
                    v["stm_initializer"] = patch(v["stm_initializer"].take());
                    v["kes_signature"] = serde_json::to_value(kes_sig).expect("kes signature json");
                    let init: ProtocolInitializer = serde_json::from_value(v).expect("opposite protocol initializer");
                    inits.insert(s, init);
                }
                (stm_init, inits)
            }
        };
        let vk: ProtocolSignerVerificationKeyForConcatenation = inits[&1].verification_key_for_concatenation().into();
        let vk_bytes = vk.vk.to_bytes();
        assert_eq!(vk_bytes, stm_init.get_verification_key_proof_of_possession_for_concatenation().vk.to_bytes());
        for s in ALL_STAKES {
            assert_eq!(inits[&s].verification_key_for_concatenation().vk.to_bytes(), vk_bytes);
            assert_eq!(inits[&s].get_stake(), s);
        }
        parties.push(Party {
            identity,
            party_id: identities[identity].0.clone(),
            candidate: *cand,
            vk_bytes,
            vk,
            kes_sig: inits[&1].verification_key_signature_for_concatenation(),
            opcert: identities[identity].1.clone(),
            stm_init,
            inits,
        });
    }
    let identity_sig_over_key = kes_signers
        .iter()
        .map(|ks| {
            parties
                .iter()
                .map(|p| {
                    let (sig, _) = ks.sign(&p.vk.to_bytes(), KesPeriod(0)).expect("KES signature over another pool's key");
                    sig.into()
                })
                .collect()
        })
        .collect();
    let mut msg = ProtocolMessage::new();
    msg.set_message_part(ProtocolMessagePartKey::SnapshotDigest, "c06-digest".to_string());
    use mithril_common::protocol::ToMessage;
    let msg_bytes = msg.to_message().into_bytes();
    let bits = |win: usize, (a, b, _): (usize, usize, &str)| measured_bits(win, &parties[a].vk_bytes, &parties[b].vk_bytes);
    let (o0, o1) = (&parties[PAIRS[1].0].vk_bytes, &parties[PAIRS[1].1].vk_bytes);
    World {
        pair_bits: [bits(0, PAIRS[0]), bits(1, PAIRS[2]), bits(2, PAIRS[3]), bits(3, PAIRS[4])],
        // same x coordinate, opposite y: the compressed encodings differ in the sign flag (0x20 of byte 0) only
        opposite_is_opposite: o0[0] ^ o1[0] == 0x20 && o0[1..] == o1[1..],
        candidates,
        identity_sig_over_key,
        identities,
        parties,
        pp,
        params,
        msg,
        msg_bytes,
        cert: MithrilCertificate::dummy(),
    }
}

impl World {
    fn signer_with_stake(&self, m: Member) -> SignerWithStake {
        let p = &self.parties[m.0];
        SignerWithStake {
            party_id: p.party_id.clone(),
            verification_key_for_concatenation: p.vk,
            verification_key_signature_for_concatenation: p.kes_sig,
            operational_certificate: p.opcert.clone(),
            kes_evolutions: Some(KesEvolutions(0)),
            stake: m.1,
        }
    }
}

// ---------------------------------------------------------------------------------------------
// one evaluation = one registration in a given order on one route with one input encoding

/// what a registered member gets when it asks for its signer and signs
#[derive(Clone, Debug, Eq, PartialOrd, Ord)]
enum Slot {
    /// the slot its signature carries
    At(u64),
    /// a signer, but no lottery won
    NoSignature,
    /// no signer at all (the message is not compared)
    NoSigner(String),
}

impl PartialEq for Slot {
    fn eq(&self, o: &Slot) -> bool {
        match (self, o) {
            (Slot::At(a), Slot::At(b)) => a == b,
            (Slot::NoSignature, Slot::NoSignature) | (Slot::NoSigner(_), Slot::NoSigner(_)) => true,
            _ => false,
        }
    }
}

#[derive(Clone, Debug, PartialEq, Eq)]
struct Out {
    /// `AggregateVerificationKeyForConcatenation::to_bytes()`
    avk: Vec<u8>,
    /// the json-hex text nodes put into protocol messages / certificates
    json_hex: String,
    total: u64,
    /// (party, slot carried by its signature), sorted by party; None on routes that do not sign
    slots: Option<Vec<(usize, Slot)>>,
}
type Res = Result<Out, String>;

fn es<E: std::fmt::Display>(what: &'static str) -> impl Fn(E) -> String {
    move |e| format!("{what}: {e:#}")
}

fn out_of(avk: &AggregateVerificationKeyForConcatenation<D>, slots: Option<Vec<(usize, Slot)>>) -> Res {
    Ok(Out {
        avk: avk.to_bytes().map_err(es("avk to_bytes"))?,
        json_hex: ProtocolKey::new(avk.clone()).to_json_hex().map_err(es("avk to_json_hex"))?,
        total: avk.get_total_stake(),
        slots,
    })
}

fn caught(r: Result<Res, String>) -> Res {
    match r {
        Ok(r) => r,
        Err(p) => Err(format!("panic: {p} at {}", mc_core::last_panic_location())),
    }
}

fn stm_key(w: &World, i: usize, enc: &str) -> Result<VerificationKeyProofOfPossessionForConcatenation, String> {
    let k = w.parties[i].stm_init.get_verification_key_proof_of_possession_for_concatenation();
    match enc {
        "mem" => Ok(k),
        "raw-bytes" => VerificationKeyProofOfPossessionForConcatenation::from_bytes(&k.to_bytes()).map_err(es("key from_bytes")),
        "json-hex" => {
            let t = ProtocolKey::new(k).to_json_hex().map_err(es("key to_json_hex"))?;
            Ok(ProtocolKey::<VerificationKeyProofOfPossessionForConcatenation>::from_json_hex(&t).map_err(es("key from_json_hex"))?.into_inner())
        }
        "bytes-hex" => {
            let t = ProtocolKey::new(k).to_bytes_hex().map_err(es("key to_bytes_hex"))?;
            // the decoder every node uses: json-hex first, bytes-hex as fallback
            let k: ProtocolSignerVerificationKeyForConcatenation = t.try_into().map_err(es("key decode"))?;
            Ok(k.into_inner())
        }
        other => Err(format!("unknown stm encoding {other}")),
    }
}

/// route `stm`
fn eval_stm(w: &World, order: &[Member], enc: &str, with_slots: bool) -> Res {
    caught(catch(|| -> Res {
        let mut kr = KeyRegistration::initialize();
        for &(i, s) in order {
            let k = stm_key(w, i, enc)?;
            kr.register(s, &k).map_err(es("KeyRegistration::register"))?;
        }
        let closed = kr.close_registration(&w.params).map_err(es("close_registration"))?;
        let clerk = Clerk::<D>::new_clerk_from_closed_key_registration(&w.params, &closed);
        let avk = clerk.compute_aggregate_verification_key();
        let slots = if with_slots {
            let mut slots = vec![];
            for &(i, s) in order {
                let mut init = w.parties[i].stm_init.clone();
                init.stake = s;
                let slot = match init.try_create_signer::<D>(&closed) {
                    Ok(signer) => match signer.sign(&w.msg_bytes) {
                        Some(sig) => Slot::At(sig.signer_index),
                        None => Slot::NoSignature,
                    },
                    Err(e) => Slot::NoSigner(format!("try_create_signer: {e:#}")),
                };
                slots.push((i, slot));
            }
            slots.sort_by_key(|x| x.0);
            Some(slots)
        } else {
            None
        };
        out_of(avk.to_concatenation_aggregate_verification_key(), slots)
    }))
}

fn json_round_trip<T: serde::Serialize + serde::de::DeserializeOwned>(v: &T) -> Result<T, String> {
    let t = serde_json::to_string(v).map_err(es("to json"))?;
    serde_json::from_str(&t).map_err(es("from json"))
}

fn bytes_hex_parts(w: &World, order: &[Member]) -> Result<Vec<SignerWithStakeMessagePart>, String> {
    let mem: Vec<SignerWithStake> = order.iter().map(|m| w.signer_with_stake(*m)).collect();
    let mut parts = SignerWithStakeMessagePart::from_signers(mem.clone());
    for (p, s) in parts.iter_mut().zip(mem.iter()) {
        p.verification_key_for_concatenation = s.verification_key_for_concatenation.to_bytes_hex().map_err(es("vk to_bytes_hex"))?;
        p.verification_key_signature_for_concatenation = match &s.verification_key_signature_for_concatenation {
            Some(k) => Some(k.to_bytes_hex().map_err(es("kes sig to_bytes_hex"))?),
            None => None,
        };
        p.operational_certificate = match &s.operational_certificate {
            Some(k) => Some(k.to_bytes_hex().map_err(es("opcert to_bytes_hex"))?),
            None => None,
        };
    }
    Ok(parts)
}

/// the signer list as a node holds it after the given transport
fn encode_signers(w: &World, order: &[Member], enc: &str) -> Result<Vec<SignerWithStake>, String> {
    let mem: Vec<SignerWithStake> = order.iter().map(|m| w.signer_with_stake(*m)).collect();
    match enc {
        "mem" => Ok(mem),
        // certificate metadata / stake distribution message
        "message-json" => {
            let parts = json_round_trip(&SignerWithStakeMessagePart::from_signers(mem))?;
            SignerWithStakeMessagePart::try_into_signers(parts).map_err(es("try_into_signers"))
        }
        // the entity's own serde form (artifact / store records)
        "entity-json" => json_round_trip(&mem),
        // what a signer node does: signers without stake from the epoch settings message, stakes
        // re-associated by party id from its own stake distribution
        "epoch-settings-json" => {
            let signers: Vec<Signer> = mem.iter().cloned().map(Into::into).collect();
            let parts = json_round_trip(&SignerMessagePart::from_signers(signers))?;
            let signers = SignerMessagePart::try_into_signers(parts).map_err(es("SignerMessagePart::try_into_signers"))?;
            let stakes: BTreeMap<String, u64> = order.iter().map(|m| (w.parties[m.0].party_id.clone(), m.1)).collect();
            signers
                .into_iter()
                .map(|s| {
                    let stake = *stakes.get(&s.party_id).ok_or("party id lost in transport")?;
                    Ok(SignerWithStake::from_signer(s, stake))
                })
                .collect()
        }
        "bytes-hex-keys" => {
            let parts = json_round_trip(&bytes_hex_parts(w, order)?)?;
            SignerWithStakeMessagePart::try_into_signers(parts).map_err(es("try_into_signers"))
        }
        other => Err(format!("unknown signer-list encoding {other}")),
    }
}

struct SbOut {
    signer: Res,
    aggregator: Res,
    multi_signer: Option<MultiSigner>,
    signatures: Vec<(usize, SingleSignature)>,
}

/// routes `signer` and `aggregator` (one `SignerBuilder::new`, then each node's own calls)
fn eval_sb(w: &World, order: &[Member], enc: &str, with_slots: bool) -> SbOut {
    let r = catch(|| -> Result<SbOut, String> {
        let signers = encode_signers(w, order, enc)?;
        let sb = SignerBuilder::new(&signers, &w.pp).map_err(es("SignerBuilder::new"))?;
        // signer node
        let signer = catch(|| -> Result<(Out, Vec<(usize, SingleSignature)>), String> {
            let avk: ProtocolAggregateVerificationKey = sb.compute_aggregate_verification_key();
            let mut slots = vec![];
            let mut sigs = vec![];
            if with_slots {
                for &(i, s) in order {
                    let p = &w.parties[i];
                    let single = match sb.restore_signer_from_initializer(p.party_id.clone(), p.inits[&s].clone()) {
                        Ok(single) => single,
                        Err(e) => {
                            slots.push((i, Slot::NoSigner(format!("restore_signer_from_initializer: {e:#}"))));
                            continue;
                        }
                    };
                    match single.sign(&w.msg).map_err(es("SingleSigner::sign"))? {
                        Some(sig) => {
                            slots.push((i, Slot::At(sig.signature.signer_index)));
                            sigs.push((i, sig));
                        }
                        None => slots.push((i, Slot::NoSignature)),
                    }
                }
                slots.sort_by_key(|x| x.0);
            }
            let out = out_of(avk.to_concatenation_aggregate_verification_key(), with_slots.then_some(slots))?;
            Ok((out, sigs))
        });
        let (signer, signatures) = match signer {
            Ok(Ok((o, s))) => (Ok(o), s),
            Ok(Err(e)) => (Err(e), vec![]),
            Err(p) => (Err(format!("panic: {p} at {}", mc_core::last_panic_location())), vec![]),
        };
        // aggregator
        let ms = sb.build_multi_signer();
        let aggregator = out_of(ms.compute_aggregate_verification_key().to_concatenation_aggregate_verification_key(), None);
        Ok(SbOut { signer, aggregator, multi_signer: Some(ms), signatures })
    });
    match r {
        Ok(Ok(o)) => o,
        Ok(Err(e)) => SbOut { signer: Err(e.clone()), aggregator: Err(e), multi_signer: None, signatures: vec![] },
        Err(p) => {
            let e = format!("panic: {p} at {}", mc_core::last_panic_location());
            SbOut { signer: Err(e.clone()), aggregator: Err(e), multi_signer: None, signatures: vec![] }
        }
    }
}

/// route `client`
fn eval_client(w: &World, order: &[Member], enc: &str) -> Res {
    caught(catch(|| -> Res {
        let parts = match enc {
            "message-json" => SignerWithStakeMessagePart::from_signers(order.iter().map(|m| w.signer_with_stake(*m)).collect()),
            "message-json-bytes-hex-keys" => bytes_hex_parts(w, order)?,
            other => return Err(format!("unknown client encoding {other}")),
        };
        client_from_parts(w, parts)
    }))
}

/// the client's recomputation for an explicit list of message parts
fn client_from_parts(w: &World, parts: Vec<SignerWithStakeMessagePart>) -> Res {
    caught(catch(|| -> Res {
        let doc = json!({
            "epoch": 7,
            "signers": parts,
            "hash": "c06-msd-hash",
            "certificate_hash": "c06-certificate-hash",
            "created_at": "2024-01-01T00:00:00Z",
            "protocol_parameters": w.pp,
        });
        let text = serde_json::to_string(&doc).map_err(es("message to json"))?;
        let msd: MithrilStakeDistribution = serde_json::from_str(&text).map_err(es("message from json"))?;
        let message = MessageBuilder::new()
            .compute_mithril_stake_distribution_message(&w.cert, &msd)
            .map_err(es("compute_mithril_stake_distribution_message"))?;
        let hex = message
            .get_message_part(&ProtocolMessagePartKey::NextAggregateVerificationKey)
            .ok_or("no NextAggregateVerificationKey part")?
            .clone();
        // the text is compared as it is; for the key bytes it is read with the nodes' decoder (json-hex, else bytes-hex)
        let key: ProtocolAggregateVerificationKeyForConcatenation = hex.as_str().try_into().map_err(es("message part does not decode"))?;
        Ok(Out { avk: key.to_bytes().map_err(es("avk to_bytes"))?, json_hex: hex, total: key.get_total_stake(), slots: None })
    }))
}

// ---------------------------------------------------------------------------------------------
// comparison

struct Eval {
    path: &'static str,
    enc: &'static str,
    perm: usize,
    res: Res,
}

/// what differs between two evaluations of the same set: None = nothing
fn diff(a: &Res, b: &Res) -> Option<(&'static str, String)> {
    match (a, b) {
        (Err(_), Err(_)) => None,
        (Ok(_), Err(e)) | (Err(e), Ok(_)) => Some(("fails", format!("one computation fails ({e}) while the other yields a key"))),
        (Ok(x), Ok(y)) => {
            if x.avk == y.avk && x.json_hex != y.json_hex {
                let cut = |t: &str| t.chars().take(96).collect::<String>();
                Some(("avk", format!("same key bytes, but the text that goes into the signed protocol message differs: {}... vs {}...", cut(&x.json_hex), cut(&y.json_hex))))
            } else if x.avk != y.avk {
                Some(("avk", format!("aggregate key {} (total stake {}) vs {} (total stake {})", hex::encode(&x.avk), x.total, hex::encode(&y.avk), y.total)))
            } else if x.total != y.total {
                Some(("avk", format!("total stake {} vs {}", x.total, y.total)))
            } else {
                match (&x.slots, &y.slots) {
                    (Some(sx), Some(sy)) if sx != sy => Some(("slot", format!("signer slots (party, slot) {sx:?} vs {sy:?}"))),
                    _ => None,
                }
            }
        }
    }
}

fn set_json(set: &[Member]) -> Value {
    json!(set.iter().map(|m| json!([m.0, m.1.to_string()])).collect::<Vec<_>>())
}

fn order_of(set: &[Member], perm: &[usize]) -> Vec<Member> {
    perm.iter().map(|k| set[*k]).collect()
}

/// encode/decode round trips of the resulting key through every codec nodes use
fn key_round_trips(rep: &mut Report, set: &[Member], o: &Out) {
    type K = ProtocolAggregateVerificationKeyForConcatenation;
    let r = catch(|| -> Result<(), (&'static str, String)> {
        let e = |c: &'static str| move |x: anyhow::Error| (c, format!("{x:#}"));
        let same = |c: &'static str, k: &K| -> Result<(), (&'static str, String)> {
            let b = k.to_bytes().map_err(e(c))?;
            let h = k.to_json_hex().map_err(e(c))?;
            if b != o.avk || h != o.json_hex || k.get_total_stake() != o.total {
                return Err((c, format!("decoded key re-encodes to {} / total {}", hex::encode(b), k.get_total_stake())));
            }
            Ok(())
        };
        same("json-hex", &K::from_json_hex(&o.json_hex).map_err(e("json-hex"))?)?;
        same("raw-bytes", &K::from_bytes(&o.avk).map_err(e("raw-bytes"))?)?;
        let k = K::from_bytes(&o.avk).map_err(e("raw-bytes"))?;
        let bh = k.to_bytes_hex().map_err(e("bytes-hex"))?;
        same("bytes-hex", &K::from_bytes_hex(&bh).map_err(e("bytes-hex"))?)?;
        // the serde route of certificates: a JSON string holding json-hex, decoder with bytes-hex fallback
        let k2: K = serde_json::from_str(&serde_json::to_string(&k).map_err(|x| ("serde", x.to_string()))?).map_err(|x| ("serde", x.to_string()))?;
        same("serde", &k2)?;
        let k3: K = bh.as_str().try_into().map_err(e("decode-fallback"))?;
        same("decode-fallback", &k3)?;
        Ok(())
    });
    rep.eval();
    match r {
        Ok(Ok(())) => rep.outcome("key-round-trip:unchanged"),
        Ok(Err((codec, what))) => {
            rep.outcome("key-round-trip:changed");
            rep.violation(
                &format!("C06/encoding-round-trip-changes-key:avk/{codec}"),
                format!("the aggregate key {} of set {} does not survive its {codec} round trip: {what}", hex::encode(&o.avk), set_json(set)),
                json!({"sets": [set_json(set)], "codec": codec}),
            );
        }
        Err(p) => {
            rep.outcome("key-round-trip:changed");
            rep.violation(
                "C06/encoding-round-trip-changes-key:avk/panic",
                format!("round trip of the aggregate key of set {} panics: {p}", set_json(set)),
                json!({"sets": [set_json(set)]}),
            );
        }
    }
}

/// Level B: the full product for one set. `all_encodings_everywhere`: every encoding at every
/// permutation (thorough); otherwise every encoding at the first and the last (reversed)
/// permutation and the base encodings at all of them.
fn check_set(w: &World, set: &[Member], all_encodings_everywhere: bool) -> Report {
    let mut rep = Report::new("exploration", "");
    let perms = permutations(set.len());
    let mut evals: Vec<Eval> = vec![];
    let mut prev_ms: Option<(usize, MultiSigner)> = None;
    for (pi, perm) in perms.iter().enumerate() {
        let order = order_of(set, perm);
        let all_enc = all_encodings_everywhere || pi == 0 || pi + 1 == perms.len();
        for enc in STM_ENCODINGS {
            if enc == "mem" || all_enc {
                evals.push(Eval { path: "stm", enc, perm: pi, res: eval_stm(w, &order, enc, true) });
            }
        }
        for enc in SB_ENCODINGS {
            if !(enc == "mem" || all_enc) {
                continue;
            }
            let o = eval_sb(w, &order, enc, true);
            evals.push(Eval { path: "signer", enc, perm: pi, res: o.signer });
            evals.push(Eval { path: "aggregator", enc, perm: pi, res: o.aggregator });
            if enc == "mem"
                && let Some(ms) = o.multi_signer
            {
                // what the property is for: a signature made by a signer that registered the parties in
                // one order is checked by an aggregator that registered them in another order
                for (i, sig) in &o.signatures {
                    let own = ms.verify_single_signature(&w.msg, sig).is_ok();
                    if !own {
                        rep.outcome("signature:rejected-by-same-order-aggregator");
                        continue;
                    }
                    if let Some((ppi, pms)) = &prev_ms {
                        rep.eval();
                        match pms.verify_single_signature(&w.msg, sig) {
                            Ok(()) => rep.outcome("signature:accepted-by-other-order-aggregator"),
                            Err(e) => {
                                rep.outcome("signature:rejected-by-other-order-aggregator");
                                rep.violation(
                                    "C06/signature-rejected-by-aggregator-built-in-other-order",
                                    format!(
                                        "set {}: the signature of party {i} made after registering in order {:?} is accepted by the aggregator built in the same order but rejected by the one built in order {:?}: {e:#}",
                                        set_json(set), order, order_of(set, &perms[*ppi])
                                    ),
                                    json!({"sets": [set_json(set)], "party": i, "signer_order": perm, "aggregator_order": perms[*ppi]}),
                                );
                            }
                        }
                    }
                }
                prev_ms = Some((pi, ms));
            }
        }
        for enc in CLIENT_ENCODINGS {
            if enc == "message-json" || all_enc {
                evals.push(Eval { path: "client", enc, perm: pi, res: eval_client(w, &order, enc) });
            }
        }
    }

    let expected_total: u128 = set.iter().map(|m| m.1 as u128).sum();
    let find = |path: &str, enc: &str, perm: usize| evals.iter().find(|e| e.path == path && e.enc == enc && e.perm == perm);
    let describe = |e: &Eval| format!("route {} / inputs {} / order {:?}", e.path, e.enc, order_of(set, &perms[e.perm]));
    let replay = |a: &Eval, b: &Eval| {
        json!({"sets": [set_json(set)],
               "a": {"path": a.path, "encoding": a.enc, "order": perms[a.perm]},
               "b": {"path": b.path, "encoding": b.enc, "order": perms[b.perm]}})
    };
    let mut ok_evals = 0u64;
    for e in &evals {
        rep.eval();
        match &e.res {
            Ok(o) => {
                let signs = e.path == "stm" || e.path == "signer";
                let all_signed = o.slots.as_ref().map(|s| s.iter().all(|x| matches!(x.1, Slot::At(_)))).unwrap_or(false);
                if !signs || all_signed {
                    rep.nontrivial(&(set, e.path, e.enc, &perms[e.perm]));
                    ok_evals += 1;
                } else {
                    rep.outcome("member-without-signature");
                }
                // total stake is the sum of what was registered
                if o.total as u128 != expected_total {
                    rep.violation(
                        &format!("C06/total-stake-not-sum-of-registered-stakes:{}", e.path),
                        format!("set {}: {} reports total stake {} but the registered stakes sum to {expected_total}", set_json(set), describe(e), o.total),
                        replay(e, e),
                    );
                }
            }
            Err(_) => rep.outcome("computation-failed"),
        }
    }
    let cmp = |rep: &mut Report, a: &Eval, b: &Eval, class: &str| {
        let Some((kind, what)) = diff(&a.res, &b.res) else {
            rep.outcome("same-set:equal");
            return;
        };
        rep.outcome("same-set:differs");
        let key = match (class, kind) {
            ("order", "avk") => format!("C06/avk-depends-on-registration-order:{}", a.path),
            ("order", "slot") => format!("C06/slot-depends-on-order:{}", a.path),
            ("order", _) => format!("C06/registration-fails-in-some-order:{}", a.path),
            ("paths", "slot") => format!("C06/slot-differs-between-paths:{}-vs-{}", a.path, b.path),
            ("paths", _) => format!("C06/paths-disagree:{}-vs-{}", a.path, b.path),
            (_, _) => format!("C06/encoding-round-trip-changes-key:{}/{}", b.path, b.enc),
        };
        rep.violation(&key, format!("set {}: [{}] and [{}] differ: {what}", set_json(set), describe(a), describe(b)), replay(a, b));
    };
    // (1) order: inside one (route, encoding) every permutation gives what the first one gave
    for path in PATHS {
        let encs: &[&str] = match path {
            "stm" => &STM_ENCODINGS,
            "client" => &CLIENT_ENCODINGS,
            _ => &SB_ENCODINGS,
        };
        for enc in encs {
            let group: Vec<&Eval> = evals.iter().filter(|e| e.path == path && e.enc == *enc).collect();
            for e in group.iter().skip(1) {
                cmp(&mut rep, group[0], e, "order");
            }
        }
    }
    // (2) routes: at every permutation the four routes (base encodings) agree pairwise
    for pi in 0..perms.len() {
        for (ia, a) in PATHS.iter().enumerate() {
            for b in PATHS.iter().skip(ia + 1) {
                if let (Some(x), Some(y)) = (find(a, base_encoding(a), pi), find(b, base_encoding(b), pi)) {
                    cmp(&mut rep, x, y, "paths");
                }
            }
        }
    }
    // (3) encodings: every transported form gives what the base form gave at the same permutation
    for e in &evals {
        if e.enc != base_encoding(e.path)
            && let Some(base) = find(e.path, base_encoding(e.path), e.perm)
        {
            cmp(&mut rep, base, e, "encoding");
        }
    }
    // (4) the resulting key through its own codecs
    if let Some(o) = evals.iter().find_map(|e| e.res.as_ref().ok()) {
        key_round_trips(&mut rep, set, o);
    }
    if ok_evals == 0 {
        rep.outcome("set-without-any-key");
    }
    if set.len() >= 3
        && let Some(Eval { res: Ok(o), .. }) = find("signer", "mem", perms.len() - 1)
    {
        rep.sample(json!({
            "set (party, stake)": set_json(set),
            "registration_order": order_of(set, &perms[perms.len() - 1]).iter().map(|m| m.0).collect::<Vec<_>>(),
            "route": "signer",
            "aggregate_key": hex::encode(&o.avk),
            "total_stake": o.total.to_string(),
            "slots (party, slot)": format!("{:?}", o.slots.as_ref().unwrap_or(&vec![])),
            "permutations": perms.len(),
            "evaluations_of_this_set": evals.len(),
        }));
    }
    rep
}

// ---------------------------------------------------------------------------------------------
// arrival histories: submissions that are REFUSED must leave no trace in what is closed

/// one submission that the registration must refuse: it arrives after `pos` genuine registrations
/// (1 <= pos <= N) and announces the key of the member that arrived at index `refers` (< pos), either
/// as an exact re-send or with another stake
#[derive(Clone, Copy, Debug, PartialEq, Eq, Hash)]
struct Refused {
    pos: usize,
    refers: usize,
    other_stake: bool,
}

const HISTORY_ROUTES: [&str; 2] = ["stm", "keyreg-wrapper"];

fn refused_json(r: &[Refused]) -> Value {
    json!(r.iter().map(|x| json!({"position": x.pos, "refers_to_arrival": x.refers, "kind": if x.other_stake { "registered-key-with-other-stake" } else { "exact-resend" }})).collect::<Vec<_>>())
}

struct HistOut {
    closed: ClosedKeyRegistration,
    out: Out,
    /// for every refused submission: was it refused
    refused: Vec<bool>,
}

/// a stake of the alphabet that none of the given stakes equals
fn stake_other_than(taken: &[u64]) -> u64 {
    *STAKES.iter().find(|s| !taken.contains(s)).expect("alphabet larger than any set of referred stakes")
}

/// Route `stm` (mithril-stm `KeyRegistration`) or `keyreg-wrapper` (mithril-common `KeyRegWrapper`, which stays
/// usable after a refused `register`): the genuine registrations arrive in `order`, the refused submissions where
/// they say; then close. Slots are looked up with `get_signer_index_for_registration` (what `try_create_signer`
/// uses); with `full_signers` every member also builds its signer, signs, and the slot the signature carries is
/// required to be the looked-up one.
fn run_history(w: &World, route: &str, order: &[Member], refused: &[Refused], full_signers: bool) -> Result<HistOut, String> {
    let r = catch(|| -> Result<HistOut, String> {
        let mut was_refused = vec![];
        let closed = match route {
            "stm" => {
                let mut kr = KeyRegistration::initialize();
                for k in 0..=order.len() {
                    for x in refused.iter().filter(|x| x.pos == k) {
                        let (i, s) = order[x.refers];
                        let stake = if x.other_stake { stake_other_than(&[s]) } else { s };
                        was_refused.push(kr.register(stake, &stm_key(w, i, "mem")?).is_err());
                    }
                    if let Some(&(i, s)) = order.get(k) {
                        kr.register(s, &stm_key(w, i, "mem")?).map_err(es("KeyRegistration::register"))?;
                    }
                }
                kr.close_registration(&w.params).map_err(es("close_registration"))?
            }
            "keyreg-wrapper" => {
                // a pool outside the set announces the registered key under its own certificate; its stake differs
                // from the stake of every member it copies
                let outsider = (0..POOL)
                    .find(|id| order.iter().all(|m| w.parties[m.0].identity != *id))
                    .ok_or("no pool outside the set")?;
                let copied: Vec<u64> = refused.iter().filter(|x| x.other_stake).map(|x| order[x.refers].1).collect();
                let mut dist: Vec<(String, u64)> = order.iter().map(|m| (w.parties[m.0].party_id.clone(), m.1)).collect();
                dist.push((w.identities[outsider].0.clone(), stake_other_than(&copied)));
                // (pool identity that submits, party whose key is announced)
                let params_of = |owner: usize, key_of: usize| SignerRegistrationParameters {
                    party_id: Some(w.identities[owner].0.clone()),
                    operational_certificate: w.identities[owner].1.clone(),
                    verification_key_for_concatenation: w.parties[key_of].vk,
                    verification_key_signature_for_concatenation: Some(w.identity_sig_over_key[owner][key_of]),
                    kes_evolutions: Some(KesEvolutions(0)),
                };
                let mut kr = ProtocolKeyRegistration::init(&dist);
                for k in 0..=order.len() {
                    for x in refused.iter().filter(|x| x.pos == k) {
                        let i = order[x.refers].0;
                        let owner = if x.other_stake { outsider } else { w.parties[i].identity };
                        was_refused.push(kr.register(params_of(owner, i)).is_err());
                    }
                    if let Some(&(i, _)) = order.get(k) {
                        kr.register(params_of(w.parties[i].identity, i)).map_err(es("KeyRegWrapper::register"))?;
                    }
                }
                kr.close(&w.params).map_err(es("KeyRegWrapper::close"))?
            }
            other => return Err(format!("unknown history route {other}")),
        };
        let clerk = Clerk::<D>::new_clerk_from_closed_key_registration(&w.params, &closed);
        let avk = clerk.compute_aggregate_verification_key();
        let mut slots = vec![];
        for &(i, s) in order {
            let entry = ClosedRegistrationEntry::new(w.parties[i].vk.vk, s);
            let mut slot = match closed.get_signer_index_for_registration(&entry) {
                Some(ix) => Slot::At(ix),
                None => Slot::NoSigner("not in the closed registration".into()),
            };
            if full_signers {
                let mut init = w.parties[i].stm_init.clone();
                init.stake = s;
                let signed = match init.try_create_signer::<D>(&closed) {
                    Ok(signer) => match signer.sign(&w.msg_bytes) {
                        Some(sig) => Slot::At(sig.signer_index),
                        None => Slot::NoSignature,
                    },
                    Err(e) => Slot::NoSigner(format!("try_create_signer: {e:#}")),
                };
                if signed != slot {
                    slot = Slot::NoSigner(format!("looked-up slot {slot:?} but the signer gives {signed:?}"));
                }
            }
            slots.push((i, slot));
        }
        slots.sort_by_key(|x| x.0);
        Ok(HistOut { closed, out: out_of(avk.to_concatenation_aggregate_verification_key(), Some(slots))?, refused: was_refused })
    });
    match r {
        Ok(r) => r,
        Err(p) => Err(format!("panic: {p} at {}", mc_core::last_panic_location())),
    }
}

/// the refused submissions tried on one arrival order of `n` members
fn refused_variants(n: usize, all_references: bool, pairs: bool) -> Vec<Vec<Refused>> {
    let mut out = vec![];
    for pos in 1..=n {
        for refers in 0..pos {
            if all_references || refers == 0 || refers + 1 == pos {
                for other_stake in [false, true] {
                    out.push(vec![Refused { pos, refers, other_stake }]);
                }
            }
        }
    }
    if pairs {
        for p1 in 1..=n {
            for p2 in p1..=n {
                for k1 in [false, true] {
                    for k2 in [false, true] {
                        out.push(vec![Refused { pos: p1, refers: p1 - 1, other_stake: k1 }, Refused { pos: p2, refers: 0, other_stake: k2 }]);
                    }
                }
            }
        }
    }
    out
}

/// Arrival-history dimension for one set. What is closed must be what the same order closes when the refused
/// submissions never arrive. Plan (order -> refused submissions tried):
/// * basic: `stm` identity + reversed, `keyreg-wrapper` identity: one refused submission of either kind at every
///   position, referring to the first and to the latest registered member;
/// * full:  `stm` identity: referring to every registered member, plus pairs of refused submissions; reversed: every
///   registered member; every other rotation: first/latest. `keyreg-wrapper` identity: every registered member;
///   reversed: first/latest.
fn arrival_histories(w: &World, set: &[Member], full_plan: bool) -> Report {
    let mut rep = Report::new("exploration", "");
    let n = set.len();
    let identity: Vec<usize> = (0..n).collect();
    let reversed: Vec<usize> = (0..n).rev().collect();
    // (route, order, refer to every registered member, pairs)
    let mut plan: Vec<(&'static str, Vec<usize>, bool, bool)> = vec![];
    plan.push(("stm", identity.clone(), full_plan, full_plan));
    plan.push(("keyreg-wrapper", identity.clone(), full_plan, false));
    if reversed != identity {
        plan.push(("stm", reversed.clone(), full_plan, false));
        if full_plan {
            plan.push(("keyreg-wrapper", reversed.clone(), false, false));
            for r in 1..n {
                let rot: Vec<usize> = (0..n).map(|k| (k + r) % n).collect();
                if rot != reversed {
                    plan.push(("stm", rot, false, false));
                }
            }
        }
    }
    for (route, perm, all_references, pairs) in &plan {
        let route = *route;
        let order = order_of(set, perm);
        {
            rep.eval();
            let base = match run_history(w, route, &order, &[], true) {
                Ok(b) => b,
                Err(_) => {
                    rep.outcome("computation-failed");
                    continue;
                }
            };
            let variants = refused_variants(n, *all_references, *pairs);
            for (vi, refused) in variants.iter().enumerate() {
                rep.eval();
                // every member builds its signer and signs in the histories that close right after a refusal
                let full = vi + 1 == variants.len() || refused.iter().all(|x| x.pos == n && x.refers + 1 == n);
                let replay = json!({"sets": [set_json(set)], "history": {"route": route, "order": perm, "refused": refused_json(refused)}});
                let describe = format!(
                    "set {}: route {route}, arrival order {:?}, refused submission(s) {}",
                    set_json(set), order, refused_json(refused)
                );
                let h = match run_history(w, route, &order, refused, full) {
                    Ok(h) => h,
                    Err(e) => {
                        rep.outcome("history:differs");
                        rep.violation(
                            &format!("C06/refused-registration-breaks-registration:{route}"),
                            format!("{describe}: the same order without them closes, with them the registration fails: {e}"),
                            replay,
                        );
                        continue;
                    }
                };
                if h.refused.iter().any(|r| !*r) {
                    // accepted: another registered set; not this oracle's business
                    rep.outcome("refusable-submission:accepted");
                    continue;
                }
                rep.outcome_n("refusable-submission:refused", h.refused.len() as u64);
                rep.nontrivial(&("H", route, set, perm, refused));
                let key = if h.out.total != base.out.total {
                    Some(("changes-total-stake", format!("total stake {} instead of {}", h.out.total, base.out.total)))
                } else if h.out.avk != base.out.avk || h.out.json_hex != base.out.json_hex {
                    Some(("changes-avk", format!("aggregate key {} instead of {}", hex::encode(&h.out.avk), hex::encode(&base.out.avk))))
                } else if h.out.slots != base.out.slots {
                    Some(("changes-slot", format!("signer slots {:?} instead of {:?}", h.out.slots, base.out.slots)))
                } else if h.closed != base.closed {
                    Some(("changes-closed-registration", "the closed registrations are not equal".to_string()))
                } else {
                    None
                };
                match key {
                    None => rep.outcome("history:same-as-without-refusal"),
                    Some((k, what)) => {
                        rep.outcome("history:differs");
                        rep.violation(
                            &format!("C06/refused-registration-{k}:{route}"),
                            format!("{describe}: every one was refused, yet what is closed differs from the same order without them: {what}"),
                            replay,
                        );
                    }
                }
            }
        }
    }
    rep
}

// ---------------------------------------------------------------------------------------------
// label exchanges: the party id and the stake written in an entry belong to the key of that entry

const LABEL_KINDS: [&str; 3] = ["party-id-and-stake", "stake-only", "party-id-only"];
const LABELS_KEY: &str = "C06/signer-list-labels-not-bound-to-keys";

/// signer / aggregator / client routes for an explicit signer list (keys only, no slots)
fn eval_list(w: &World, list: &[SignerWithStake]) -> [(&'static str, Res); 3] {
    let sb = catch(|| -> Result<(Res, Res), String> {
        let sb = SignerBuilder::new(list, &w.pp).map_err(es("SignerBuilder::new"))?;
        let signer = out_of(sb.compute_aggregate_verification_key().to_concatenation_aggregate_verification_key(), None);
        let ms = sb.build_multi_signer();
        let aggregator = out_of(ms.compute_aggregate_verification_key().to_concatenation_aggregate_verification_key(), None);
        Ok((signer, aggregator))
    });
    let (signer, aggregator) = match sb {
        Ok(Ok(x)) => x,
        Ok(Err(e)) => (Err(e.clone()), Err(e)),
        Err(p) => (Err(format!("panic: {p}")), Err(format!("panic: {p}"))),
    };
    let client = client_from_parts(w, SignerWithStakeMessagePart::from_signers(list.to_vec()));
    [("signer", signer), ("aggregator", aggregator), ("client", client)]
}

/// One list against the plain mithril-stm registration of the (key, stake) pairs it states: every route must refuse
/// the list or give the key of those pairs.
fn check_list(w: &World, rep: &mut Report, parties: &[usize], list: &[SignerWithStake], genuine: Option<&Res>, what: &str, replay: Value) {
    let pairs: Vec<Member> = parties.iter().zip(list.iter()).map(|(p, s)| (*p, s.stake)).collect();
    let mut sorted = pairs.clone();
    sorted.sort();
    let reference = eval_stm(w, &sorted, "mem", false);
    for (route, res) in eval_list(w, list) {
        rep.eval();
        let Ok(o) = res else {
            rep.outcome("stated-list:refused");
            continue;
        };
        let same = |r: &Res| matches!(r, Ok(r) if r.avk == o.avk && r.json_hex == o.json_hex && r.total == o.total);
        if same(&reference) {
            rep.outcome("stated-list:key-of-its-pairs");
            rep.nontrivial(&("L", route, &pairs, what));
        } else {
            rep.outcome("stated-list:key-of-other-pairs");
            let genuine_too = genuine.map(|g| same(g) && !same(&reference)).unwrap_or(false);
            rep.violation(
                LABELS_KEY,
                format!(
                    "{what}: the list states the (party, stake) pairs {} but route {route} accepts it and yields the aggregate key {} (total stake {}){}; mithril-stm registering exactly those pairs yields {}",
                    set_json(&pairs),
                    hex::encode(&o.avk),
                    o.total,
                    if genuine_too { " - the key of the genuine list, whose set of pairs is different" } else { "" },
                    match &reference {
                        Ok(r) => format!("{} (total stake {})", hex::encode(&r.avk), r.total),
                        Err(e) => format!("an error: {e}"),
                    }
                ),
                replay.clone(),
            );
        }
    }
}

/// For a genuine certified list: every way of exchanging, between two entries, the party id and the stake, the stake
/// only, or the party id only (keys, operational certificates and KES signatures stay where they are).
fn label_exchanges(w: &World, set: &[Member]) -> Report {
    let mut rep = Report::new("exploration", "");
    let n = set.len();
    if n < 2 {
        return rep;
    }
    let genuine: Vec<SignerWithStake> = set.iter().map(|m| w.signer_with_stake(*m)).collect();
    let parties: Vec<usize> = set.iter().map(|m| m.0).collect();
    let genuine_ref = eval_stm(w, set, "mem", false);
    let pairs: Vec<(usize, usize)> = if n <= 3 {
        (0..n).flat_map(|a| (a + 1..n).map(move |b| (a, b))).collect()
    } else {
        vec![(0, 1), (0, n - 1), (n - 2, n - 1)]
    };
    for (a, b) in pairs {
        for kind in LABEL_KINDS {
            let mut list = genuine.clone();
            if kind != "stake-only" {
                let t = list[a].party_id.clone();
                list[a].party_id = list[b].party_id.clone();
                list[b].party_id = t;
            }
            if kind != "party-id-only" {
                let t = list[a].stake;
                list[a].stake = list[b].stake;
                list[b].stake = t;
            }
            check_list(
                w,
                &mut rep,
                &parties,
                &list,
                Some(&genuine_ref),
                &format!("genuine list {} with the {kind} labels of entries {a} and {b} exchanged", set_json(set)),
                json!({"sets": [set_json(set)], "label_exchange": {"entries": [a, b], "kind": kind}}),
            );
        }
    }
    rep
}

/// One pool that appears with two keys and two stakes in a list (its party id labels both entries), every order.
fn same_pool_twice(w: &World, set: &[Member]) -> Report {
    let mut rep = Report::new("exploration", "");
    for perm in permutations(set.len()) {
        let order = order_of(set, &perm);
        let list: Vec<SignerWithStake> = order.iter().map(|m| w.signer_with_stake(*m)).collect();
        let parties: Vec<usize> = order.iter().map(|m| m.0).collect();
        check_list(
            w,
            &mut rep,
            &parties,
            &list,
            None,
            &format!("list {:?} in which one pool certifies two keys", order),
            json!({"sets": [set_json(set)], "same_pool_twice": {"order": perm}}),
        );
    }
    rep
}

fn shares_a_pool(w: &World, set: &[Member]) -> bool {
    let mut ids: Vec<usize> = set.iter().map(|m| w.parties[m.0].identity).collect();
    ids.sort();
    ids.windows(2).any(|x| x[0] == x[1])
}

/// parties 0 and 5 (and 1 and 6) are certified by the same pool
fn same_pool_sets() -> Vec<Vec<Member>> {
    vec![vec![(0, 1), (5, 2)], vec![(0, 2), (5, 1)], vec![(1, 10), (6, 1)], vec![(0, 1), (2, 10), (5, 2)]]
}

// ---------------------------------------------------------------------------------------------
// the enumerated families

/// all distinct arrangements of `n` elements drawn from the multiset `pool`
fn arrangements(pool: &[u64], n: usize) -> Vec<Vec<u64>> {
    fn rec(pool: &[u64], used: &mut Vec<bool>, cur: &mut Vec<u64>, n: usize, out: &mut Vec<Vec<u64>>) {
        if cur.len() == n {
            out.push(cur.clone());
            return;
        }
        for i in 0..pool.len() {
            if !used[i] {
                used[i] = true;
                cur.push(pool[i]);
                rec(pool, used, cur, n, out);
                cur.pop();
                used[i] = false;
            }
        }
    }
    let mut out = vec![];
    rec(pool, &mut vec![false; pool.len()], &mut vec![], n, &mut out);
    out.sort();
    out.dedup();
    out
}

/// all vectors of length n over the alphabet
fn words(alphabet: &[u64], n: usize) -> Vec<Vec<u64>> {
    let mut out = vec![vec![]];
    for _ in 0..n {
        out = out.iter().flat_map(|w| alphabet.iter().map(move |a| [w.as_slice(), &[*a]].concat())).collect();
    }
    out
}

fn subsets_of_pool(min: usize, max: usize) -> Vec<Vec<usize>> {
    mc_core::subsets(POOL)
        .map(|mask| (0..POOL).filter(|i| mask & (1 << i) != 0).collect::<Vec<_>>())
        .filter(|s| s.len() >= min && s.len() <= max)
        .collect()
}

fn with_stakes(members: &[usize], stakes: &[Vec<u64>]) -> Vec<Vec<Member>> {
    stakes.iter().map(|st| members.iter().copied().zip(st.iter().copied()).collect()).collect()
}

/// Level B family: sets that get the full permutation x route x encoding product.
/// * every special pair {X0, X1} alone, with filler 0 (thorough: also with filler 1) and with fillers 0 and 1;
/// * generic sets: every party alone, the filler pairs, one prefix-pair member with a filler, the three fillers,
///   one prefix-pair member with the three fillers;
/// * two / three fillers whose stakes collide once truncated to 32 or 56 bits.
/// Stakes: every arrangement of sub-multisets of {1,1,2,10} (N <= 2 also {1,1,2,2^53+1}); thorough: all of
/// {1,2,10}^N and {1,1,2,2^53+1} for every N (the generic four-member set: arrangements only).
fn level_b_sets(thorough: bool) -> Vec<Vec<Member>> {
    let stakes_for = |n: usize, all_words: bool| {
        let mut stakes = arrangements(&[1, 1, 2, 10], n);
        if all_words {
            stakes.extend(words(&[1, 2, 10], n));
        }
        if thorough || n <= 2 {
            stakes.extend(arrangements(&[1, 1, 2, BIG], n));
        }
        stakes.sort();
        stakes.dedup();
        stakes
    };
    let mut out: Vec<Vec<Member>> = vec![];
    let mut add = |members: &[usize], stakes: &[Vec<u64>]| {
        let mut m = members.to_vec();
        m.sort();
        out.extend(with_stakes(&m, stakes));
    };
    for (x0, x1, _) in PAIRS {
        add(&[x0, x1], &stakes_for(2, thorough));
        add(&[x0, x1, F0], &stakes_for(3, thorough));
        if thorough {
            add(&[x0, x1, F1], &stakes_for(3, thorough));
        }
        add(&[x0, x1, F0, F1], &stakes_for(4, thorough));
    }
    for p in 0..PARTY_LABELS.len() {
        add(&[p], &[vec![1], vec![2], vec![10], vec![BIG]]);
    }
    for members in [[F0, F1], [F0, F2], [F1, F2], [PAIRS[0].0, F0], [PAIRS[0].1, F2]] {
        add(&members, &stakes_for(2, thorough));
    }
    add(&[F0, F1, F2], &stakes_for(3, thorough));
    add(&[PAIRS[0].0, F0, F1, F2], &stakes_for(4, false));
    // stakes equal modulo 2^32 / 2^56, distinct keys
    add(&[F0, F1], &arrangements(&[1, T32, T32, T56, T56], 2));
    add(&[F0, F1, F2], &arrangements(&[1, T32, T56], 3));
    out.sort();
    out.dedup();
    // smallest first (so that the first counterexample kept per key is a smallest one)
    out.sort_by_key(|s| s.len());
    out
}

/// Level A family (one key per set, pairwise distinctness):
/// * every set over the five-party pool {prefix pair, three fillers} (sizes 1..=5) and the stake alphabet;
/// * for every other special pair: each member alone, the pair, the pair with filler 0;
/// * {filler 0, filler 1}, the prefix pair and the three fillers with stake words over {1, 1+2^32, 1+2^33} and over
///   {1, 1+2^56, 1+2^57}: different stake vectors with equal sums that coincide once stakes are truncated.
fn level_a_sets(thorough: bool) -> Vec<Vec<Member>> {
    let mut out = vec![];
    for members in subsets_of_pool(1, POOL) {
        // quick: {1,2,3,10} up to three members, {1,2,3} for four and five
        let alphabet: &[u64] = if thorough {
            &STAKES
        } else if members.len() <= 3 {
            &STAKES[..4]
        } else {
            &STAKES[..3]
        };
        out.extend(with_stakes(&members, &words(alphabet, members.len())));
    }
    let alphabet: &[u64] = if thorough { &STAKES } else { &STAKES[..4] };
    for (x0, x1, _) in PAIRS.iter().skip(1) {
        for members in [vec![*x0], vec![*x1], vec![*x0, *x1], vec![F0, *x0, *x1]] {
            out.extend(with_stakes(&members, &words(alphabet, members.len())));
        }
    }
    for alphabet in [[1, T32, T33], [1, T56, T57]] {
        for members in [vec![F0, F1], vec![PAIRS[0].0, PAIRS[0].1], vec![F0, F1, F2]] {
            out.extend(with_stakes(&members, &words(&alphabet, members.len())));
        }
    }
    out.sort();
    out.dedup();
    out.sort_by_key(|s| s.len());
    out
}

/// Level A: one key per set on two routes in opposite orders; all keys pairwise distinct
fn level_a(w: &World, sets: &[Vec<Member>], threads: usize, rep: &mut Report) {
    let schedule: Vec<&Vec<Member>> = sets.iter().rev().collect();
    let mut res = par_map(&schedule, threads, |_, set| {
        let up = (*set).clone();
        let mut down = up.clone();
        down.reverse();
        (eval_stm(w, &up, "mem", false), eval_sb(w, &down, "message-json", false).aggregator)
    });
    res.reverse();
    let mut buckets: BTreeMap<Vec<u8>, usize> = BTreeMap::new();
    for (si, (set, (a, b))) in sets.iter().zip(res.iter()).enumerate() {
        rep.eval();
        rep.eval();
        if let Some((_, what)) = diff(a, b) {
            rep.outcome("same-set:differs");
            rep.violation(
                "C06/paths-disagree:stm-ascending-vs-aggregator-descending",
                format!("set {}: mithril-stm registering in ascending pool order and the aggregator route registering in descending order differ: {what}", set_json(set)),
                json!({"sets": [set_json(set)]}),
            );
        } else {
            rep.outcome("same-set:equal");
        }
        let expected_total: u128 = set.iter().map(|m| m.1 as u128).sum();
        for (path, r) in [("stm", a), ("aggregator", b)] {
            let Ok(o) = r else {
                rep.outcome("computation-failed");
                continue;
            };
            rep.nontrivial(&("A", set, path));
            if o.total as u128 != expected_total {
                rep.violation(
                    &format!("C06/total-stake-not-sum-of-registered-stakes:{path}"),
                    format!("set {}: route {path} reports total stake {} but the registered stakes sum to {expected_total}", set_json(set), o.total),
                    json!({"sets": [set_json(set)]}),
                );
            }
            match buckets.get(&o.avk) {
                Some(&other) if other != si => {
                    rep.outcome("distinct-sets:same-key");
                    rep.violation(
                        "C06/distinct-sets-same-key",
                        format!("sets {} and {} are different but both yield the aggregate key {} (route {path})", set_json(&sets[other]), set_json(set), hex::encode(&o.avk)),
                        json!({"sets": [set_json(&sets[other]), set_json(set)]}),
                    );
                }
                Some(_) => {}
                None => {
                    buckets.insert(o.avk.clone(), si);
                }
            }
        }
    }
    rep.add_extra("distinct_aggregate_keys", buckets.len() as u64);
    rep.outcome_n("distinct-sets:distinct-keys", buckets.len() as u64);
}

fn parse_sets(v: &Value) -> Vec<Vec<Member>> {
    let one = |s: &Value| -> Vec<Member> {
        s.as_array()
            .map(|a| {
                a.iter()
                    .map(|m| {
                        let st = m[1].as_str().and_then(|x| x.parse::<u64>().ok()).or(m[1].as_u64()).unwrap_or(1);
                        (m[0].as_u64().unwrap_or(0) as usize % PARTY_LABELS.len(), st)
                    })
                    .collect()
            })
            .unwrap_or_default()
    };
    v["sets"].as_array().map(|a| a.iter().map(one).filter(|s| !s.is_empty()).collect()).unwrap_or_default()
}

pub fn run(ctx: &Ctx) -> ! {
    let thorough = ctx.tier.pick(false, true);
    let threads = ctx.threads();
    let mut rep = Report::new(
        "exploration",
        "pool: 13 certified parties with real BLS keys and proofs of possession - three fillers and five special pairs: \
         keys agreeing on their first / last / from-byte-48 / up-to-byte-48 bits (>= 32 each, birthday search over 2^18, thorough \
         2^21, candidates) and a pair of opposite points (sk, r-sk). Family: every special pair alone, with one and with two \
         fillers; every party alone; filler-only sets and sets with one pair member; fillers whose stakes collide modulo 2^32 / \
         2^56; stakes: every arrangement drawn from the multiset {1,1,2,10} (N<=2 also {1,1,2,2^53+1}; thorough: all of \
         {1,2,10}^N and {1,1,2,2^53+1} for every N). Every set of the family is registered in EVERY order (N=4: 24 permutations) on four routes - mithril-stm directly, the signer node's and the \
         aggregator's use of SignerBuilder, the client's compute_mithril_stake_distribution_message on the parsed JSON \
         message - with the inputs in memory and after every transport encoding; each evaluation yields key bytes, json-hex \
         text, total stake and every member's signer slot (read from a signature it makes), all of which must be identical \
         inside a set, and every signature must be accepted by the aggregator built in another order; then one key per set of \
         the whole lattice (all subsets of sizes 1-5 of {prefix pair, fillers} x all stake words over {1,2,3,10} for N<=3 and {1,2,3} for N>=4, thorough {1,2,3,10,2^53+1}; the other pairs alone and with a filler; stake words over {1,1+2^32,1+2^33} and {1,1+2^56,1+2^57}) is computed \
         on two routes in opposite orders and all keys must be pairwise distinct. Arrival histories: for every set of the family, \
         on the identity and reversed arrival order (thorough: also every rotation), one submission that must be REFUSED (exact \
         re-send of a registered (key, stake); a registered key with another stake / announced by another pool) is inserted at \
         every position, referring to the first and to the latest registered member (thorough, for N<=3 and the four-member sets \
         of the quick family: to every registered member, and pairs of refused submissions), on mithril-stm's KeyRegistration \
         and on mithril-common's KeyRegWrapper; once every one \
         was refused, the closed registration, total stake, key and every member's slot must equal those of the same order \
         without them. Label exchanges: for every set of the family, the genuine certified signer list with the party id and \
         stake, the stake only, or the party id only of two entries exchanged (keys, certificates, KES signatures in place), and \
         lists in which one pool certifies two keys, on the signer / aggregator / client routes: the list is refused or the key \
         equals what mithril-stm gives for exactly the (key, stake) pairs the list states. A case (set, order, route, encoding) is \
         non-trivial when the registration closed, a key came out and - on the signing routes - every member obtained a \
         signature carrying its slot; distinct = distinct (set, order, route, encoding)",
    );
    // the certified fixture writes operational certificates and KES keys under the temp dir
    let scratch = ctx.scratch();
    unsafe { std::env::set_var("TMPDIR", &scratch) };
    let w = build_world(threads, ctx.tier.pick(CANDIDATES_QUICK, CANDIDATES_THOROUGH));
    eprintln!("[C06] world built at {:.1}s", ctx.elapsed_s());
    rep.extra(
        "pool",
        json!({
            "key_candidates": w.candidates,
            "parties": w.parties.iter().enumerate().map(|(i, p)| json!({"party": i, "role": PARTY_LABELS[i], "candidate": p.candidate, "pool_identity": p.identity, "party_id": p.party_id, "verification_key": hex::encode(p.vk_bytes)})).collect::<Vec<_>>(),
            "special_pairs": PAIRS.iter().map(|(a, b, n)| json!({"pair": n, "parties": [a, b]})).collect::<Vec<_>>(),
            "stake_values": ALL_STAKES.iter().map(|s| s.to_string()).collect::<Vec<_>>(),
            "protocol_parameters": {"k": w.pp.k, "m": w.pp.m, "phi_f": w.pp.phi_f},
        }),
    );
    // vacuity guards of the forced collisions
    rep.extra("equal_prefix_bits", json!(w.pair_bits[0]));
    rep.extra("equal_suffix_bits", json!(w.pair_bits[1]));
    rep.extra("equal_bits_from_byte_48", json!(w.pair_bits[2]));
    rep.extra("equal_bits_up_to_byte_48", json!(w.pair_bits[3]));
    rep.extra("opposite_pair_differs_in_sign_flag_only", json!(w.opposite_is_opposite));
    rep.assume(&format!(
        "forced key collisions in the pool (longest agreement found among {} constant-seeded candidates): parties 0/1 agree on their first {} bits, 7/8 on their last {} bits, 9/10 on the {} bits from byte 48 on, 11/12 on the {} bits up to byte 48; parties 5/6 are opposite points (keys of sk and r - sk: same x, compressed bytes equal except the sign flag). A key comparison / hash / encoding that is truncated beyond these agreements, or that takes another shortcut, is outside what this check can see",
        w.candidates, w.pair_bits[0], w.pair_bits[1], w.pair_bits[2], w.pair_bits[3]
    ));
    for (name, bits) in ["prefix", "suffix", "from-byte-48", "up-to-byte-48"].iter().zip(w.pair_bits) {
        if bits < MIN_PREFIX_BITS {
            rep.machinery_error(format!("the equal-{name} key pair agrees on {bits} bits only (< {MIN_PREFIX_BITS})"));
        }
    }
    if !w.opposite_is_opposite {
        rep.machinery_error("the opposite key pair is not a pair of opposite points".into());
    }
    {
        let mut keys: Vec<&[u8; 96]> = w.parties.iter().map(|p| &p.vk_bytes).collect();
        keys.sort();
        keys.dedup();
        if keys.len() != w.parties.len() {
            rep.machinery_error("two parties of the pool hold the same key".into());
        }
    }
    rep.assume("mithril-aggregator is not linked: its route is mirrored by the calls epoch_service.rs::precompute_epoch_data makes (SignerBuilder::new(&signers, &protocol_parameters)?.build_multi_signer() and compute_aggregate_verification_key() on the result); the signer node's route mirrors single_signer.rs / signable_seed_builder.rs (SignerBuilder::new, compute_aggregate_verification_key, restore_signer_from_initializer)");
    rep.assume("phi_f = 1 so that every member wins a lottery and its slot can be read from a real signature; the key does not depend on the protocol parameters in this build (no future_snark)");
    rep.assume("the client route yields a key only (a client has no slots); slots are compared between the stm and signer routes, and the aggregator's view of a slot through MultiSigner::verify_single_signature of signatures made under another registration order");
    rep.assume("total stake is taken to mean the sum of the registered stakes");
    rep.assume("label exchanges: the (key, stake) pairs a signer list states are, per entry, the key and the stake field of that entry; the reference for them is mithril-stm's KeyRegistration fed with exactly those pairs (the stm route, itself compared with all others on genuine lists)");
    rep.assume("arrival histories: a submission counts as refused when register returns an error; one that is accepted on the tree under test makes another registered set and is only counted (refusable-submission:accepted). The SignerBuilder routes abort at the first refusal and cannot reach a closed registration after one; mithril-stm's KeyRegistration and mithril-common's KeyRegWrapper can");
    rep.assume("keys come from a constant-seeded ChaCha20 RNG; KES material from the repository's certified test fixture");

    if let Some(path) = &ctx.replay {
        let v = mc_core::load_replay(path);
        let sets = parse_sets(&v);
        if sets.is_empty() {
            rep.machinery_error("replay file holds no set".into());
            rep.finish(ctx);
        }
        for s in &sets {
            if shares_a_pool(&w, s) {
                rep.merge(same_pool_twice(&w, s));
            } else if s.len() <= 4 {
                rep.merge(check_set(&w, s, true));
                rep.merge(arrival_histories(&w, s, true));
                rep.merge(label_exchanges(&w, s));
            }
        }
        let sets: Vec<Vec<Member>> = sets.into_iter().filter(|s| !shares_a_pool(&w, s)).collect();
        level_a(&w, &sets, threads, &mut rep);
        rep.nontrivial(&0);
        rep.nontrivial(&1);
        rep.finish(ctx);
    }

    let b_sets = level_b_sets(thorough);
    // scheduled heaviest first (load balance), merged smallest first
    let schedule: Vec<&Vec<Member>> = b_sets.iter().rev().collect();
    let parts = par_map(&schedule, threads, |_, s| check_set(&w, s, thorough));
    for p in parts.into_iter().rev() {
        rep.merge(p);
    }
    eprintln!("[C06] level B ({} sets) done at {:.1}s", b_sets.len(), ctx.elapsed_s());
    // thorough: the full plan for every set of up to three members and for the four-member sets of the quick family,
    // the basic plan for the other four-member sets
    let core: std::collections::BTreeSet<Vec<Member>> = level_b_sets(false).into_iter().collect();
    let parts = par_map(&schedule, threads, |_, s| arrival_histories(&w, s, thorough && (s.len() <= 3 || core.contains(*s))));
    for p in parts.into_iter().rev() {
        rep.merge(p);
    }
    eprintln!("[C06] arrival histories ({} sets) done at {:.1}s", b_sets.len(), ctx.elapsed_s());
    let parts = par_map(&schedule, threads, |_, s| label_exchanges(&w, s));
    for p in parts.into_iter().rev() {
        rep.merge(p);
    }
    for s in same_pool_sets() {
        rep.merge(same_pool_twice(&w, &s));
    }
    eprintln!("[C06] label exchanges done at {:.1}s", ctx.elapsed_s());
    let a_sets = level_a_sets(thorough);
    level_a(&w, &a_sets, threads, &mut rep);
    eprintln!("[C06] level A ({} sets) done at {:.1}s", a_sets.len(), ctx.elapsed_s());

    let by_size = |sets: &[Vec<Member>]| {
        let mut m: BTreeMap<String, u64> = BTreeMap::new();
        for s in sets {
            *m.entry(format!("N={}", s.len())).or_insert(0) += 1;
        }
        json!(m)
    };
    rep.extra(
        "bounds",
        json!({
            "level_B_sets (all orders x routes x encodings)": b_sets.len(),
            "level_B_sets_by_size": by_size(&b_sets),
            "level_B_permutations": {"N=1": 1, "N=2": 2, "N=3": 6, "N=4": 24},
            "level_B_encodings": {"stm": STM_ENCODINGS, "signer/aggregator": SB_ENCODINGS, "client": CLIENT_ENCODINGS},
            "level_B_encodings_applied": if thorough { "every encoding at every permutation" } else { "base encoding at every permutation; every encoding at the identity and the reversed permutation" },
            "level_A_sets (one key each, distinctness)": a_sets.len(),
            "level_A_sets_by_size": by_size(&a_sets),
            "pool_size": PARTY_LABELS.len(),
            "pool_identities (operational certificate + KES key)": POOL,
            "arrival_histories": {
                "sets": b_sets.len(),
                "routes": HISTORY_ROUTES,
                "plan": if thorough { "full plan for N<=3 and for the four-member sets of the quick family, basic plan for the other four-member sets" } else { "basic plan" },
                "basic_plan": "stm: identity + reversed order, keyreg-wrapper: identity; one refused submission at every position, referring to the first and the latest registered member",
                "full_plan": "stm identity: referring to every registered member + pairs of refused submissions; stm reversed: every registered member; stm other rotations: first/latest; keyreg-wrapper identity: every registered member, reversed: first/latest",
                "refused_submission_kinds": ["exact-resend", "registered-key-with-other-stake"],
                "positions": "after 1..N genuine registrations",
            },
        }),
    );
    rep.finish(ctx)
}
