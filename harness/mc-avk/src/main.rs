//! mc-avk: serves C06 (see /verif/DESIGN.md §4)
mod c06;

fn main() {
    let ctx = mc_core::Ctx::from_args();
    mc_core::quiet_panics();
    match ctx.property.as_str() {
        "C06" => c06::run(&ctx),
        other => {
            eprintln!("mc-avk does not serve {other}");
            std::process::exit(2);
        }
    }
}
