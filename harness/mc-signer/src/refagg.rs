//! The harness-side *reference aggregator*: an in-process implementation of the four
//! aggregator-facing traits a signer node talks to (epoch settings retriever, network configuration
//! provider, signer registration publisher, signature publisher), written from the wording of the
//! property and not from the aggregator's code:
//!
//!   keys registered during epoch e are recorded for epoch e+1 and sign in epoch e+2;
//!   the stake distribution observed on chain during epoch e and the protocol parameters handed out
//!   for registration during epoch e are the ones in force for those keys in epoch e+2.
//!
//! The constants below are the reference's own (they are *not* `Epoch::SIGNER_*_OFFSET`).
//! Every signature published to it is verified on the spot with the public multi-signer of
//! mithril-common built from what it recorded, and the verdicts are kept for the oracle.

use std::collections::BTreeMap;
use std::sync::{Arc, Mutex};

use async_trait::async_trait;
use mithril_aggregator_client::AggregatorHttpClientError;
use mithril_cardano_node_chain::chain_observer::ChainObserver;
use mithril_cardano_node_chain::test::double::FakeChainObserver;
use mithril_common::{
    StdResult,
    crypto_helper::ProtocolAggregateVerificationKeyForConcatenation,
    entities::{
        BlockNumber, BlockNumberOffset, CardanoTransactionsSigningConfig, Epoch, PartyId, ProtocolMessage,
        ProtocolMessagePartKey, ProtocolParameters, SignedEntityType, SignedEntityTypeDiscriminants, Signer,
        SignerWithStake, SingleSignature, Stake,
    },
    protocol::SignerBuilder,
};
use mithril_protocol_config::{
    interface::MithrilNetworkConfigurationProvider,
    model::{MithrilNetworkConfiguration, MithrilNetworkConfigurationForEpoch, SignedEntityTypeConfiguration},
};
use mithril_signer::{
    RegisteredSigners,
    services::{SignaturePublisher, SignerRegistrationPublisher, SignersRegistrationRetriever},
};

/// keys registered during epoch e are recorded under epoch e + RECORD_DELAY …
pub const RECORD_DELAY: i64 = 1;
/// … and sign in epoch e + SIGN_DELAY
pub const SIGN_DELAY: i64 = 2;

/// Protocol parameters handed out for registrations made during epoch `r` (in force in `r+2`).
/// They differ from one epoch to the next so that a signer using the parameters (or keys) of a
/// neighbouring epoch produces signatures the reference rejects.
pub fn registration_parameters(r: i64) -> ProtocolParameters {
    let r = r.max(0) as u64;
    ProtocolParameters { k: 5, m: 30 + (r % 3) * 3, phi_f: 0.80 + 0.05 * ((r % 4) as f64) }
}

#[derive(Clone, Debug)]
pub struct Publication {
    /// epoch of the signed entity (the epoch whose keys and stake distribution are in force for it)
    pub epoch: u64,
    pub entity: SignedEntityType,
    #[allow(dead_code)]
    pub party: PartyId,
    /// the signer got a positive answer
    pub acked: bool,
    /// verdict of the reference verification for the epoch in force
    pub accepted: bool,
    /// position in the event history at which it happened
    pub step: i64,
    pub signature: SingleSignature,
    pub message: ProtocolMessage,
}

#[derive(Clone, Debug)]
pub struct Finding {
    pub key: &'static str,
    pub what: String,
    pub step: i64,
}

#[derive(Default)]
pub struct RefState {
    // --- faults under harness control
    pub down: bool,
    pub stale: bool,
    /// the aggregator's own clock: its Cardano node is `skew` (-1, 0 or 1) epochs ahead of the signer's
    pub skew: i64,
    /// epoch the signer's node showed when the running state-machine cycle began
    pub cycle_start_node_epoch: i64,
    pub round_closed: bool,
    pub publish_fails_next: bool,
    pub register_ack_lost_next: bool,
    // --- what the reference recorded
    /// epoch during which the registration was made → party → registration (the last one wins,
    /// as in a store keyed by (party, epoch))
    pub regs: BTreeMap<i64, BTreeMap<PartyId, Signer>>,
    /// stake distribution of the chain during each epoch (the reference's own knowledge of the chain,
    /// never a figure claimed by a signer)
    pub stakes: BTreeMap<i64, BTreeMap<PartyId, Stake>>,
    pub publications: Vec<Publication>,
    pub findings: Vec<Finding>,
    pub step: i64,
    // --- statistics
    pub registrations_accepted: u64,
    pub registrations_accepted_while_ahead: u64,
    pub publications_while_ahead: u64,
    pub registrations_refused_wrong_epoch: u64,
    pub registrations_refused_invalid: u64,
    pub registrations_refused_round_closed: u64,
    pub settings_served: u64,
    pub settings_served_stale: u64,
    pub calls_failed_down: u64,
    pub sigs_verified: u64,
    /// closed registrations of past epochs (they cannot change any more): epoch of registration →
    /// (signer builder, encoded aggregate verification key)
    pub closed: BTreeMap<i64, Option<Arc<(SignerBuilder, String)>>>,
}

pub struct RefAgg {
    pub chain: Arc<FakeChainObserver>,
    pub state: Mutex<RefState>,
}

fn unreachable_error(what: &str) -> anyhow::Error {
    anyhow::Error::new(AggregatorHttpClientError::RemoteServerUnreachable(anyhow::anyhow!(
        "reference aggregator is down ({what})"
    )))
}

impl RefAgg {
    pub fn new(chain: Arc<FakeChainObserver>, stakes: BTreeMap<i64, BTreeMap<PartyId, Stake>>) -> RefAgg {
        RefAgg { chain, state: Mutex::new(RefState { stakes, ..RefState::default() }) }
    }

    /// epoch of the signer's Cardano node
    pub async fn node_epoch(&self) -> i64 {
        self.chain.get_current_epoch().await.ok().flatten().map(|e| *e as i64).unwrap_or(0)
    }

    /// epoch of the aggregator's own clock (never goes backwards: the skew appears when the chain
    /// enters an epoch the signer's node has not seen yet, and disappears when that node catches up)
    pub async fn agg_epoch(&self) -> i64 {
        self.node_epoch().await + self.with(|st| st.skew)
    }

    pub fn with<T>(&self, f: impl FnOnce(&mut RefState) -> T) -> T {
        f(&mut self.state.lock().unwrap())
    }

    /// signers (with the stake in force) whose keys sign in `epoch`
    pub fn signers_in_force(st: &RefState, epoch: i64) -> Vec<SignerWithStake> {
        Self::signers_registered_during(st, epoch - SIGN_DELAY)
    }

    pub fn signers_registered_during(st: &RefState, r: i64) -> Vec<SignerWithStake> {
        let Some(regs) = st.regs.get(&r) else { return vec![] };
        let empty = BTreeMap::new();
        let stakes = st.stakes.get(&r).unwrap_or(&empty);
        regs.values()
            .filter_map(|s| stakes.get(&s.party_id).map(|stake| SignerWithStake::from_signer(s.clone(), *stake)))
            .collect()
    }

    fn signers_of(st: &RefState, r: i64) -> Vec<Signer> {
        st.regs.get(&r).map(|m| m.values().cloned().collect()).unwrap_or_default()
    }

    /// The key registration of the signers registered during epoch `r`, closed with the stake
    /// distribution and the parameters of that epoch (memoised; a registration recorded for `r`
    /// discards the memo).
    pub fn closed_registration(st: &mut RefState, r: i64) -> Option<Arc<(SignerBuilder, String)>> {
        if let Some(c) = st.closed.get(&r) {
            return c.clone();
        }
        let signers = Self::signers_registered_during(st, r);
        let built = SignerBuilder::new(&signers, &registration_parameters(r)).ok().and_then(|b| {
            let avk: ProtocolAggregateVerificationKeyForConcatenation =
                b.compute_aggregate_verification_key().to_concatenation_aggregate_verification_key().to_owned().into();
            let avk = avk.to_json_hex().ok()?;
            Some(Arc::new((b, avk)))
        });
        st.closed.insert(r, built.clone());
        built
    }

    /// registration made by the harness for one of the *other* fixture signers
    pub async fn register_other(&self, signer: Signer) -> bool {
        let e = self.agg_epoch().await;
        self.with(|st| {
            if st.down || st.round_closed {
                return false;
            }
            st.closed.remove(&e);
            st.regs.entry(e).or_default().insert(signer.party_id.clone(), signer);
            true
        })
    }

    pub fn configuration_for(r: i64) -> MithrilNetworkConfigurationForEpoch {
        MithrilNetworkConfigurationForEpoch {
            protocol_parameters: registration_parameters(r),
            enabled_signed_entity_types: [
                SignedEntityTypeDiscriminants::MithrilStakeDistribution,
                SignedEntityTypeDiscriminants::CardanoStakeDistribution,
                SignedEntityTypeDiscriminants::CardanoDatabase,
                SignedEntityTypeDiscriminants::CardanoTransactions,
            ]
            .into_iter()
            .collect(),
            signed_entity_types_config: SignedEntityTypeConfiguration {
                cardano_transactions: Some(CardanoTransactionsSigningConfig {
                    security_parameter: BlockNumberOffset(0),
                    step: BlockNumber(15),
                }),
                cardano_blocks_transactions: None,
            },
        }
    }
}

#[async_trait]
impl SignersRegistrationRetriever for RefAgg {
    async fn retrieve_all_signer_registrations(&self) -> StdResult<RegisteredSigners> {
        let e = self.agg_epoch().await;
        self.with(|st| {
            if st.down {
                st.calls_failed_down += 1;
                return Err(unreachable_error("epoch settings"));
            }
            // a stale aggregator still lives in the previous epoch
            let view = if st.stale && e > 0 {
                st.settings_served_stale += 1;
                e - 1
            } else {
                e
            };
            st.settings_served += 1;
            Ok(RegisteredSigners {
                epoch: Epoch(view as u64),
                current_signers: Self::signers_of(st, view - SIGN_DELAY),
                next_signers: Self::signers_of(st, view - SIGN_DELAY + 1),
            })
        })
    }
}

#[async_trait]
impl MithrilNetworkConfigurationProvider for RefAgg {
    async fn get_network_configuration(&self, epoch: Epoch) -> StdResult<MithrilNetworkConfiguration> {
        self.with(|st| {
            if st.down {
                st.calls_failed_down += 1;
                return Err(unreachable_error("network configuration"));
            }
            let e = *epoch as i64;
            Ok(MithrilNetworkConfiguration {
                epoch,
                // parameters in force for signing in e were handed out for registration in e-2
                configuration_for_aggregation: Self::configuration_for(e - SIGN_DELAY),
                configuration_for_next_aggregation: Self::configuration_for(e - SIGN_DELAY + 1),
                configuration_for_registration: Self::configuration_for(e),
            })
        })
    }
}

#[async_trait]
impl SignerRegistrationPublisher for RefAgg {
    async fn register_signer(&self, epoch: Epoch, signer: &Signer) -> StdResult<()> {
        // the round, the stake distribution and the epoch of recording are the aggregator's own
        let e = self.agg_epoch().await;
        self.with(|st| {
            if st.down {
                st.calls_failed_down += 1;
                return Err(unreachable_error("register signer"));
            }
            if st.round_closed {
                st.registrations_refused_round_closed += 1;
                return Err(anyhow::Error::new(AggregatorHttpClientError::RegistrationRoundNotYetOpened(anyhow::anyhow!(
                    "registration round not yet opened"
                ))));
            }
            let round = if st.stale && e > 0 { e - 1 } else { e };
            if *epoch as i64 != round + RECORD_DELAY {
                st.registrations_refused_wrong_epoch += 1;
                return Err(anyhow::Error::new(AggregatorHttpClientError::RemoteServerTechnical(anyhow::anyhow!(
                    "registration names epoch {epoch}, the open round records for epoch {}",
                    round + RECORD_DELAY
                ))));
            }
            // the key must be certified for a pool that has stake (what a registration verifier does)
            let stake = st.stakes.get(&e).and_then(|m| m.get(&signer.party_id)).copied();
            let valid = match stake {
                None => false,
                Some(stake) => SignerBuilder::new(
                    &[SignerWithStake::from_signer(signer.clone(), stake)],
                    &registration_parameters(e),
                )
                .is_ok(),
            };
            if !valid {
                st.registrations_refused_invalid += 1;
                return Err(anyhow::Error::new(AggregatorHttpClientError::RemoteServerLogical(anyhow::anyhow!(
                    "invalid signer registration"
                ))));
            }
            st.closed.remove(&e);
            st.regs.entry(e).or_default().insert(signer.party_id.clone(), signer.clone());
            st.registrations_accepted += 1;
            if st.skew != 0 {
                st.registrations_accepted_while_ahead += 1;
            }
            if st.register_ack_lost_next {
                st.register_ack_lost_next = false;
                return Err(unreachable_error("answer to register signer lost"));
            }
            Ok(())
        })
    }
}

fn entity_epoch_in_force(entity: &SignedEntityType) -> Option<i64> {
    Some(match entity {
        SignedEntityType::MithrilStakeDistribution(e) => **e as i64,
        // the Cardano stake distribution of the epoch that just ended is signed during the next one
        SignedEntityType::CardanoStakeDistribution(e) => **e as i64 + 1,
        SignedEntityType::CardanoDatabase(b) => *b.epoch as i64,
        SignedEntityType::CardanoTransactions(e, _) => **e as i64,
        SignedEntityType::CardanoBlocksTransactions(e, _, _) => **e as i64,
    })
}

#[async_trait]
impl SignaturePublisher for RefAgg {
    async fn publish(
        &self,
        signed_entity_type: &SignedEntityType,
        signature: &SingleSignature,
        protocol_message: &ProtocolMessage,
    ) -> StdResult<()> {
        let node = self.node_epoch().await;
        self.with(|st| {
            if st.down {
                st.calls_failed_down += 1;
                return Err(unreachable_error("register signature"));
            }
            let step = st.step;
            let finding = |st: &mut RefState, key: &'static str, what: String| st.findings.push(Finding { key, what, step });
            let party = signature.party_id.clone();
            if st.skew != 0 {
                st.publications_while_ahead += 1;
            }
            // A publication is judged by the epoch of the signed entity, whatever the clocks say: the
            // keys, stake distribution and parameters in force for it are those of two epochs earlier.
            let e = entity_epoch_in_force(signed_entity_type).unwrap_or(node);
            let in_force = Self::signers_in_force(st, e);
            let mut accepted = false;
            if !in_force.iter().any(|s| s.party_id == party) {
                finding(
                    st,
                    "C20/published-without-registration-two-epochs-earlier",
                    format!(
                        "party {party} published a signature for {signed_entity_type:?} (epoch {e}; node epoch {node}), but the reference aggregator holds no registration of it made during epoch {} (registered during: {:?})",
                        e - SIGN_DELAY,
                        st.regs.iter().filter(|(_, m)| m.contains_key(&party)).map(|(r, _)| *r).collect::<Vec<_>>()
                    ),
                );
            } else {
                st.sigs_verified += 1;
                match Self::closed_registration(st, e - SIGN_DELAY) {
                    None => finding(st, "C20/reference-signer-set-unusable", format!("epoch {e}: no key registration can be built")),
                    Some(c) => match c.0.build_multi_signer().verify_single_signature(protocol_message, signature) {
                        Ok(()) => accepted = true,
                        Err(err) => finding(
                            st,
                            "C20/signature-rejected-for-epoch-in-force",
                            format!(
                                "the signature published by {party} for {signed_entity_type:?} (epoch {e}) does not verify against the keys registered during epoch {} with the stake distribution and parameters of that epoch: {}",
                                e - SIGN_DELAY,
                                format!("{err:?}").replace('\n', " ")
                            ),
                        ),
                    },
                }
            }
            // a signer signs the beacons of the time point its own node shows (the one it read at the
            // beginning of the cycle, if the epoch turned since)
            if e != node && e != st.cycle_start_node_epoch {
                finding(
                    st,
                    "C20/published-beacon-of-another-epoch",
                    format!("while its node was in epoch {node} the signer published a signature for {signed_entity_type:?}, a beacon of another epoch"),
                );
            }
            // the signed message must commit to what the aggregator derives for the next epoch
            let next_params = registration_parameters(e - SIGN_DELAY + 1);
            if let Some(next) = Self::closed_registration(st, e - SIGN_DELAY + 1) {
                let got = protocol_message.get_message_part(&ProtocolMessagePartKey::NextAggregateVerificationKey);
                if got != Some(&next.1) {
                    finding(
                        st,
                        "C20/signed-message-commits-to-wrong-next-aggregate-key",
                        format!(
                            "the message signed for {signed_entity_type:?} (epoch {e}) carries a next aggregate verification key that is not the one of the keys registered during epoch {} with that epoch's stake distribution",
                            e - SIGN_DELAY + 1
                        ),
                    );
                }
                let got = protocol_message.get_message_part(&ProtocolMessagePartKey::NextProtocolParameters);
                if got != Some(&next_params.compute_hash()) {
                    finding(
                        st,
                        "C20/signed-message-commits-to-wrong-next-parameters",
                        format!("the message signed for {signed_entity_type:?} (epoch {e}) carries next protocol parameters other than those handed out for registration during epoch {}", e - SIGN_DELAY + 1),
                    );
                }
            }
            let got = protocol_message.get_message_part(&ProtocolMessagePartKey::CurrentEpoch);
            if got != Some(&e.to_string()) {
                finding(
                    st,
                    "C20/signed-message-names-another-epoch",
                    format!("the message signed for {signed_entity_type:?} (epoch {e}) names current epoch {got:?}"),
                );
            }
            let acked = !st.publish_fails_next;
            st.publish_fails_next = false;
            st.publications.push(Publication {
                epoch: e as u64,
                entity: signed_entity_type.clone(),
                party,
                acked,
                accepted,
                step,
                signature: signature.clone(),
                message: protocol_message.clone(),
            });
            if acked { Ok(()) } else { Err(unreachable_error("answer to register signature lost")) }
        })
    }
}
