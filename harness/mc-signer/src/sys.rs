//! Events, replay, canonical state and oracle of the signer system (C20).

use std::collections::{BTreeMap, BTreeSet};
use std::path::{Path, PathBuf};
use std::sync::atomic::{AtomicU64, Ordering};

use mc_core::Violation;
use mc_core::explore::RunResult;
use mithril_common::entities::{Epoch, SignedEntityType, Signer};
use mithril_common::test::builder::MithrilFixture;
use mithril_signer::SignerState;
use serde::{Deserialize, Serialize};
use serde_json::{Value, json};

use crate::refagg::{Publication, RECORD_DELAY, SIGN_DELAY};
use crate::world::{ME, NSIGNERS, Stakes, World};

#[derive(Clone, Copy, Debug, Serialize, Deserialize, PartialEq, Eq, Hash)]
pub enum Ev {
    /// one cycle of the signer state machine
    Tick,
    /// the chain enters the next epoch (with a new stake distribution)
    Epoch,
    /// a new immutable file appears
    Immutable,
    /// the chain grows by 15 blocks (one block range: a new Cardano transactions beacon)
    Blocks,
    /// every call to the aggregator fails / works again
    AggDown,
    AggUp,
    /// the aggregator still lives in the previous epoch (serves its epoch settings) / has caught up
    StaleOn,
    StaleOff,
    /// the aggregator refuses registrations: round not yet opened / opened
    RoundClosed,
    RoundOpen,
    /// the other fixture signers in the bit mask register at the aggregator in the current epoch
    Others(u8),
    /// the chain enters the next epoch but only the aggregator notices (its clock = node epoch + 1)
    AggAhead,
    /// the signer's node catches up with the aggregator's epoch
    NodeCatchUp,
    /// one cycle of the signer state machine during which the chain enters the next epoch (new stake
    /// distribution) right after the `after`-th query the signer makes to its node in that cycle
    /// (0: before the first; more than the cycle makes: right after the cycle). `node_only`: the
    /// aggregator has not noticed the new epoch yet (it follows with `AggAhead`).
    TickTurn { after: u8, node_only: bool },
    /// the next signature publication is received but its acknowledgement is lost
    PublishFails,
    /// the next registration of the signer is recorded but its acknowledgement is lost
    RegisterAckLost,
    /// the signer process is killed and started again on the same data directory
    Restart,
}

static DIR_COUNTER: AtomicU64 = AtomicU64::new(0);

pub fn fresh_dir(scratch: &Path) -> PathBuf {
    let n = DIR_COUNTER.fetch_add(1, Ordering::Relaxed);
    scratch.join(format!("w{n}"))
}

fn short(e: &str) -> String {
    let e = e.replace('\n', " ");
    let cut = e.char_indices().nth(110).map(|x| x.0).unwrap_or(e.len());
    e[..cut].to_string()
}

pub fn state_label(s: &SignerState) -> &'static str {
    match s {
        SignerState::Init => "Init",
        SignerState::Unregistered { .. } => "Unregistered",
        SignerState::ReadyToSign { .. } => "ReadyToSign",
        SignerState::RegisteredNotAbleToSign { .. } => "RegisteredNotAbleToSign",
    }
}

/// Applies one event. Returns false when the event is not applicable in this state (a fault that is
/// already on / off): such histories are pruned.
pub async fn apply(w: &mut World, ev: &Ev, log: &mut Vec<String>) -> bool {
    let agg = w.outside.agg.clone();
    let toggle = |on: bool, get: fn(&mut crate::refagg::RefState) -> &mut bool| {
        agg.with(|st| {
            let f = get(st);
            if *f == on {
                false
            } else {
                *f = on;
                true
            }
        })
    };
    match ev {
        Ev::Tick | Ev::TickTurn { .. } => {
            let n_before = agg.with(|st| st.publications.len());
            let turn = match ev {
                Ev::TickTurn { after, node_only } => Some((*after as u32, *node_only)),
                _ => None,
            };
            let r = w.tick_turning(turn).await;
            let st = w.state().await;
            let pubs: Vec<String> =
                agg.with(|s| s.publications[n_before..].iter().map(|p| format!("{:?}{}", p.entity, if p.acked { "" } else { "(unacked)" })).collect());
            let label = match ev {
                Ev::TickTurn { after, node_only } => format!(
                    "tick(epoch turns after node query {after} of {}{})",
                    w.queries_in_last_cycle,
                    if *node_only { ", aggregator not yet" } else { "" }
                ),
                _ => "tick".to_string(),
            };
            log.push(match r {
                Ok(()) => format!("{label}->{st}{}", if pubs.is_empty() { String::new() } else { format!(" published {}", pubs.join(",")) }),
                Err(e) => format!("{label}-err({})->{st}", short(&e)),
            });
            true
        }
        Ev::Epoch => {
            w.next_epoch().await;
            true
        }
        Ev::Immutable => {
            w.next_immutable().await;
            true
        }
        Ev::Blocks => {
            w.more_blocks(15).await;
            true
        }
        Ev::AggAhead => w.aggregator_ahead(),
        Ev::NodeCatchUp => w.node_catches_up().await,
        Ev::AggDown => toggle(true, |s| &mut s.down),
        Ev::AggUp => toggle(false, |s| &mut s.down),
        Ev::StaleOn => toggle(true, |s| &mut s.stale),
        Ev::StaleOff => toggle(false, |s| &mut s.stale),
        Ev::RoundClosed => toggle(true, |s| &mut s.round_closed),
        Ev::RoundOpen => toggle(false, |s| &mut s.round_closed),
        Ev::PublishFails => toggle(true, |s| &mut s.publish_fails_next),
        Ev::RegisterAckLost => toggle(true, |s| &mut s.register_ack_lost_next),
        Ev::Others(mask) => {
            let all = w.fixture.signers_with_stake();
            let mut any = false;
            for i in 0..NSIGNERS {
                if i != ME && mask & (1 << i) != 0 {
                    let s: Signer = all[i].clone().into();
                    any |= agg.register_other(s).await;
                }
            }
            any
        }
        Ev::Restart => {
            w.restart().await;
            true
        }
    }
}

fn party_index(fixture: &MithrilFixture, party: &str) -> usize {
    fixture.signers_with_stake().iter().position(|s| s.party_id == party).unwrap_or(99)
}

fn entity_str(e: &SignedEntityType) -> String {
    match e {
        SignedEntityType::MithrilStakeDistribution(e) => format!("MSD({e})"),
        SignedEntityType::CardanoStakeDistribution(e) => format!("CSD({e})"),
        SignedEntityType::CardanoDatabase(b) => format!("CDB({},{})", b.epoch, b.immutable_file_number),
        SignedEntityType::CardanoTransactions(e, b) => format!("CTX({e},{b})"),
        SignedEntityType::CardanoBlocksTransactions(e, b, o) => format!("CBTX({e},{b},{o})"),
    }
}

fn signed_beacons(w: &World) -> Vec<String> {
    let mut out = vec![];
    let conn = &w.node().main_db;
    if let Ok(mut st) = conn.prepare("select epoch, signed_entity_type_id, beacon from signed_beacon order by epoch, signed_entity_type_id, beacon") {
        while let Ok(sqlite::State::Row) = st.next() {
            let e: i64 = st.read(0).unwrap_or(-1);
            let t: i64 = st.read(1).unwrap_or(-1);
            let b: String = st.read(2).unwrap_or_default();
            out.push(format!("{e}/{t}/{b}"));
        }
    }
    out
}

/// Canonical, time-free, key-free description of the state. Keys are random (the node draws them
/// from the OS); the state records only which keys exist where and whether they agree.
pub async fn canon(w: &World) -> String {
    let tp = w.time_point().await;
    let cur = *tp.epoch as i64;
    let st = w.state().await;
    let n = w.node();
    // signer stores
    let inits: Vec<(Epoch, _)> = n.initializers.get_last_protocol_initializer(64).await.unwrap_or_default();
    let mut stake_epochs = vec![];
    for e in 0..=(cur + 2) {
        if let Ok(Some(s)) = n.stake_store.get_stakes(Epoch(e as u64)).await {
            // which epoch's distribution it is: identified by the stake of the signer under test
            let me = &w.fixture.signers_with_stake()[ME].party_id;
            stake_epochs.push(json!([e, s.get(me).copied().unwrap_or(0)]));
        }
    }
    let es = {
        let g = n.epoch_service.read().await;
        match g.epoch_of_current_data() {
            Err(_) => json!(null),
            Ok(e) => {
                let ids = |v: &Vec<Signer>| {
                    let mut x: Vec<usize> = v.iter().map(|s| party_index(&w.fixture, &s.party_id)).collect();
                    x.sort();
                    x
                };
                json!({"e": *e, "init": g.protocol_initializer().map(|i| i.is_some()).unwrap_or(false),
                       "cur": g.current_signers().map(ids).unwrap_or_default(), "next": g.next_signers().map(ids).unwrap_or_default()})
            }
        }
    };
    let me = w.fixture.signers_with_stake()[ME].party_id.clone();
    let agg = w.outside.agg.with(|a| {
        let regs: Vec<Value> = a
            .regs
            .iter()
            .map(|(r, m)| {
                let mut ids: Vec<usize> = m.keys().map(|p| party_index(&w.fixture, p)).collect();
                ids.sort();
                // does the signer hold the key the aggregator recorded for it?
                let held = inits.iter().find(|(e, _)| **e as i64 == r + RECORD_DELAY).map(|(_, i)| i);
                let synced = match (m.get(&me), held) {
                    (Some(s), Some(i)) => {
                        let k: mithril_common::crypto_helper::ProtocolSignerVerificationKeyForConcatenation =
                            i.verification_key_for_concatenation().into();
                        Some(s.verification_key_for_concatenation == k)
                    }
                    _ => None,
                };
                json!([r, ids, synced])
            })
            .collect();
        let mut pubs: Vec<String> = a
            .publications
            .iter()
            .map(|p| format!("{}:{}:{}{}", p.epoch, entity_str(&p.entity), if p.acked { "a" } else { "u" }, if p.accepted { "" } else { "!" }))
            .collect();
        pubs.sort();
        json!({"down": a.down, "stale": a.stale, "skew": a.skew, "closed": a.round_closed, "pf": a.publish_fails_next, "ral": a.register_ack_lost_next,
               "regs": regs, "pubs": pubs, "findings": a.findings.len()})
    });
    let init_epochs: Vec<u64> = {
        let mut v: Vec<u64> = inits.iter().map(|(e, _)| **e).collect();
        v.sort();
        v
    };
    json!({
        "w": w.mode.label(), "st": st.to_string(), "e": cur, "i": tp.immutable_file_number, "b": *tp.chain_point.block_number,
        "inits": init_epochs, "stakes": stake_epochs, "signed": signed_beacons(w), "es": es, "agg": agg,
    })
    .to_string()
}

/// When the fault-free tail is run after a history. Its result depends only on the state reached, so
/// during an exploration it is run once per canonical state: the first history that reaches a state
/// claims it (the number of tails run is the number of distinct states, whatever the thread timing).
pub enum Tail<'a> {
    Never,
    Always,
    OncePerState(&'a std::sync::Mutex<std::collections::HashSet<u64>>),
}

/// What a cycle during which the epoch turned left in the node, compared with the chain (harness-side
/// knowledge): a stake distribution stored in the slot of another epoch, or a registered state of one
/// epoch sitting on the epoch data of another.
async fn diagnose(w: &World) -> Option<&'static str> {
    let n = w.node();
    let cur = w.outside.agg.node_epoch().await;
    for e in (cur - 1).max(1)..=cur + 2 {
        if let Ok(Some(stored)) = n.stake_store.get_stakes(Epoch(e as u64)).await {
            let reference = w.outside.agg.with(|st| st.stakes.get(&(e - RECORD_DELAY)).cloned()).unwrap_or_default();
            if stored.iter().any(|(p, s)| reference.get(p) != Some(s)) {
                return Some("stake-distribution-stored-for-another-epoch");
            }
        }
    }
    let state_epoch = match w.state().await {
        SignerState::ReadyToSign { epoch } | SignerState::RegisteredNotAbleToSign { epoch } => Some(epoch),
        _ => None,
    };
    if let Some(x) = state_epoch {
        if let Ok(y) = n.epoch_service.read().await.epoch_of_current_data() {
            if x != y {
                return Some("state-epoch-differs-from-epoch-of-loaded-data");
            }
        }
    }
    None
}

pub struct Outcome {
    pub result: RunResult,
    /// acknowledged publications (epoch, entity) — for the restart differential
    pub published: BTreeSet<String>,
    /// number of queries the signer made to its node during each event of the history (0 for events
    /// that are not cycles)
    pub node_queries: Vec<u32>,
    pub stats: BTreeMap<&'static str, u64>,
}

/// The part of the oracle that looks at the whole publication log.
fn check_publications(pubs: &[Publication], out: &mut Vec<(&'static str, String, i64)>) {
    // at most one publication per (epoch, signed entity and beacon); a further one is legitimate only
    // as long as none was acknowledged
    let mut acked: BTreeMap<String, i64> = BTreeMap::new();
    for p in pubs {
        let k = format!("{}:{}", p.epoch, entity_str(&p.entity));
        if let Some(first) = acked.get(&k) {
            out.push((
                "C20/beacon-published-twice",
                format!(
                    "in epoch {} the signer published a signature for {:?} at step {} although its publication at step {first} had been acknowledged",
                    p.epoch, p.entity, p.step
                ),
                p.step,
            ));
        }
        if p.acked {
            acked.entry(k).or_insert(p.step);
        }
    }
}

/// Replay one history on a fresh real signer node; the reference aggregator judges every
/// publication when it happens, the log-level clauses are evaluated at the end, then the nominal
/// tail (all faults cleared, three more epochs) must make the signer sign again.
pub fn replay(scratch: &Path, fixture: &MithrilFixture, history: &[Ev], tail: Tail) -> Outcome {
    replay_in(scratch, fixture, history, tail, Stakes::Varying)
}

/// `replay` in the chosen world (see [`Stakes`]).
pub fn replay_in(scratch: &Path, fixture: &MithrilFixture, history: &[Ev], tail: Tail, mode: Stakes) -> Outcome {
    let dir = fresh_dir(scratch);
    let rt = tokio::runtime::Builder::new_current_thread().enable_all().build().expect("tokio runtime");
    let hist_json = serde_json::to_value(history).unwrap();
    let res = rt.block_on(async {
        let timing = std::env::var("MC_TIMING").is_ok();
        let t_w = std::time::Instant::now();
        let mut w = World::new(dir.clone(), fixture, mode).await;
        if timing {
            eprintln!("  world built in {:.1}ms", t_w.elapsed().as_secs_f64() * 1e3);
        }
        let mut log = vec![];
        let mut disabled = false;
        let mut node_queries = vec![];
        // classification of what an epoch turn inside a cycle left behind in the node (names the root
        // cause in the classifier key; it never creates or removes a violation)
        let mut turned_inside = false;
        let mut cause: Option<(&'static str, i64)> = None;
        for (i, ev) in history.iter().enumerate() {
            w.outside.agg.with(|st| st.step = i as i64);
            let t_ev = std::time::Instant::now();
            let n_log = log.len();
            let ok = apply(&mut w, ev, &mut log).await;
            if log.len() == n_log {
                log.push(format!("[{i}] {ev:?}{}", if ok { "" } else { " (no effect)" }));
            } else {
                let l = log.pop().unwrap();
                log.push(format!("[{i}] {l}"));
            }
            if timing {
                eprintln!("  [{i}] {ev:?} {:.1}ms {}", t_ev.elapsed().as_secs_f64() * 1e3, log.last().cloned().unwrap_or_default());
            }
            if !ok && i + 1 == history.len() {
                disabled = true;
            }
            node_queries.push(if matches!(ev, Ev::Tick | Ev::TickTurn { .. }) { w.queries_in_last_cycle } else { 0 });
            if let Ev::TickTurn { after, .. } = ev {
                if *after > 0 && (*after as u32) <= w.queries_in_last_cycle {
                    turned_inside = true;
                }
            }
            if turned_inside && cause.is_none() && matches!(ev, Ev::Tick | Ev::TickTurn { .. }) {
                if let Some(c) = diagnose(&w).await {
                    cause = Some((c, i as i64));
                    log.push(format!("    (diagnosis after the epoch turned inside a cycle: {c})"));
                }
            }
        }
        let canon = canon(&w).await;
        let final_state = state_label(&w.state().await);
        let (pubs, mut found): (Vec<Publication>, Vec<(&'static str, String, i64)>) = w
            .outside
            .agg
            .with(|st| (st.publications.clone(), st.findings.iter().map(|f| (f.key, f.what.clone(), f.step)).collect()));
        check_publications(&pubs, &mut found);
        let n_pubs = pubs.len();
        let published: BTreeSet<String> =
            pubs.iter().filter(|p| p.acked).map(|p| format!("{}:{}", p.epoch, entity_str(&p.entity))).collect();

        // ---- nominal tail: the signer must not be stuck
        let mut tail_label = "";
        let with_tail = match &tail {
            Tail::Never => false,
            Tail::Always => true,
            Tail::OncePerState(claimed) => claimed.lock().unwrap().insert(mc_core::hash64(&canon)),
        };
        let mut tails_run = 0u64;
        if with_tail && !disabled {
            tails_run = 1;
            let n0 = w.outside.agg.with(|st| {
                st.down = false;
                st.stale = false;
                st.round_closed = false;
                st.publish_fails_next = false;
                st.register_ack_lost_next = false;
                st.step = history.len() as i64;
                st.findings.len()
            });
            log.push("-- tail: faults cleared, node catches up if behind, 3 x [Epoch, Tick, Tick, Tick]".into());
            apply(&mut w, &Ev::NodeCatchUp, &mut log).await;
            if w.outside.agg.with(|st| st.skew) < 0 {
                // an aggregator that was behind the node catches up
                apply(&mut w, &Ev::AggAhead, &mut log).await;
            }
            for _ in 0..SIGN_DELAY + 1 {
                apply(&mut w, &Ev::Epoch, &mut log).await;
                // two cycles to register, a third one that signs if the signer is able to
                apply(&mut w, &Ev::Tick, &mut log).await;
                apply(&mut w, &Ev::Tick, &mut log).await;
                apply(&mut w, &Ev::Tick, &mut log).await;
            }
            let e = w.outside.agg.node_epoch().await as u64;
            let (signed_again, tail_found): (bool, Vec<(&'static str, String, i64)>) = w.outside.agg.with(|st| {
                (
                    st.publications.iter().any(|p| p.epoch == e && p.acked && p.accepted && p.entity == SignedEntityType::MithrilStakeDistribution(Epoch(e))),
                    st.findings[n0..].iter().map(|f| (f.key, format!("(during the nominal tail) {}", f.what), f.step)).collect(),
                )
            });
            found.extend(tail_found);
            let all: Vec<Publication> = w.outside.agg.with(|st| st.publications.clone());
            let mut dup = vec![];
            check_publications(&all, &mut dup);
            found.extend(dup.into_iter().filter(|d| d.2 >= history.len() as i64).map(|d| (d.0, format!("(during the nominal tail) {}", d.1), d.2)));
            if !signed_again {
                tail_label = ",STUCK-in-tail";
                found.push((
                    "C20/signer-does-not-sign-again",
                    format!(
                        "after the history, with every fault cleared and the node caught up with the aggregator, the chain went through three more epochs ({}..={e}) with three state-machine cycles each (two to register, one to sign); in epoch {e} no accepted signature for the Mithril stake distribution was published (final state {})",
                        e - 2,
                        w.state().await
                    ),
                    history.len() as i64,
                ));
            }
        }
        let violations: Vec<Violation> = found
            .into_iter()
            .map(|(key, what, step)| Violation {
                key: match cause {
                    Some((c, from)) if step >= from => format!("{key}:after-epoch-turn-inside-a-cycle:{c}"),
                    _ => key.to_string(),
                },
                what,
                replay: json!({"history": hist_json, "failing_step": step, "log": log, "world": mode.label()}),
            })
            .collect();
        let mut stats = BTreeMap::new();
        w.outside.agg.with(|st| {
            stats.insert("registrations_accepted", st.registrations_accepted);
            stats.insert("registrations_accepted_while_aggregator_ahead", st.registrations_accepted_while_ahead);
            stats.insert("publications_while_aggregator_ahead", st.publications_while_ahead);
            stats.insert("registrations_refused_round_closed", st.registrations_refused_round_closed);
            stats.insert("registrations_refused_wrong_epoch", st.registrations_refused_wrong_epoch);
            stats.insert("registrations_refused_invalid", st.registrations_refused_invalid);
            stats.insert("settings_served", st.settings_served);
            stats.insert("settings_served_stale", st.settings_served_stale);
            stats.insert("aggregator_calls_failed_while_down", st.calls_failed_down);
            stats.insert("signatures_verified_by_reference", st.sigs_verified);
            stats.insert("publications_unacknowledged", st.publications.iter().filter(|p| !p.acked).count() as u64);
            stats.insert("publications_acknowledged", st.publications.iter().filter(|p| p.acked).count() as u64);
            stats.insert("publications_rejected_by_reference", st.publications.iter().filter(|p| !p.accepted).count() as u64);
        });
        stats.insert("fault_free_tails_run", tails_run);
        stats.insert("restarts", w.restarts as u64);
        stats.insert("critical_runtime_errors", w.critical_errors as u64);
        stats.insert("panics_observed", w.panics as u64);
        let bucket = match n_pubs {
            0 => "0",
            1..=3 => "1-3",
            4..=9 => "4-9",
            _ => "10+",
        };
        // close the database connections before the directory goes away
        w.node = None;
        Outcome {
            result: RunResult {
                canon,
                violations,
                nontrivial: n_pubs > 0,
                outcome: format!("published={bucket},state={final_state}{tail_label}"),
                disabled,
            },
            published,
            node_queries,
            stats,
        }
    });
    drop(rt);
    let _ = std::fs::remove_dir_all(&dir);
    res
}

/// The nominal schedule: four or five epochs; the signer registers in every epoch, the others register
/// (all, all, all, a subset), signing starts in epoch 3. `slack` extra cycles are added after every
/// group of cycles (used by the restart differential, where a restart costs at most two cycles).
pub fn nominal(epochs: usize, slack: usize) -> Vec<Ev> {
    use Ev::*;
    let mut s = vec![];
    let ticks = |s: &mut Vec<Ev>, n: usize| {
        for _ in 0..n + slack {
            s.push(Tick);
        }
    };
    // epoch 1: Init -> Unregistered -> RegisteredNotAbleToSign
    ticks(&mut s, 2);
    s.push(Others(0b110));
    // epoch 2
    s.push(Epoch);
    ticks(&mut s, 2);
    s.push(Others(0b110));
    // epoch 3: first signatures (4 signed entity types)
    s.push(Epoch);
    ticks(&mut s, 6);
    s.push(Immutable);
    ticks(&mut s, 1);
    s.push(Blocks);
    ticks(&mut s, 1);
    s.push(Others(0b110));
    // epoch 4
    s.push(Epoch);
    ticks(&mut s, 6);
    s.push(Immutable);
    ticks(&mut s, 1);
    if epochs < 5 {
        return s;
    }
    s.push(Others(0b010));
    // epoch 5
    s.push(Epoch);
    ticks(&mut s, 6);
    s.push(Blocks);
    ticks(&mut s, 1);
    s
}

/// Vacuity guard for the oracle: on the unchanged tree the reference aggregator accepts everything
/// the signer publishes, so its rejecting side is exercised here with publications the harness
/// forges from a genuine one (the signer is not involved). Returns the verdicts; any unexpected one is
/// a machinery error.
pub fn reference_selfcheck(scratch: &Path, fixture: &MithrilFixture) -> Result<Value, String> {
    use mithril_common::entities::ProtocolMessagePartKey;
    use mithril_signer::services::SignaturePublisher;
    let dir = fresh_dir(scratch);
    let rt = tokio::runtime::Builder::new_current_thread().enable_all().build().expect("tokio runtime");
    let res = rt.block_on(async {
        let mut w = World::new(dir.clone(), fixture, Stakes::Varying).await;
        let mut log = vec![];
        for ev in nominal(4, 0) {
            apply(&mut w, &ev, &mut log).await;
        }
        let agg = w.outside.agg.clone();
        let Some(last) = agg.with(|st| st.publications.last().cloned()) else {
            // nothing to forge from; the exploration reports the signer that never signs
            w.node = None;
            return Ok(json!("skipped: the signer published nothing on the nominal schedule"));
        };
        let submit = |entity: SignedEntityType, sig: mithril_common::entities::SingleSignature, msg: mithril_common::entities::ProtocolMessage| {
            let agg = agg.clone();
            async move {
                let _ = agg.publish(&entity, &sig, &msg).await;
                agg.with(|st| st.publications.last().map(|p| p.accepted).unwrap_or(false))
            }
        };
        let mut verdicts = serde_json::Map::new();
        // the genuine publication once more: accepted
        let genuine = submit(last.entity.clone(), last.signature.clone(), last.message.clone()).await;
        verdicts.insert("genuine_signature_resubmitted".into(), json!(if genuine { "accepted" } else { "rejected" }));
        // attributed to another registered party
        let other = w.fixture.signers_with_stake()[1].party_id.clone();
        let mut s = last.signature.clone();
        s.party_id = other;
        let v1 = submit(last.entity.clone(), s, last.message.clone()).await;
        verdicts.insert("attributed_to_another_registered_party".into(), json!(if v1 { "accepted" } else { "rejected" }));
        // over another message
        let mut m = last.message.clone();
        m.set_message_part(ProtocolMessagePartKey::CurrentEpoch, "4242".to_string());
        let v2 = submit(last.entity.clone(), last.signature.clone(), m).await;
        verdicts.insert("submitted_with_another_message".into(), json!(if v2 { "accepted" } else { "rejected" }));
        // for the entity of the next epoch: other keys, stake distribution and parameters are in force
        let next_entity = SignedEntityType::MithrilStakeDistribution(Epoch(last.epoch + 1));
        let v3 = submit(next_entity, last.signature.clone(), last.message.clone()).await;
        verdicts.insert("submitted_for_the_entity_of_the_next_epoch".into(), json!(if v3 { "accepted" } else { "rejected" }));
        w.node = None;
        if !genuine || v1 || v2 || v3 {
            return Err(format!("reference aggregator self-check failed: {verdicts:?}"));
        }
        Ok(Value::Object(verdicts))
    });
    drop(rt);
    let _ = std::fs::remove_dir_all(&dir);
    res
}

/// The nominal schedule seen through an aggregator whose node is always first to enter an epoch: the
/// signer starts while the aggregator is already one epoch ahead, and at every epoch boundary the
/// aggregator moves first, the signer runs a cycle, then its node catches up.
pub fn nominal_skewed(epochs: usize, slack: usize) -> Vec<Ev> {
    let mut s = vec![Ev::AggAhead, Ev::Tick, Ev::Tick, Ev::NodeCatchUp];
    for e in nominal(epochs, slack) {
        if e == Ev::Epoch {
            s.extend([Ev::AggAhead, Ev::Tick, Ev::NodeCatchUp]);
        } else {
            s.push(e);
        }
    }
    s
}
