//! The closed system: a real signer node (state machine, runner, services, SQLite stores in files of
//! a per-replay tmpfs directory) assembled the way `mithril-signer/tests/test_extensions/
//! state_machine_tester.rs` assembles it, with the Cardano node replaced by the repository's own
//! test doubles and the aggregator replaced by the harness reference aggregator (`refagg.rs`).

use std::path::{Path, PathBuf};
use std::sync::Arc;
use std::time::Duration;

use mithril_cardano_node_chain::{
    chain_importer::CardanoChainDataImporter,
    entities::ScannedBlock,
    test::double::{DumbBlockScanner, FakeChainObserver},
};
use mithril_cardano_node_internal_database::{
    signable_builder::CardanoDatabaseSignableBuilder,
    test::double::{DumbImmutableDigester, DumbImmutableFileObserver},
};
use mithril_common::{
    api_version::APIVersionProvider,
    crypto_helper::{KesSigner, KesSignerStandard},
    entities::{BlockNumber, ChainPoint, Epoch, SignerWithStake, SlotNumber, SupportedEra, TimePoint},
    signable_builder::{
        CardanoBlocksTransactionsSignableBuilder, CardanoStakeDistributionSignableBuilder,
        CardanoTransactionsSignableBuilder, MithrilSignableBuilderService, MithrilStakeDistributionSignableBuilder,
        SignableBuilderServiceDependencies,
    },
    test::builder::{MithrilFixture, MithrilFixtureBuilder},
    test::double::Dummy,
};
use mithril_era::{EraChecker, EraMarker, EraReader, adapters::EraReaderDummyAdapter};
use mithril_persistence::sqlite::SqliteConnection;
use mithril_persistence::store::StakeStorer;
use mithril_signed_entity_lock::SignedEntityTypeLock;
use mithril_signed_entity_preloader::{CardanoTransactionsPreloader, CardanoTransactionsPreloaderActivation};
use mithril_signer::{
    Configuration, MetricsService, SignerRunner, SignerState, StateMachine,
    database::repository::{
        ProtocolInitializerRepository, SignedBeaconRepository, SignerCardanoChainDataRepository, StakePoolStore,
    },
    dependency_injection::{DependenciesBuilder, EpochServiceWrapper, SignerDependencyContainer},
    services::{
        MithrilEpochService, MithrilSingleSigner, SignerCertifierService, SignerChainDataImporter,
        SignerSignableSeedBuilder, SignerSignedEntityConfigProvider, SignerUpkeepService,
    },
    store::{MKTreeStoreSqlite, ProtocolInitializerStorer},
};
use mithril_ticker::{MithrilTickerService, TickerService};

use crate::refagg::{RefAgg, registration_parameters};

pub const NSIGNERS: usize = 3;
/// index of the signer under test in the fixture
pub const ME: usize = 0;

pub fn logger() -> slog::Logger {
    slog::Logger::root(slog::Discard, slog::o!())
}

pub fn fixture() -> MithrilFixture {
    MithrilFixtureBuilder::default()
        .with_signers(NSIGNERS)
        .with_protocol_parameters(registration_parameters(0))
        .build()
}

/// Stake distribution the chain shows during `epoch`: it changes at every epoch boundary so that a
/// signer (or a reference) that pairs keys with the distribution of a neighbouring epoch is seen.
/// The signer under test holds about three quarters of the stake, so that with the reference
/// parameters (m >= 30, phi_f >= 0.8) it wins at least one lottery except with probability < 1e-15.
pub fn stakes_during(fixture: &MithrilFixture, epoch: u64, mode: Stakes) -> Vec<SignerWithStake> {
    fixture
        .signers_with_stake()
        .into_iter()
        .enumerate()
        .map(|(i, mut s)| {
            s.stake = if i == ME { 10_000 + if mode == Stakes::OwnConstant { 0 } else { 500 * (epoch % 7) } } else { 1_000 * i as u64 + 100 * (epoch % 5) };
            s
        })
        .collect()
}

/// Two worlds. In the first every pool's stake changes at every epoch boundary: a signer that pairs
/// its key with the stake of a neighbouring epoch cannot even build its signing key, or is rejected.
/// In the second the stake of the pool under test stays the same (only the others' change), as for a
/// pool whose delegation does not move: there the node *can* sign with the key of a neighbouring
/// epoch, and only the verification by the aggregator tells.
#[derive(Clone, Copy, Debug, PartialEq, Eq)]
pub enum Stakes {
    Varying,
    OwnConstant,
}

impl Stakes {
    pub fn label(&self) -> &'static str {
        match self {
            Stakes::Varying => "every-stake-changes-each-epoch",
            Stakes::OwnConstant => "own-stake-constant",
        }
    }
    pub fn from_label(l: Option<&str>) -> Stakes {
        if l == Some("own-stake-constant") { Stakes::OwnConstant } else { Stakes::Varying }
    }
}

/// The Cardano node as the signer sees it: every query is answered with the state of the chain at
/// the moment it is served, and the chain may enter the next epoch (new stake distribution) between
/// two queries of the same state-machine cycle.
pub struct NodeView {
    pub inner: Arc<FakeChainObserver>,
    agg: Arc<RefAgg>,
    /// stake distribution the chain shows during each epoch
    table: Vec<Vec<SignerWithStake>>,
    in_cycle: std::sync::atomic::AtomicBool,
    queries: std::sync::atomic::AtomicU32,
    /// (turn after this many queries of the running cycle, only the signer's node notices)
    armed: std::sync::Mutex<Option<(u32, bool)>>,
}

impl NodeView {
    /// the chain enters the next epoch as seen by the signer's node; if `node_only` the aggregator has
    /// not noticed yet (its clock falls one epoch behind the node, or stops being ahead)
    pub async fn turn(&self, node_only: bool) {
        let e = self.inner.next_epoch().await.map(|e| *e).unwrap_or(0);
        self.inner.set_signers(self.table[e as usize].clone()).await;
        if node_only {
            self.agg.with(|st| {
                if st.skew >= 0 {
                    st.skew -= 1;
                }
            });
        }
    }

    async fn served(&self) {
        use std::sync::atomic::Ordering::SeqCst;
        if !self.in_cycle.load(SeqCst) {
            return;
        }
        let n = self.queries.fetch_add(1, SeqCst) + 1;
        let fire = {
            let mut a = self.armed.lock().unwrap();
            match *a {
                Some((after, node_only)) if after == n => {
                    *a = None;
                    Some(node_only)
                }
                _ => None,
            }
        };
        if let Some(node_only) = fire {
            self.turn(node_only).await;
        }
    }
}

#[async_trait::async_trait]
impl mithril_cardano_node_chain::chain_observer::ChainObserver for NodeView {
    async fn get_current_datums(
        &self,
        address: &mithril_cardano_node_chain::entities::ChainAddress,
    ) -> Result<Vec<mithril_cardano_node_chain::entities::TxDatum>, mithril_cardano_node_chain::chain_observer::ChainObserverError> {
        let r = self.inner.get_current_datums(address).await;
        self.served().await;
        r
    }
    async fn get_current_era(&self) -> Result<Option<String>, mithril_cardano_node_chain::chain_observer::ChainObserverError> {
        let r = self.inner.get_current_era().await;
        self.served().await;
        r
    }
    async fn get_current_epoch(&self) -> Result<Option<Epoch>, mithril_cardano_node_chain::chain_observer::ChainObserverError> {
        let r = self.inner.get_current_epoch().await;
        self.served().await;
        r
    }
    async fn get_current_chain_point(&self) -> Result<Option<ChainPoint>, mithril_cardano_node_chain::chain_observer::ChainObserverError> {
        let r = self.inner.get_current_chain_point().await;
        self.served().await;
        r
    }
    async fn get_current_stake_distribution(
        &self,
    ) -> Result<Option<mithril_common::entities::StakeDistribution>, mithril_cardano_node_chain::chain_observer::ChainObserverError> {
        let r = self.inner.get_current_stake_distribution().await;
        self.served().await;
        r
    }
    async fn get_current_kes_period(
        &self,
    ) -> Result<Option<mithril_common::crypto_helper::KesPeriod>, mithril_cardano_node_chain::chain_observer::ChainObserverError> {
        let r = self.inner.get_current_kes_period().await;
        self.served().await;
        r
    }
}

/// What stands for the Cardano node and the outside world: survives a restart of the signer.
#[derive(Clone)]
pub struct Outside {
    /// the chain itself (what the harness and the reference aggregator read)
    pub chain: Arc<FakeChainObserver>,
    /// the chain as served to the signer, query by query
    pub node: Arc<NodeView>,
    pub immutables: Arc<DumbImmutableFileObserver>,
    pub scanner: Arc<DumbBlockScanner>,
    pub digester: Arc<DumbImmutableDigester>,
    pub era_adapter: Arc<EraReaderDummyAdapter>,
    pub agg: Arc<RefAgg>,
}

/// The signer process: everything here is dropped and rebuilt on `restart`.
pub struct Node {
    pub machine: StateMachine,
    pub main_db: Arc<SqliteConnection>,
    pub initializers: Arc<dyn ProtocolInitializerStorer>,
    pub stake_store: Arc<dyn StakeStorer>,
    pub epoch_service: EpochServiceWrapper,
    #[allow(dead_code)]
    pub metrics: Arc<MetricsService>,
    pub ticker: Arc<dyn TickerService>,
}

pub struct World {
    #[allow(dead_code)]
    pub dir: PathBuf,
    pub config: Configuration,
    pub fixture: MithrilFixture,
    pub outside: Outside,
    pub node: Option<Node>,
    pub mode: Stakes,
    pub restarts: u32,
    pub critical_errors: u32,
    pub panics: u32,
    pub queries_in_last_cycle: u32,
}

/// polls a future under `catch_unwind`
struct CatchUnwind<F>(std::pin::Pin<Box<F>>);

impl<F: std::future::Future> std::future::Future for CatchUnwind<F> {
    type Output = Result<F::Output, String>;
    fn poll(mut self: std::pin::Pin<&mut Self>, cx: &mut std::task::Context<'_>) -> std::task::Poll<Self::Output> {
        let inner = &mut self.0;
        match mc_core::catch(|| inner.as_mut().poll(cx)) {
            Ok(std::task::Poll::Ready(v)) => std::task::Poll::Ready(Ok(v)),
            Ok(std::task::Poll::Pending) => std::task::Poll::Pending,
            Err(e) => std::task::Poll::Ready(Err(e)),
        }
    }
}

pub const START_BLOCK: u64 = 100;

fn start_time_point() -> TimePoint {
    TimePoint {
        epoch: Epoch(1),
        immutable_file_number: 1,
        chain_point: ChainPoint {
            slot_number: SlotNumber(START_BLOCK),
            block_number: BlockNumber(START_BLOCK),
            block_hash: format!("block_hash-{START_BLOCK}"),
        },
    }
}

pub fn blocks(range: std::ops::RangeInclusive<u64>) -> Vec<ScannedBlock> {
    range
        .map(|n| ScannedBlock::new(format!("block_hash-{n}"), BlockNumber(n), SlotNumber(n), vec![format!("tx_hash-{n}-1")]))
        .collect()
}

async fn build_node(config: &Configuration, o: &Outside) -> Node {
    let logger = logger();
    let builder = DependenciesBuilder::new(config, logger.clone());
    // file-backed databases, with the node's own migrations
    let main_db = Arc::new(builder.build_main_sqlite_connection("signer.sqlite3").await.expect("main db"));
    let tx_pool = Arc::new(
        builder
            .build_cardano_tx_sqlite_connection_pool("cardano-transaction.sqlite3", 1)
            .await
            .expect("cardano tx db"),
    );
    let retention = config.store_retention_limit.map(|l| l as u64);

    let ticker = Arc::new(MithrilTickerService::new(o.node.clone(), o.immutables.clone()));
    let initializers = Arc::new(ProtocolInitializerRepository::new(main_db.clone(), retention));
    let stake_store = Arc::new(StakePoolStore::new(main_db.clone(), retention));
    let era_reader = Arc::new(EraReader::new(o.era_adapter.clone()));
    let token = era_reader
        .read_era_epoch_token(ticker.get_current_epoch().await.expect("epoch"))
        .await
        .expect("era token");
    let era_checker = Arc::new(EraChecker::new(token.get_current_supported_era().expect("era"), token.get_current_epoch()));
    let api_version_provider = Arc::new(APIVersionProvider::new(era_checker.clone()));

    let chain_data_store = Arc::new(SignerCardanoChainDataRepository::new(tx_pool.clone()));
    let importer = Arc::new(SignerChainDataImporter::new(Arc::new(CardanoChainDataImporter::new(
        o.scanner.clone(),
        chain_data_store.clone(),
        logger.clone(),
    ))));
    let ctx_builder =
        Arc::new(CardanoTransactionsSignableBuilder::<MKTreeStoreSqlite>::new(importer.clone(), chain_data_store.clone()));
    let cbtx_builder = Arc::new(CardanoBlocksTransactionsSignableBuilder::<MKTreeStoreSqlite>::new(
        importer.clone(),
        chain_data_store.clone(),
    ));
    let csd_builder = Arc::new(CardanoStakeDistributionSignableBuilder::new(stake_store.clone()));
    let cdb_builder = Arc::new(CardanoDatabaseSignableBuilder::new(o.digester.clone(), Path::new(""), logger.clone()));
    let epoch_service: EpochServiceWrapper = Arc::new(tokio::sync::RwLock::new(MithrilEpochService::new(
        era_checker.clone(),
        stake_store.clone(),
        initializers.clone(),
        logger.clone(),
    )));
    let single_signer = Arc::new(MithrilSingleSigner::new(
        config.party_id.clone().unwrap_or_default(),
        epoch_service.clone(),
        logger.clone(),
    ));
    let seed_builder = Arc::new(SignerSignableSeedBuilder::new(epoch_service.clone(), initializers.clone()));
    let signable_builder_service = Arc::new(MithrilSignableBuilderService::new(
        seed_builder,
        SignableBuilderServiceDependencies::new(
            Arc::new(MithrilStakeDistributionSignableBuilder::default()),
            ctx_builder,
            cbtx_builder,
            csd_builder,
            cdb_builder,
        ),
        logger.clone(),
    ));
    let metrics = Arc::new(MetricsService::new(logger.clone()).expect("metrics"));
    let lock = Arc::new(SignedEntityTypeLock::default());
    let preloader = Arc::new(CardanoTransactionsPreloader::new(
        lock.clone(),
        importer.clone(),
        BlockNumber(0),
        o.chain.clone(),
        logger.clone(),
        Arc::new(CardanoTransactionsPreloaderActivation::new(true)),
    ));
    let signed_beacons = Arc::new(SignedBeaconRepository::new(main_db.clone(), retention));
    // pruning tasks as wired by the node's own DependenciesBuilder::build
    let upkeep = Arc::new(SignerUpkeepService::new(
        main_db.clone(),
        tx_pool,
        lock.clone(),
        vec![signed_beacons.clone(), stake_store.clone(), initializers.clone()],
        logger.clone(),
    ));
    let certifier = Arc::new(SignerCertifierService::new(
        signed_beacons.clone(),
        Arc::new(SignerSignedEntityConfigProvider::new(epoch_service.clone())),
        lock.clone(),
        single_signer.clone(),
        o.agg.clone(),
        logger.clone(),
    ));
    let kes_signer = Some(Arc::new(KesSignerStandard::new(
        config.kes_secret_key_path.clone().expect("kes key of the fixture signer"),
        config.operational_certificate_path.clone().expect("operational certificate of the fixture signer"),
    )) as Arc<dyn KesSigner>);

    let services = SignerDependencyContainer {
        signers_registration_retriever: o.agg.clone(),
        ticker_service: ticker.clone(),
        chain_observer: o.node.clone(),
        digester: o.digester.clone(),
        protocol_initializer_store: initializers.clone(),
        single_signer,
        stake_store: stake_store.clone(),
        era_checker,
        era_reader,
        api_version_provider,
        signable_builder_service,
        metrics_service: metrics.clone(),
        signed_entity_type_lock: lock,
        cardano_transactions_preloader: preloader,
        upkeep_service: upkeep,
        epoch_service: epoch_service.clone(),
        certifier,
        signer_registration_publisher: o.agg.clone(),
        kes_signer,
        network_configuration_service: o.agg.clone(),
    };
    let runner = Box::new(SignerRunner::new(config.clone(), services, logger.clone()));
    // the interval is only used by StateMachine::run, which the harness never calls
    let machine = StateMachine::new(SignerState::Init, runner, Duration::from_secs(3600), metrics.clone(), logger);
    Node { machine, main_db, initializers, stake_store, epoch_service, metrics, ticker }
}

impl World {
    pub async fn new(dir: PathBuf, fixture: &MithrilFixture, mode: Stakes) -> World {
        let _ = std::fs::remove_dir_all(&dir);
        std::fs::create_dir_all(&dir).unwrap();
        let me = fixture.signers_with_stake()[ME].party_id.clone();
        let config = Configuration {
            db_directory: dir.join("db"),
            data_stores_directory: dir.join("stores"),
            store_retention_limit: Some(5),
            ..Configuration::new_sample(&me)
        };
        std::fs::create_dir_all(&config.data_stores_directory).unwrap();
        let start = start_time_point();
        let immutables = Arc::new(DumbImmutableFileObserver::new());
        immutables.shall_return(Some(start.immutable_file_number)).await;
        let chain = Arc::new(FakeChainObserver::new(Some(start)));
        let scanner = Arc::new(DumbBlockScanner::new());
        scanner.add_forwards(vec![blocks(1..=START_BLOCK)]);
        // the reference aggregator knows the chain's stake distribution of every epoch by itself
        let agg = Arc::new(RefAgg::new(
            chain.clone(),
            (0..64u64)
                .map(|e| (e as i64, stakes_during(fixture, e, mode).into_iter().map(|x| (x.party_id, x.stake)).collect()))
                .collect(),
        ));
        let outside = Outside {
            node: Arc::new(NodeView {
                inner: chain.clone(),
                agg: agg.clone(),
                table: (0..64u64).map(|e| stakes_during(fixture, e, mode)).collect(),
                in_cycle: Default::default(),
                queries: Default::default(),
                armed: Default::default(),
            }),
            agg,
            chain,
            immutables,
            scanner,
            digester: Arc::new(DumbImmutableDigester::default().with_digest("DIGEST")),
            era_adapter: Arc::new(EraReaderDummyAdapter::from_markers(vec![EraMarker {
                name: SupportedEra::dummy().to_string(),
                epoch: Some(Epoch(0)),
            }])),
        };
        let node = build_node(&config, &outside).await;
        let w = World { dir, config, fixture: fixture.clone(), outside, node: Some(node), mode, restarts: 0, critical_errors: 0, panics: 0, queries_in_last_cycle: 0 };
        w.show_node_stakes().await;
        w
    }

    pub fn node(&self) -> &Node {
        self.node.as_ref().expect("node")
    }

    /// Drop the signer process and start a new one on the same data directory.
    pub async fn restart(&mut self) {
        self.node = None;
        self.node = Some(build_node(&self.config, &self.outside).await);
        self.restarts += 1;
    }

    pub async fn time_point(&self) -> TimePoint {
        self.node().ticker.get_current_time_point().await.expect("time point")
    }

    /// the signer's node shows the stake distribution of the epoch it is in
    async fn show_node_stakes(&self) {
        let e = self.outside.agg.node_epoch().await;
        self.outside.chain.set_signers(stakes_during(&self.fixture, e as u64, self.mode)).await;
    }

    /// the chain enters the next epoch; the signer's node and the aggregator both see it (a skew
    /// between them stays as it is)
    pub async fn next_epoch(&self) {
        self.outside.chain.next_epoch().await;
        self.show_node_stakes().await;
    }

    /// the chain enters the next epoch but only the aggregator notices: the signer's node lags
    /// (also: an aggregator that was one epoch behind the node catches up)
    pub fn aggregator_ahead(&self) -> bool {
        self.outside.agg.with(|st| {
            if st.skew > 0 {
                false
            } else {
                st.skew += 1;
                true
            }
        })
    }

    /// the signer's node catches up with the epoch the aggregator is already in
    pub async fn node_catches_up(&self) -> bool {
        if !self.outside.agg.with(|st| {
            if st.skew == 1 {
                st.skew = 0;
                true
            } else {
                false
            }
        }) {
            return false;
        }
        self.outside.chain.next_epoch().await;
        self.show_node_stakes().await;
        true
    }

    pub async fn next_immutable(&self) {
        self.outside.immutables.increase().await.unwrap();
    }

    pub async fn more_blocks(&self, n: u64) {
        let from = self.time_point().await.chain_point.block_number;
        self.outside.chain.increase_slot_number(n).await;
        let to = self.outside.chain.increase_block_number(n).await.expect("block number");
        self.outside.scanner.add_forwards(vec![blocks(*from + 1..=*to)]);
    }

    /// One cycle of the real state machine (its timing loop `run` is never used). A panic of the
    /// node is caught: the process is gone, and (as a process supervisor would) the harness starts it
    /// again on the same data directory.
    /// One cycle during which the chain enters the next epoch right after the `after`-th query the
    /// signer makes to its node (0: before the first one; if the cycle makes fewer queries: right after
    /// the cycle). `queries_in_last_cycle` tells how many it made.
    pub async fn tick_turning(&mut self, turn: Option<(u32, bool)>) -> Result<(), String> {
        use std::sync::atomic::Ordering::SeqCst;
        let view = self.outside.node.clone();
        view.queries.store(0, SeqCst);
        match turn {
            Some((0, node_only)) => view.turn(node_only).await,
            Some(t) => *view.armed.lock().unwrap() = Some(t),
            None => {}
        }
        let start_epoch = self.outside.agg.node_epoch().await;
        self.outside.agg.with(|st| st.cycle_start_node_epoch = start_epoch);
        view.in_cycle.store(true, SeqCst);
        let r = CatchUnwind(Box::pin(self.node().machine.cycle())).await;
        view.in_cycle.store(false, SeqCst);
        self.queries_in_last_cycle = view.queries.load(SeqCst);
        let pending = view.armed.lock().unwrap().take();
        if let Some((_, node_only)) = pending {
            view.turn(node_only).await;
        }
        let now = self.outside.agg.node_epoch().await;
        self.outside.agg.with(|st| st.cycle_start_node_epoch = now);
        match r {
            Ok(Ok(())) => Ok(()),
            Ok(Err(e)) => {
                if e.is_critical() {
                    self.critical_errors += 1;
                }
                Err(format!("{e:?}"))
            }
            Err(panic) => {
                self.panics += 1;
                let at = mc_core::last_panic_location();
                self.restart().await;
                Err(format!("PANIC {panic} at {at}; node restarted"))
            }
        }
    }

    pub async fn state(&self) -> SignerState {
        self.node().machine.get_state().await
    }
}
