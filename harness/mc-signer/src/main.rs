//! mc-signer: serves C20 (see /verif/DESIGN.md §4)
mod c20;
mod refagg;
mod sys;
mod world;

fn main() {
    let ctx = mc_core::Ctx::from_args();
    mc_core::quiet_panics();
    match ctx.property.as_str() {
        "C20" => c20::run(&ctx),
        other => {
            eprintln!("mc-signer does not serve {other}");
            std::process::exit(2);
        }
    }
}
