//! C20 — a signer signs each beacon once with its epoch key, acceptably to aggregators.
//!
//! Explicit-state exploration by replay of the real signer node (`StateMachine::cycle`,
//! `SignerRunner`, epoch service, single signer, certifier, SQLite repositories in files) against an
//! in-process reference aggregator that applies the epoch-offset rule with its own constants and
//! verifies every published signature (see `refagg.rs`, `world.rs`, `sys.rs`).

use std::collections::BTreeMap;
use std::sync::Mutex;

use mc_core::explore::{Explorer, standard_edits};
use mc_core::{Ctx, Report, Tier};
use serde_json::json;

use crate::sys::{Ev, nominal, replay};

pub fn alphabet() -> Vec<Ev> {
    use Ev::*;
    vec![
        Tick,
        Epoch,
        Immutable,
        Blocks,
        AggDown,
        AggUp,
        StaleOn,
        StaleOff,
        RoundClosed,
        RoundOpen,
        Others(0b010),
        Others(0b110),
        PublishFails,
        RegisterAckLost,
        Restart,
    ]
}

/// prepared states for the depth-bounded search
pub fn prefixes() -> Vec<Vec<Ev>> {
    use Ev::*;
    // (1) a fresh node in epoch 1
    let p1 = vec![];
    // (2) epoch 2, registered for the second time, not yet able to sign
    let p2 = vec![Tick, Tick, Others(0b110), Epoch, Tick, Tick, Others(0b010)];
    // (3) epoch 3, ready to sign, the first beacon of the epoch signed, three pending
    let mut p3 = vec![Tick, Tick, Others(0b110), Epoch, Tick, Tick, Others(0b110), Epoch, Tick, Tick, Tick];
    // (4) epoch 4 reached, not yet noticed by the signer, which signed everything in epoch 3
    let mut p4 = p3.clone();
    p4.extend([Tick, Tick, Tick, Epoch]);
    p3.shrink_to_fit();
    vec![p1, p2, p3, p4]
}

pub fn run(ctx: &Ctx) -> ! {
    let scratch = ctx.scratch();
    // the repository's fixtures keep the pools' KES keys and operational certificates in files under
    // the system temp dir: keep them inside the scratch directory of this run
    // SAFETY: no other thread exists yet
    unsafe { std::env::set_var("TMPDIR", &scratch) };
    let fixture = crate::world::fixture();
    let mut rep = Report::new(
        "model_checking",
        "explicit-state exploration by replay of the real signer node (state machine, runner, epoch service, single signer, certifier, \
         SQLite stores) against an in-process reference aggregator: every history is replayed on a fresh node, every publication is \
         judged by the reference when it happens, the publication log is checked at the end and a fault-free tail of three epochs must \
         make the signer sign again; a history is non-trivial when the signer published at least one signature; distinct = distinct \
         canonical states reached by such histories",
    );
    let stats: Mutex<BTreeMap<&'static str, u64>> = Mutex::new(BTreeMap::new());
    let run = |h: &[Ev]| {
        let o = replay(&scratch, &fixture, h, true);
        let mut s = stats.lock().unwrap();
        for (k, v) in o.stats {
            *s.entry(k).or_insert(0) += v;
        }
        o.result
    };

    if let Some(path) = &ctx.replay {
        let v = mc_core::load_replay(path);
        let h: Vec<Ev> = serde_json::from_value(v["history"].clone()).expect("history in replay file");
        let r = run(&h);
        eprintln!("replayed {} events: outcome {}", h.len(), r.outcome);
        for v in &r.violations {
            eprintln!("  {}: {}", v.key, v.what);
            if let Some(log) = v.replay["log"].as_array() {
                for l in log {
                    eprintln!("      {}", l.as_str().unwrap_or(""));
                }
            }
            break;
        }
        rep.eval();
        for v in r.violations {
            rep.push_violation(v);
        }
        rep.nontrivial(&0);
        rep.nontrivial(&1);
        rep.states = Some(1);
        rep.transitions = Some(1);
        rep.traces_validated = Some(1);
        rep.sample(json!({"history": h}));
        rep.finish(ctx);
    }

    if std::env::var("MC_NOMINAL_ONLY").is_ok() {
        for slack in [0usize, 2] {
            let nom = nominal(slack);
            let t = std::time::Instant::now();
            let o = replay(&scratch, &fixture, &nom, true);
            eprintln!(
                "nominal(slack {slack}): {} events, outcome {}, {} violations, {:.3}s",
                nom.len(),
                o.result.outcome,
                o.result.violations.len(),
                t.elapsed().as_secs_f64()
            );
            for v in &o.result.violations {
                eprintln!("  {}: {}", v.key, v.what);
            }
            eprintln!("published: {:?}", o.published);
            eprintln!("stats: {:?}", o.stats);
            if slack == 0 {
                eprintln!("{}", o.result.canon);
                let o2 = replay(&scratch, &fixture, &nom, false);
                if let Some(v) = o2.result.violations.first() {
                    eprintln!("{:#}", v.replay["log"]);
                }
                let t = std::time::Instant::now();
                let o3 = replay(&scratch, &fixture, &[], true);
                eprintln!("empty history with tail: {:.3}s {}", t.elapsed().as_secs_f64(), o3.result.outcome);
                if std::env::var("MC_LOG").is_ok() {
                    let mut w = o3.result.violations;
                    w.extend(o.result.violations.clone());
                    for v in w.iter().take(1) {
                        eprintln!("{:#}", v.replay["log"]);
                    }
                }
            }
        }
        let _ = std::fs::remove_dir_all(&scratch);
        std::process::exit(0);
    }

    let quick = ctx.tier == Tier::Quick;
    let ex = Explorer { threads: ctx.threads(), budget: None, run: &run };

    // (a) all histories up to a depth over the full alphabet, from the prepared states
    let alpha = alphabet();
    let pre = prefixes();
    let depth = ctx.tier.pick(3, 4);
    let st = ex.bfs(&pre, &alpha, depth, &mut rep);
    rep.extra(
        "bfs",
        json!({"prepared_states": pre.len(), "alphabet": alpha.len(), "depth_completed": st.depth_completed, "histories": st.transitions, "states": st.states}),
    );

    // (b) deviation ball around the nominal five-epoch schedule
    let nom = nominal(0);
    let edits = |h: &[Ev]| standard_edits(h, &alpha, 0);
    let st = ex.ball(&nom, &edits, 1, &mut rep);
    rep.extra(
        "ball_nominal",
        json!({"nominal_len": nom.len(), "deviation_alphabet": alpha.len(), "bound_completed": st.depth_completed, "histories": st.transitions, "states": st.states}),
    );
    if !quick {
        // two deviations, from the first signing epoch on, with the fault events only
        use Ev::*;
        let dev2 = vec![Epoch, AggDown, StaleOn, RoundClosed, PublishFails, RegisterAckLost, Restart];
        let from = nom.iter().enumerate().filter(|(_, e)| **e == Epoch).nth(1).map(|x| x.0).unwrap();
        let edits2 = |h: &[Ev]| {
            let mut v = vec![];
            // insertions only (drops / swaps of the nominal are in the one-deviation ball)
            for i in from..=h.len() {
                for e in &dev2 {
                    let mut d = h.to_vec();
                    d.insert(i, *e);
                    v.push(d);
                }
            }
            v
        };
        let st = ex.ball(&nom, &edits2, 2, &mut rep);
        rep.extra(
            "ball_nominal_two_faults",
            json!({"nominal_len": nom.len(), "from_event": from, "deviation_alphabet": dev2.len(), "bound_completed": st.depth_completed, "histories": st.transitions, "states": st.states}),
        );
    }

    // (c) restart differential: a restart costs the signer at most two cycles (Init -> Unregistered ->
    // registered), so on the nominal schedule with two (four) spare cycles after every group of
    // cycles, one (two) restarts inserted anywhere must leave the set of acknowledged publications
    // exactly as in the uninterrupted run
    let n_restarts = ctx.tier.pick(1usize, 2);
    let slack_nom = nominal(2 * n_restarts);
    let base = replay(&scratch, &fixture, &slack_nom, false);
    for v in &base.result.violations {
        rep.push_violation(v.clone());
    }
    let mut jobs: Vec<Vec<usize>> = (0..=slack_nom.len()).map(|p| vec![p]).collect();
    if n_restarts == 2 {
        for p in 0..=slack_nom.len() {
            for q in p..=slack_nom.len() {
                jobs.push(vec![p, q]);
            }
        }
    }
    let res = mc_core::par_map(&jobs, ctx.threads(), |_, pos| {
        let mut h = slack_nom.clone();
        for p in pos.iter().rev() {
            h.insert(*p, Ev::Restart);
        }
        let o = replay(&scratch, &fixture, &h, false);
        (h, o)
    });
    let mut diff_states = std::collections::HashSet::new();
    let mut n_diff = 0u64;
    for (pos, (h, o)) in jobs.iter().zip(res) {
        n_diff += 1;
        rep.eval();
        rep.outcome(&format!("restart-differential:{}", if o.published == base.published { "same-published-set" } else { "DIFFERENT" }));
        rep.nontrivial(&o.result.canon);
        diff_states.insert(o.result.canon.clone());
        for v in o.result.violations {
            rep.push_violation(v);
        }
        if o.published != base.published {
            let missing: Vec<&String> = base.published.difference(&o.published).collect();
            let extra: Vec<&String> = o.published.difference(&base.published).collect();
            rep.violation(
                "C20/restart-changes-published-set",
                format!(
                    "restart(s) inserted at position(s) {pos:?} of the nominal schedule with {} spare cycles per group: acknowledged publications differ from the uninterrupted run; missing {missing:?}, additional {extra:?}",
                    2 * n_restarts
                ),
                json!({"history": h, "differential_against": slack_nom, "missing": missing, "additional": extra}),
            );
        }
    }
    rep.states = Some(rep.states.unwrap_or(0) + diff_states.len() as u64);
    rep.transitions = Some(rep.transitions.unwrap_or(0) + n_diff);
    rep.traces_validated = Some(rep.traces_validated.unwrap_or(0) + n_diff);
    rep.extra(
        "restart_differential",
        json!({"nominal_len": slack_nom.len(), "spare_cycles_per_group": 2 * n_restarts, "restarts_per_run": n_restarts, "runs": n_diff,
               "publications_in_uninterrupted_run": base.published.len()}),
    );

    for (k, v) in stats.lock().unwrap().iter() {
        rep.extra(k, json!(v));
    }
    rep.extra("reference_offsets", json!({"recorded_for": "e+1", "signs_in": "e+2"}));
    rep.assume("the Cardano node (chain observer, immutable file observer, block scanner, immutable digester) is replaced by the repository's own test doubles; the aggregator by the harness reference aggregator called in process (no HTTP, no message adapters)");
    rep.assume("reference rule: keys registered during epoch e, the stake distribution the chain showed during e and the parameters handed out during e are in force in e+2; a repeated registration in the same epoch replaces the earlier one");
    rep.assume("events are atomic with respect to a state-machine cycle: no fault or chain event happens in the middle of a cycle");
    rep.assume("the node draws its keys from the OS random generator: signatures differ between runs, canonical states record only which keys exist and whether signer and aggregator agree on them; with m>=100 and phi_f>=0.65 a registered signer wins at least one lottery except with negligible probability");
    rep.assume("only acknowledged publications count for 'at most once'; a further publication after an unacknowledged one is legitimate");
    rep.finish(ctx)
}
