//! C20 — a signer signs each beacon once with its epoch key, acceptably to aggregators.
//!
//! Explicit-state exploration by replay of the real signer node (`StateMachine::cycle`,
//! `SignerRunner`, epoch service, single signer, certifier, SQLite repositories in files) against an
//! in-process reference aggregator that applies the epoch-offset rule with its own constants and
//! verifies every published signature (see `refagg.rs`, `world.rs`, `sys.rs`).

use std::collections::{BTreeMap, HashSet};
use std::sync::Mutex;

use mc_core::explore::{Explorer, standard_edits};
use mc_core::{Ctx, Report, Tier};
use serde_json::json;

use crate::sys::{Ev, Tail, nominal, replay};

pub fn alphabet() -> Vec<Ev> {
    use Ev::*;
    vec![
        Tick,
        Epoch,
        Immutable,
        Blocks,
        AggDown,
        AggUp,
        StaleOn,
        StaleOff,
        RoundClosed,
        RoundOpen,
        Others(0b010),
        Others(0b110),
        AggAhead,
        NodeCatchUp,
        PublishFails,
        RegisterAckLost,
        Restart,
    ]
}

/// prepared states for the depth-bounded search
pub fn prefixes() -> Vec<Vec<Ev>> {
    use Ev::*;
    // (1) a fresh node in epoch 1
    let p1 = vec![];
    // (2) epoch 2, registered for the second time, not yet able to sign
    let p2 = vec![Tick, Tick, Others(0b110), Epoch, Tick, Tick, Others(0b010)];
    // (3) epoch 3, ready to sign, the first beacon of the epoch signed, three pending
    let p3 = vec![Tick, Tick, Others(0b110), Epoch, Tick, Tick, Others(0b110), Epoch, Tick, Tick, Tick];
    // (4) epoch 4 reached, not yet noticed by the signer, which signed everything in epoch 3
    let mut p4 = p3.clone();
    p4.extend([Tick, Tick, Tick, Epoch]);
    // (5) the signer started while the aggregator was already one epoch ahead (it ran two cycles in
    // that situation), then its node caught up
    let p5 = vec![AggAhead, Tick, Tick, NodeCatchUp];
    vec![p1, p5, p3, p2, p4]
}

pub fn run(ctx: &Ctx) -> ! {
    let scratch = ctx.scratch();
    // the repository's fixtures keep the pools' KES keys and operational certificates in files under
    // the system temp dir: keep them inside the scratch directory of this run
    // SAFETY: no other thread exists yet
    unsafe { std::env::set_var("TMPDIR", &scratch) };
    let fixture = crate::world::fixture();
    let mut rep = Report::new(
        "model_checking",
        "explicit-state exploration by replay of the real signer node (state machine, runner, epoch service, single signer, certifier, \
         SQLite stores) against an in-process reference aggregator: every history is replayed on a fresh node, every publication is \
         judged by the reference when it happens, the publication log is checked at the end and a fault-free tail of three epochs (run once per \
         canonical state; the node first catches up with the aggregator) must produce only correct publications and make the signer sign again; a history is non-trivial when the signer published at least one signature; distinct = distinct \
         canonical states reached by such histories",
    );
    let stats: Mutex<BTreeMap<&'static str, u64>> = Mutex::new(BTreeMap::new());
    let claimed: Mutex<HashSet<u64>> = Mutex::new(HashSet::new());
    let add_stats = |o: &crate::sys::Outcome| {
        let mut s = stats.lock().unwrap();
        for (k, v) in &o.stats {
            *s.entry(*k).or_insert(0) += *v;
        }
    };
    let run = |h: &[Ev]| {
        let o = replay(&scratch, &fixture, h, Tail::OncePerState(&claimed));
        add_stats(&o);
        o.result
    };
    // differential: same acknowledged publications as the uninterrupted schedule
    let differential = |h: &[Ev], against: &std::collections::BTreeSet<String>, base: &[Ev], rep: &mut Report| -> crate::sys::Outcome {
        let o = replay(&scratch, &fixture, h, Tail::Never);
        if &o.published != against {
            let missing: Vec<&String> = against.difference(&o.published).collect();
            let extra: Vec<&String> = o.published.difference(against).collect();
            rep.violation(
                if h.contains(&Ev::Restart) {
                    "C20/restart-changes-published-set"
                } else if h.contains(&Ev::PublishFails) {
                    "C20/unacknowledged-publication-not-repeated"
                } else {
                    "C20/transient-aggregator-fault-changes-published-set"
                },
                format!(
                    "with {:?} inserted into the nominal schedule (which has enough spare cycles after every chain event to absorb them) the acknowledged publications differ from the uninterrupted run: missing {missing:?}, additional {extra:?}",
                    h.iter()
                        .enumerate()
                        .filter(|(_, e)| !matches!(e, Ev::Tick | Ev::Epoch | Ev::Immutable | Ev::Blocks | Ev::Others(_)))
                        .collect::<Vec<_>>()
                ),
                json!({"history": h, "differential_against": base, "missing": missing, "additional": extra}),
            );
        }
        o
    };

    if let Some(path) = &ctx.replay {
        let v = mc_core::load_replay(path);
        let h: Vec<Ev> = serde_json::from_value(v["history"].clone()).expect("history in replay file");
        let r = if v.get("differential_against").is_some() {
            let base: Vec<Ev> = serde_json::from_value(v["differential_against"].clone()).expect("base history in replay file");
            let b = replay(&scratch, &fixture, &base, Tail::Never);
            differential(&h, &b.published, &base, &mut rep).result
        } else {
            let mode = crate::world::Stakes::from_label(v["world"].as_str());
            crate::sys::replay_in(&scratch, &fixture, &h, Tail::Always, mode).result
        };
        eprintln!("replayed {} events: outcome {}", h.len(), r.outcome);
        if let Some(v) = r.violations.first().or(rep.violations.first()) {
            eprintln!("  {}: {}", v.key, v.what);
            if let Some(log) = v.replay["log"].as_array() {
                for l in log {
                    eprintln!("      {}", l.as_str().unwrap_or(""));
                }
            }
        }
        rep.eval();
        for v in r.violations {
            rep.push_violation(v);
        }
        rep.nontrivial(&0);
        rep.nontrivial(&1);
        rep.states = Some(1);
        rep.transitions = Some(1);
        rep.traces_validated = Some(1);
        rep.sample(json!({"history": h}));
        rep.finish(ctx);
    }

    if std::env::var("MC_NOMINAL_ONLY").is_ok() {
        for (epochs, slack) in [(5usize, 0usize), (4, 0), (5, 2), (0, 0)] {
            let nom = if epochs == 0 { crate::sys::nominal_skewed(4, 0) } else { nominal(epochs, slack) };
            let t = std::time::Instant::now();
            let o = replay(&scratch, &fixture, &nom, Tail::Always);
            eprintln!(
                "nominal({epochs} epochs, slack {slack}): {} events, outcome {}, {} violations, {:.3}s",
                nom.len(),
                o.result.outcome,
                o.result.violations.len(),
                t.elapsed().as_secs_f64()
            );
            for v in &o.result.violations {
                eprintln!("  {}: {}", v.key, v.what);
                if std::env::var("MC_LOG").is_ok() {
                    eprintln!("{:#}", v.replay["log"]);
                }
            }
            eprintln!("published: {:?}", o.published);
            eprintln!("stats: {:?}", o.stats);
            if slack == 0 && epochs == 5 {
                eprintln!("{}", o.result.canon);
                let t = std::time::Instant::now();
                let o3 = replay(&scratch, &fixture, &[], Tail::Always);
                eprintln!("empty history with tail: {:.3}s {}", t.elapsed().as_secs_f64(), o3.result.outcome);
            }
        }
        let _ = std::fs::remove_dir_all(&scratch);
        std::process::exit(0);
    }

    let quick = ctx.tier == Tier::Quick;
    {
        // the nominal schedule itself, always shown among the samples
        let nom = nominal(5, 0);
        let o = replay(&scratch, &fixture, &nom, Tail::Always);
        rep.sample(json!({"history": nom, "outcome": o.result.outcome, "acknowledged_publications": o.published}));
    }
    match crate::sys::reference_selfcheck(&scratch, &fixture) {
        Ok(v) => rep.extra("reference_selfcheck", v),
        Err(e) => rep.machinery_error(e),
    }
    let ex = Explorer { threads: ctx.threads(), budget: None, run: &run };

    // recording run: how many queries each cycle of the nominal schedule (and of a restart) makes to
    // the Cardano node - the positions at which the epoch can turn inside a cycle
    let (rec, qmax) = {
        use Ev::*;
        let nom4 = nominal(4, 0);
        let rec = replay(&scratch, &fixture, &nom4, Tail::Never);
        let mut with_restart = nom4.clone();
        let b34 = nom4.iter().enumerate().filter(|(_, e)| **e == Epoch).nth(2).map(|x| x.0).unwrap();
        with_restart.splice(b34..b34, [Restart, Tick, Tick]);
        let rec2 = replay(&scratch, &fixture, &with_restart, Tail::Never);
        let qmax = rec.node_queries.iter().chain(rec2.node_queries.iter()).copied().max().unwrap_or(0) as u8;
        (rec, qmax)
    };

    // (a) all histories up to a depth over the full alphabet, from the prepared states
    let alpha = alphabet();
    let mut pre = prefixes();
    if quick {
        pre.truncate(3);
    }
    let depth = ctx.tier.pick(3, 4);
    let t_part = std::time::Instant::now();
    let st = ex.bfs(&pre, &alpha, depth, &mut rep);
    eprintln!("[C20] bfs: {} histories, {} states, {:.1}s", st.transitions, st.states, t_part.elapsed().as_secs_f64());
    rep.extra(
        "bfs",
        json!({"prepared_states": pre.len(), "alphabet": alpha.len(), "depth_completed": st.depth_completed, "histories": st.transitions, "states": st.states}),
    );

    if !quick {
        // (a') the same to depth 3 with, in addition, the cycles during which the epoch turns after the
        // k-th node query (every k, with and without the aggregator noticing at once)
        let mut alpha_t = alpha.clone();
        for k in 1..=qmax {
            for node_only in [false, true] {
                alpha_t.push(Ev::TickTurn { after: k, node_only });
            }
        }
        let all = prefixes();
        let pre_t = vec![all[0].clone(), all[1].clone(), all[2].clone()];
        let t_part = std::time::Instant::now();
        let st = ex.bfs(&pre_t, &alpha_t, 3, &mut rep);
        eprintln!("[C20] bfs with epoch turns inside cycles: {} histories, {} states, {:.1}s", st.transitions, st.states, t_part.elapsed().as_secs_f64());
        rep.extra(
            "bfs_with_epoch_turns_inside_cycles",
            json!({"prepared_states": pre_t.len(), "alphabet": alpha_t.len(), "depth_completed": st.depth_completed, "histories": st.transitions, "states": st.states}),
        );
    }

    // (b) deviation ball around the nominal schedule (four epochs quick, five thorough): drop,
    // duplicate, swap, or insert any event of the alphabet anywhere
    let nom = nominal(ctx.tier.pick(4, 5), 0);
    // (inserting an event that only switches a fault off, or lets the node catch up, into the fault-free
    // schedule has no effect at all: those insertions are left out)
    let ins1: Vec<Ev> = alpha.iter().copied().filter(|e| !matches!(e, Ev::AggUp | Ev::StaleOff | Ev::RoundOpen | Ev::NodeCatchUp)).collect();
    let edits = |h: &[Ev]| standard_edits(h, &ins1, 0);
    let t_part = std::time::Instant::now();
    let st = ex.ball(&nom, &edits, 1, &mut rep);
    eprintln!("[C20] ball(1): {} histories, {} states, {:.1}s", st.transitions, st.states, t_part.elapsed().as_secs_f64());
    rep.extra(
        "ball_nominal",
        json!({"nominal_epochs": ctx.tier.pick(4, 5), "nominal_len": nom.len(), "deviation_alphabet": ins1.len(), "bound_completed": st.depth_completed, "histories": st.transitions, "states": st.states}),
    );
    // (b'') the same around the schedule in which the aggregator's node is always first to enter an epoch
    // (quick: drop / duplicate / swap and insertion of the events that move the signer or the clocks)
    {
        use Ev::*;
        let skewed = crate::sys::nominal_skewed(4, 0);
        let ins: Vec<Ev> = if quick { vec![Tick, Epoch, AggAhead, NodeCatchUp, Restart] } else { alpha.clone() };
        let edits_s = |h: &[Ev]| standard_edits(h, &ins, 0);
        let t_part = std::time::Instant::now();
        let st = ex.ball(&skewed, &edits_s, 1, &mut rep);
        eprintln!("[C20] ball(1, aggregator ahead): {} histories, {} states, {:.1}s", st.transitions, st.states, t_part.elapsed().as_secs_f64());
        rep.extra(
            "ball_nominal_aggregator_ahead",
            json!({"nominal_epochs": 4, "nominal_len": skewed.len(), "deviation_alphabet": ins.len(), "bound_completed": st.depth_completed, "histories": st.transitions, "states": st.states}),
        );
    }
    if !quick {
        // two injected faults, from the first signing epoch on, around the four-epoch schedule
        use Ev::*;
        let nom4 = nominal(4, 0);
        let dev2 = vec![AggDown, AggUp, RoundClosed, RoundOpen, PublishFails, Restart];
        let from = nom4.iter().enumerate().filter(|(_, e)| **e == Epoch).nth(1).map(|x| x.0).unwrap();
        let edits2 = |h: &[Ev]| {
            let mut v = vec![];
            // insertions only (drops / swaps of the nominal are in the one-deviation ball)
            for i in from..=h.len() {
                for e in &dev2 {
                    let mut d = h.to_vec();
                    d.insert(i, *e);
                    v.push(d);
                }
            }
            v
        };
        let t_part = std::time::Instant::now();
        let st = ex.ball(&nom4, &edits2, 2, &mut rep);
        eprintln!("[C20] ball(2 faults): {} histories, {} states, {:.1}s", st.transitions, st.states, t_part.elapsed().as_secs_f64());
        rep.extra(
            "ball_nominal_two_faults",
            json!({"nominal_epochs": 4, "nominal_len": nom4.len(), "from_event": from, "deviation_alphabet": dev2.len(), "bound_completed": st.depth_completed, "histories": st.transitions, "states": st.states}),
        );
    }

    // (d) aggregator-ahead windows. At an epoch boundary of the nominal schedule the `Epoch` event is
    // replaced by `[pre] AggAhead, X, NodeCatchUp`: the aggregator enters the new epoch first, X happens
    // while the signer's node is still in the old one, then the node catches up and the rest of the
    // schedule runs. pre is nothing or a new immutable file (a beacon of the old epoch not yet signed);
    // X ranges over all sequences up to length 5 of a small alphabet (restarts, cycles, chain progress,
    // ...). Run in the world in which the stake of the pool under test does not change, where a node
    // holding the key of the neighbouring epoch is able to sign with it. Usual oracle and tail.
    {
        use Ev::*;
        let mode = crate::world::Stakes::OwnConstant;
        let nomw = nominal(ctx.tier.pick(4, 5), 0);
        let boundaries: Vec<usize> = nomw.iter().enumerate().filter(|(_, e)| **e == Epoch).map(|x| x.0).collect();
        let syms: Vec<Vec<Ev>> = vec![vec![Tick], vec![Restart], vec![Immutable], vec![Blocks], vec![PublishFails], vec![AggDown, Tick, AggUp]];
        // (boundaries, number of symbols used, admissible sequence of symbol indices)
        type Filter = fn(&[usize]) -> bool;
        let at_most_one_each: Filter = |x| (1..6).all(|s| x.iter().filter(|y| **y == s).count() <= 1);
        let at_most_two_special: Filter = |x| (1..6).all(|s| x.iter().filter(|y| **y == s).count() <= 1) && x.iter().filter(|y| **y != 0).count() <= 2;
        let any: Filter = |_| true;
        let families: Vec<(Vec<usize>, usize, Filter, &str)> = if quick {
            // boundary 3 -> 4; at most one restart and at most one new immutable file inside the window
            vec![(vec![boundaries[2]], 3, at_most_one_each, "len<=5 over {Tick,Restart,Immutable}, each of Restart/Immutable at most once")]
        } else {
            vec![
                (vec![boundaries[2], boundaries[3]], 3, any, "all sequences len<=5 over {Tick,Restart,Immutable}"),
                (boundaries.clone(), 6, at_most_two_special, "len<=5 over {Tick,Restart,Immutable,Blocks,PublishFails,[AggDown,Tick,AggUp]}, at most two non-Tick symbols, each at most once"),
            ]
        };
        let mut seen = HashSet::new();
        let mut jobs: Vec<Vec<Ev>> = vec![];
        let mut fam_extra = vec![];
        for (bs, nsym, filter, what) in &families {
            let xs: Vec<Vec<usize>> = mc_core::sequences(*nsym, 5).into_iter().filter(|x| filter(x)).collect();
            let before = jobs.len();
            for b in bs {
                for pre in [vec![], vec![Immutable]] {
                    for x in &xs {
                        let mut h = nomw[..*b].to_vec();
                        h.extend(pre.iter().copied());
                        h.push(AggAhead);
                        for s in x {
                            h.extend(syms[*s].iter().copied());
                        }
                        h.push(NodeCatchUp);
                        h.extend(nomw[*b + 1..].iter().copied());
                        if seen.insert(serde_json::to_string(&h).unwrap()) {
                            jobs.push(h);
                        }
                    }
                }
            }
            fam_extra.push(json!({"boundaries_at_events": bs, "window_contents": what, "sequences": xs.len(), "pre": ["", "Immutable"], "new_histories": jobs.len() - before}));
        }
        let t_part = std::time::Instant::now();
        let res = mc_core::par_map(&jobs, ctx.threads(), |_, h| {
            let o = crate::sys::replay_in(&scratch, &fixture, h, Tail::OncePerState(&claimed), mode);
            add_stats(&o);
            o.result
        });
        let mut wstates = HashSet::new();
        for (h, r) in jobs.iter().zip(res) {
            rep.eval();
            rep.outcome(&format!("window:{}", r.outcome));
            if r.nontrivial {
                rep.nontrivial(&r.canon);
            }
            if wstates.insert(r.canon.clone()) && wstates.len() % 97 == 1 {
                rep.max_samples = 8;
                rep.sample(json!({"history": h, "outcome": r.outcome, "world": mode.label()}));
            }
            for v in r.violations {
                rep.push_violation(v);
            }
        }
        eprintln!("[C20] aggregator-ahead windows: {} histories, {} states, {:.1}s", jobs.len(), wstates.len(), t_part.elapsed().as_secs_f64());
        rep.states = Some(rep.states.unwrap_or(0) + wstates.len() as u64);
        rep.transitions = Some(rep.transitions.unwrap_or(0) + jobs.len() as u64);
        rep.traces_validated = Some(rep.traces_validated.unwrap_or(0) + jobs.len() as u64);
        rep.extra(
            "aggregator_ahead_windows",
            json!({"world": mode.label(), "nominal_epochs": ctx.tier.pick(4, 5), "families": fam_extra, "histories": jobs.len(), "states": wstates.len()}),
        );
    }

    // (e) epoch turns INSIDE a cycle. The Cardano node the signer talks to answers every query with the
    // state of the chain at that moment (`NodeView`), and `TickTurn{after: k, node_only}` is a cycle
    // during which the chain enters the next epoch (new stake distribution) right after the k-th query.
    // The number of queries each cycle makes is taken from a recording run, so every position is tried.
    {
        use Ev::*;
        let nom4 = nominal(4, 0);
        let mut jobs: Vec<(Vec<Ev>, crate::world::Stakes)> = vec![];
        let mut seen = HashSet::new();
        let mut push = |h: Vec<Ev>, m: crate::world::Stakes, jobs: &mut Vec<(Vec<Ev>, crate::world::Stakes)>| {
            if seen.insert((serde_json::to_string(&h).unwrap(), m.label())) {
                jobs.push((h, m));
            }
        };
        // (e1) every cycle of the nominal schedule, every query position of it: the next epoch boundary
        // of the schedule happens inside that cycle instead (if only the node notices, the aggregator
        // follows one cycle later)
        let n_e1_start = jobs.len();
        for (p, ev) in nom4.iter().enumerate() {
            if *ev != Tick {
                continue;
            }
            let next_epoch = nom4.iter().enumerate().skip(p).find(|(_, e)| **e == Epoch).map(|x| x.0);
            for k in 0..=rec.node_queries[p] as u8 {
                for node_only in [false, true] {
                    let mut h = nom4.clone();
                    if let Some(q) = next_epoch {
                        h.remove(q);
                    }
                    h[p] = TickTurn { after: k, node_only };
                    if node_only {
                        // the aggregator notices after the signer's next cycle
                        let at = h.iter().enumerate().skip(p + 1).find(|(_, e)| **e == Tick).map(|x| x.0 + 1).unwrap_or(h.len());
                        h.insert(at, AggAhead);
                    }
                    push(h, crate::world::Stakes::Varying, &mut jobs);
                }
            }
        }
        let n_e1 = jobs.len() - n_e1_start;
        // (e2) at an epoch boundary where signing is active: a short prelude (restart, cycles, a new
        // immutable file), then the cycle in which the epoch turns, one more cycle, the aggregator
        // follows if it had not, and the rest of the schedule
        let noml = nominal(ctx.tier.pick(4, 5), 0);
        let bl: Vec<usize> = noml.iter().enumerate().filter(|(_, e)| **e == Epoch).map(|x| x.0).collect();
        let bs: Vec<usize> = if quick { vec![bl[2]] } else { vec![bl[2], bl[3]] };
        let syms = [Tick, Restart, Immutable];
        let preludes: Vec<Vec<Ev>> = mc_core::sequences(3, 2).into_iter().map(|x| x.into_iter().map(|i| syms[i]).collect()).collect();
        let n_e2_start = jobs.len();
        for b in &bs {
            for x in &preludes {
                for k in 0..=qmax {
                    for node_only in [false, true] {
                        let mut h = noml[..*b].to_vec();
                        h.extend(x.iter().copied());
                        h.push(TickTurn { after: k, node_only });
                        h.push(Tick);
                        if node_only {
                            h.push(AggAhead);
                        }
                        h.extend(noml[*b + 1..].iter().copied());
                        push(h, crate::world::Stakes::Varying, &mut jobs);
                    }
                }
            }
        }
        let n_e2 = jobs.len() - n_e2_start;
        // (e3) aggregator-ahead window in which the node catches up in the middle of a cycle
        let n_e3_start = jobs.len();
        for b in &bs {
            for pre in [vec![], vec![Immutable]] {
                for x in &preludes {
                    for k in 0..=qmax {
                        let mut h = noml[..*b].to_vec();
                        h.extend(pre.iter().copied());
                        h.push(AggAhead);
                        h.extend(x.iter().copied());
                        h.push(TickTurn { after: k, node_only: true });
                        h.extend(noml[*b + 1..].iter().copied());
                        push(h, crate::world::Stakes::OwnConstant, &mut jobs);
                    }
                }
            }
        }
        let n_e3 = jobs.len() - n_e3_start;
        let t_part = std::time::Instant::now();
        let res = mc_core::par_map(&jobs, ctx.threads(), |_, (h, mode)| {
            let o = crate::sys::replay_in(&scratch, &fixture, h, Tail::OncePerState(&claimed), *mode);
            add_stats(&o);
            o.result
        });
        let mut tstates = HashSet::new();
        for ((h, mode), r) in jobs.iter().zip(res) {
            rep.eval();
            rep.outcome(&format!("epoch-turn-inside-cycle:{}", r.outcome));
            if r.nontrivial {
                rep.nontrivial(&r.canon);
            }
            if tstates.insert(r.canon.clone()) && tstates.len() % 61 == 1 {
                rep.max_samples = 10;
                rep.sample(json!({"history": h, "outcome": r.outcome, "world": mode.label()}));
            }
            for v in r.violations {
                rep.push_violation(v);
            }
        }
        eprintln!("[C20] epoch turns inside a cycle: {} histories ({n_e1}+{n_e2}+{n_e3}), {} states, {:.1}s", jobs.len(), tstates.len(), t_part.elapsed().as_secs_f64());
        rep.states = Some(rep.states.unwrap_or(0) + tstates.len() as u64);
        rep.transitions = Some(rep.transitions.unwrap_or(0) + jobs.len() as u64);
        rep.traces_validated = Some(rep.traces_validated.unwrap_or(0) + jobs.len() as u64);
        rep.extra(
            "epoch_turns_inside_a_cycle",
            json!({"node_queries_per_cycle_of_the_nominal_schedule": rec.node_queries.iter().filter(|q| **q > 0).collect::<Vec<_>>(), "max_queries_in_a_cycle": qmax,
                   "every_cycle_of_the_nominal_every_position": n_e1, "boundary_with_prelude": n_e2, "aggregator_ahead_window_node_catches_up_inside_a_cycle": n_e3,
                   "preludes": preludes.len(), "boundaries_at_events": bs, "histories": jobs.len(), "states": tstates.len()}),
        );
    }

    // (c) differential against the uninterrupted run. A restart costs the signer at most two cycles
    // (Init -> Unregistered -> registered), a lost acknowledgement one cycle (the beacon is published
    // again). So on the nominal schedule with two spare cycles per injected fault after every group of
    // cycles, restarts / lost acknowledgements inserted anywhere must leave the set of acknowledged
    // publications exactly as in the uninterrupted run: nothing signed twice, nothing lost.
    // quick: one fault (Restart or PublishFails) at every position of the five-epoch schedule;
    // thorough: additionally every pair (Restart, Restart) and (PublishFails, Restart) of positions
    // of the four-epoch schedule.
    let mut n_diff = 0u64;
    let mut diff_states = HashSet::new();
    let mut diff_extra = vec![];
    let mut plans: Vec<(usize, usize, Vec<Vec<Ev>>)> = vec![(5, 1, vec![vec![Ev::Restart], vec![Ev::PublishFails]])];
    if !quick {
        plans.push((4, 2, vec![vec![Ev::Restart, Ev::Restart], vec![Ev::PublishFails, Ev::Restart]]));
    }
    for (epochs, n_faults, combos) in plans {
        let slack_nom = nominal(epochs, 2 * n_faults);
        let base = replay(&scratch, &fixture, &slack_nom, Tail::Never);
        for v in &base.result.violations {
            rep.push_violation(v.clone());
        }
        let mut jobs: Vec<Vec<Ev>> = vec![];
        for combo in &combos {
            if combo.len() == 1 {
                for p in 0..=slack_nom.len() {
                    let mut h = slack_nom.clone();
                    h.insert(p, combo[0]);
                    jobs.push(h);
                }
            } else {
                for p in 0..=slack_nom.len() {
                    for q in p..=slack_nom.len() {
                        let mut h = slack_nom.clone();
                        h.insert(q, combo[1]);
                        h.insert(p, combo[0]);
                        jobs.push(h);
                    }
                }
            }
        }
        let res = mc_core::par_map(&jobs, ctx.threads(), |_, h| {
            let mut part = Report::new("model_checking", "");
            let o = differential(h, &base.published, &slack_nom, &mut part);
            add_stats(&o);
            (o, part)
        });
        eprintln!("[C20] differential ({epochs} epochs, {n_faults} fault(s)): {} runs, {:.1}s so far", jobs.len(), ctx.elapsed_s());
        for (o, part) in res {
            n_diff += 1;
            rep.eval();
            rep.outcome(&format!("differential:{}", if o.published == base.published { "same-published-set" } else { "DIFFERENT" }));
            rep.nontrivial(&o.result.canon);
            diff_states.insert(o.result.canon.clone());
            for v in o.result.violations {
                rep.push_violation(v);
            }
            for v in part.violations {
                rep.push_violation(v);
            }
        }
        diff_extra.push(json!({"nominal_epochs": epochs, "nominal_len": slack_nom.len(), "spare_cycles_per_group": 2 * n_faults, "faults_per_run": n_faults,
            "fault_combinations": combos, "runs": jobs.len(), "publications_in_uninterrupted_run": base.published.len()}));
    }
    // (c') transient aggregator faults that last one (thorough: also two) state-machine cycle(s): the
    // block [fault on, Tick.., fault off] brings its own cycles, so wherever it is inserted the
    // uninterrupted schedule still has every cycle it had and the acknowledged publications must be
    // the same: a registration refused or lost once must be repeated (with keys the aggregator then
    // knows), a beacon met while the aggregator was away must be signed afterwards.
    {
        let epochs = ctx.tier.pick(4, 5);
        let slack_nom = nominal(epochs, 2);
        let base = replay(&scratch, &fixture, &slack_nom, Tail::Never);
        let mut blocks: Vec<Vec<Ev>> = vec![
            vec![Ev::RoundClosed, Ev::Tick, Ev::RoundOpen],
            vec![Ev::AggDown, Ev::Tick, Ev::AggUp],
            vec![Ev::StaleOn, Ev::Tick, Ev::StaleOff],
            vec![Ev::RegisterAckLost],
        ];
        if !quick {
            blocks.push(vec![Ev::RoundClosed, Ev::Tick, Ev::Tick, Ev::RoundOpen]);
            blocks.push(vec![Ev::AggDown, Ev::Tick, Ev::Tick, Ev::AggUp]);
            blocks.push(vec![Ev::RoundClosed, Ev::Tick, Ev::Restart, Ev::RoundOpen]);
            blocks.push(vec![Ev::AggDown, Ev::Tick, Ev::Restart, Ev::AggUp]);
            blocks.push(vec![Ev::RegisterAckLost, Ev::Tick, Ev::Restart]);
        }
        let mut jobs: Vec<Vec<Ev>> = vec![];
        for b in &blocks {
            for p in 0..=slack_nom.len() {
                let mut h = slack_nom[..p].to_vec();
                h.extend(b.iter().copied());
                h.extend(slack_nom[p..].iter().copied());
                jobs.push(h);
            }
        }
        let res = mc_core::par_map(&jobs, ctx.threads(), |_, h| {
            let mut part = Report::new("model_checking", "");
            let o = differential(h, &base.published, &slack_nom, &mut part);
            add_stats(&o);
            (o, part)
        });
        eprintln!("[C20] differential (transient faults, {epochs} epochs): {} runs, {:.1}s so far", jobs.len(), ctx.elapsed_s());
        for (o, part) in res {
            n_diff += 1;
            rep.eval();
            rep.outcome(&format!("differential-transient:{}", if o.published == base.published { "same-published-set" } else { "DIFFERENT" }));
            rep.nontrivial(&o.result.canon);
            diff_states.insert(o.result.canon.clone());
            for v in o.result.violations {
                rep.push_violation(v);
            }
            for v in part.violations {
                rep.push_violation(v);
            }
        }
        diff_extra.push(json!({"nominal_epochs": epochs, "nominal_len": slack_nom.len(), "spare_cycles_per_group": 2, "transient_fault_blocks": blocks,
            "runs": jobs.len(), "publications_in_uninterrupted_run": base.published.len()}));
    }
    rep.states = Some(rep.states.unwrap_or(0) + diff_states.len() as u64);
    rep.transitions = Some(rep.transitions.unwrap_or(0) + n_diff);
    rep.traces_validated = Some(rep.traces_validated.unwrap_or(0) + n_diff);
    rep.extra("differential", json!(diff_extra));

    for (k, v) in stats.lock().unwrap().iter() {
        rep.extra(k, json!(v));
    }
    rep.extra("reference_offsets", json!({"recorded_for": "e+1", "signs_in": "e+2"}));
    rep.assume("the Cardano node (chain observer, immutable file observer, block scanner, immutable digester) is replaced by the repository's own test doubles; the aggregator by the harness reference aggregator called in process (no HTTP, no message adapters)");
    rep.assume("reference rule: keys registered during epoch e, the stake distribution the chain showed during e and the parameters handed out during e are in force in e+2; a repeated registration in the same epoch replaces the earlier one");
    rep.assume("the aggregator's clock is the signer's node epoch plus a skew of 0 or 1 (AggAhead / NodeCatchUp), or minus 1 after an epoch turn only the node has noticed; a publication is judged by the epoch of the signed entity; while its node is behind an honest signer may be unable to register or sign - only wrong publications count then, liveness only after the node has caught up and faults are cleared");
    rep.assume("two worlds: every pool's stake changes each epoch (all parts but the aggregator-ahead windows), or the stake of the pool under test is constant and only the others' change (the windows); protocol parameters change every epoch in both");
    rep.assume("epoch changes (with the new stake distribution) happen between cycles or right after any query the signer makes to its Cardano node inside a cycle (TickTurn); the other chain events (new immutable file, new blocks) and all aggregator-side faults and clock moves happen between cycles only: an aggregator answer is never separated from the aggregator state it was computed from");
    rep.assume("classifier keys of violations that follow an epoch turn inside a cycle carry a diagnosis suffix computed by the harness from the node's stores (stake distribution stored for another epoch / registered state of one epoch on the data of another); the suffix never creates or removes a violation");
    rep.assume("the node draws its keys from the OS random generator: signatures differ between runs, canonical states record only which keys exist and whether signer and aggregator agree on them; the signer under test holds ~3/4 of the stake and the reference parameters are m>=30, phi_f>=0.8, so it wins at least one lottery except with probability < 1e-15 per signature");
    rep.assume("only acknowledged publications count for 'at most once'; a further publication after an unacknowledged one is legitimate");
    rep.finish(ctx)
}
