//! Worker-subprocess runner: sweeps whose subject may abort the whole process (allocation
//! failure, stack overflow, `abort()`) run in child processes. Each child handles the indices
//! `start, start+W, start+2W, …` of an enumerated space, publishes the index it is about to
//! process in a progress file (tmpfs), and prints result lines. When a child dies the parent
//! attributes the death to the published index, records it, and restarts the child after it.

use crate::Ctx;
use std::alloc::{GlobalAlloc, Layout, System};
use std::io::Write;
use std::os::unix::fs::FileExt;
use std::path::PathBuf;
use std::process::{Command, Stdio};
use std::sync::atomic::{AtomicU64, AtomicUsize, Ordering};

/// Global allocator that remembers the largest single request since the last reset and refuses
/// (returns null ⇒ the process aborts, which the parent attributes) requests above a hard cap.
pub struct CountingAlloc;

pub static MAX_REQUEST: AtomicUsize = AtomicUsize::new(0);
pub static HARD_CAP: AtomicUsize = AtomicUsize::new(usize::MAX);

unsafe impl GlobalAlloc for CountingAlloc {
    unsafe fn alloc(&self, l: Layout) -> *mut u8 {
        let s = l.size();
        if s > MAX_REQUEST.load(Ordering::Relaxed) {
            MAX_REQUEST.fetch_max(s, Ordering::Relaxed);
        }
        if s > HARD_CAP.load(Ordering::Relaxed) {
            return std::ptr::null_mut();
        }
        unsafe { System.alloc(l) }
    }
    unsafe fn dealloc(&self, p: *mut u8, l: Layout) {
        unsafe { System.dealloc(p, l) }
    }
    unsafe fn alloc_zeroed(&self, l: Layout) -> *mut u8 {
        let s = l.size();
        if s > MAX_REQUEST.load(Ordering::Relaxed) {
            MAX_REQUEST.fetch_max(s, Ordering::Relaxed);
        }
        if s > HARD_CAP.load(Ordering::Relaxed) {
            return std::ptr::null_mut();
        }
        unsafe { System.alloc_zeroed(l) }
    }
    unsafe fn realloc(&self, p: *mut u8, l: Layout, new: usize) -> *mut u8 {
        if new > MAX_REQUEST.load(Ordering::Relaxed) {
            MAX_REQUEST.fetch_max(new, Ordering::Relaxed);
        }
        if new > HARD_CAP.load(Ordering::Relaxed) {
            return std::ptr::null_mut();
        }
        unsafe { System.realloc(p, l, new) }
    }
}

pub fn reset_max_request() {
    MAX_REQUEST.store(0, Ordering::Relaxed);
}
pub fn max_request() -> usize {
    MAX_REQUEST.load(Ordering::Relaxed)
}

#[derive(Clone, Debug)]
pub struct WorkerArgs {
    pub sweep: String,
    pub w: u64,
    pub nworkers: u64,
    pub start: u64,
    pub progress: PathBuf,
}

static CUR_INDEX: AtomicU64 = AtomicU64::new(u64::MAX);
static CUR_SINCE_MS: AtomicU64 = AtomicU64::new(0);

/// monotonic milliseconds since the first call (a wall-clock step must not look like a hang)
fn now_ms() -> u64 {
    static START: std::sync::OnceLock<std::time::Instant> = std::sync::OnceLock::new();
    START.get_or_init(std::time::Instant::now).elapsed().as_millis() as u64 + 1
}

impl WorkerArgs {
    /// `--worker <sweep> <w> <nworkers> <start> <progress file>` among the extra args
    pub fn parse(ctx: &Ctx) -> Option<WorkerArgs> {
        let a = &ctx.extra_args;
        let p = a.iter().position(|x| x == "--worker")?;
        Some(WorkerArgs {
            sweep: a.get(p + 1)?.clone(),
            w: a.get(p + 2)?.parse().ok()?,
            nworkers: a.get(p + 3)?.parse().ok()?,
            start: a.get(p + 4)?.parse().ok()?,
            progress: PathBuf::from(a.get(p + 5)?),
        })
    }

    /// Drive the worker loop. `item(i)` processes index i and may return a line to report.
    /// `per_item_timeout_ms`: a watchdog aborts the process when one item takes longer.
    pub fn run(&self, total: u64, per_item_timeout_ms: u64, mut item: impl FnMut(u64) -> Option<String>) -> ! {
        let f = std::fs::OpenOptions::new()
            .write(true)
            .create(true)
            .truncate(false)
            .open(&self.progress)
            .expect("progress file");
        std::thread::spawn(move || {
            loop {
                std::thread::sleep(std::time::Duration::from_millis(200));
                let since = CUR_SINCE_MS.load(Ordering::Relaxed);
                if since != 0 && now_ms().saturating_sub(since) > per_item_timeout_ms {
                    // mark as hang: the parent distinguishes by exit path
                    eprintln!("watchdog: item {} exceeded {} ms", CUR_INDEX.load(Ordering::Relaxed), per_item_timeout_ms);
                    std::process::exit(97);
                }
            }
        });
        let out = std::io::stdout();
        let mut i = self.start;
        let mut done = 0u64;
        while i < total {
            let _ = f.write_at(&i.to_le_bytes(), 0);
            CUR_INDEX.store(i, Ordering::Relaxed);
            CUR_SINCE_MS.store(now_ms(), Ordering::Relaxed);
            if let Some(line) = item(i) {
                let mut o = out.lock();
                let _ = writeln!(o, "R {i} {line}");
                let _ = o.flush();
            }
            done += 1;
            i += self.nworkers;
        }
        CUR_SINCE_MS.store(0, Ordering::Relaxed);
        let _ = f.write_at(&u64::MAX.to_le_bytes(), 0);
        let mut o = out.lock();
        let _ = writeln!(o, "DONE {done}");
        let _ = o.flush();
        std::process::exit(0);
    }
}

#[derive(Clone, Debug)]
pub struct WorkerDeath {
    pub index: u64,
    /// "signal 6", "exit 97 (hang)", …
    pub status: String,
    pub stderr_tail: String,
}

pub struct SweepResult {
    /// (index, line) pairs reported by workers
    pub lines: Vec<(u64, String)>,
    pub deaths: Vec<WorkerDeath>,
    pub processed: u64,
}

/// Parent side: run `total` indices of sweep `sweep` over `nworkers` child processes.
pub fn run_sweep(ctx: &Ctx, sweep: &str, total: u64, nworkers: u64, max_deaths: usize) -> SweepResult {
    let exe = std::env::current_exe().expect("current_exe");
    let scratch = ctx.scratch();
    let results: Vec<SweepResult> = std::thread::scope(|s| {
        let hs: Vec<_> = (0..nworkers)
            .map(|w| {
                let exe = exe.clone();
                let scratch = scratch.clone();
                s.spawn(move || {
                    let mut res = SweepResult { lines: vec![], deaths: vec![], processed: 0 };
                    let progress = scratch.join(format!("progress-{sweep}-{w}"));
                    let mut start = w;
                    while start < total {
                        let _ = std::fs::write(&progress, u64::MAX.to_le_bytes());
                        let out = Command::new(&exe)
                            .arg(&ctx.property)
                            .arg(ctx.tier.as_str())
                            .arg("--worker")
                            .arg(sweep)
                            .arg(w.to_string())
                            .arg(nworkers.to_string())
                            .arg(start.to_string())
                            .arg(&progress)
                            .stdin(Stdio::null())
                            .stdout(Stdio::piped())
                            .stderr(Stdio::piped())
                            .output()
                            .expect("spawn worker");
                        let stdout = String::from_utf8_lossy(&out.stdout);
                        let mut finished = false;
                        for l in stdout.lines() {
                            if let Some(rest) = l.strip_prefix("R ") {
                                if let Some((i, line)) = rest.split_once(' ') {
                                    res.lines.push((i.parse().unwrap_or(u64::MAX), line.to_string()));
                                }
                            } else if let Some(n) = l.strip_prefix("DONE ") {
                                res.processed += n.parse::<u64>().unwrap_or(0);
                                finished = true;
                            }
                        }
                        if finished && out.status.success() {
                            break;
                        }
                        // child died: which index?
                        let idx = std::fs::read(&progress)
                            .ok()
                            .and_then(|b| b.get(..8).map(|x| u64::from_le_bytes(x.try_into().unwrap())))
                            .unwrap_or(u64::MAX);
                        use std::os::unix::process::ExitStatusExt;
                        let status = if let Some(sig) = out.status.signal() {
                            format!("signal {sig}")
                        } else if out.status.code() == Some(97) {
                            "hang (watchdog)".to_string()
                        } else {
                            format!("exit {:?}", out.status.code())
                        };
                        let stderr = String::from_utf8_lossy(&out.stderr);
                        let tail: String = stderr.lines().rev().take(4).collect::<Vec<_>>().into_iter().rev().collect::<Vec<_>>().join(" | ");
                        if idx == u64::MAX || idx < start {
                            // died outside an item: machinery problem, stop this worker
                            res.deaths.push(WorkerDeath { index: u64::MAX, status, stderr_tail: tail });
                            break;
                        }
                        res.processed += (idx - start) / nworkers + 1;
                        res.deaths.push(WorkerDeath { index: idx, status, stderr_tail: tail });
                        if res.deaths.len() >= max_deaths {
                            break;
                        }
                        start = idx + nworkers;
                    }
                    res
                })
            })
            .collect();
        hs.into_iter().map(|h| h.join().expect("sweep thread")).collect()
    });
    let mut all = SweepResult { lines: vec![], deaths: vec![], processed: 0 };
    for r in results {
        all.lines.extend(r.lines);
        all.deaths.extend(r.deaths);
        all.processed += r.processed;
    }
    all.lines.sort();
    all.deaths.sort_by_key(|d| d.index);
    all
}
