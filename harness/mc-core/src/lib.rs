//! mc-core: shared engine pieces of the /verif model-checking harness.
//!
//! * [`Ctx`]       — command line / environment of one check run
//! * [`Report`]    — evidence counters, violations, known-finding classification, exit code
//! * [`par_map`]   — deterministic parallel map over an enumerated space
//! * [`explore`]   — explicit-state exploration by replay (depth-bounded BFS with canonical
//!                   state de-duplication, and deviation balls around a nominal schedule)
//! * [`isolate`]   — worker-subprocess runner for sweeps whose subject may abort the process

use serde_json::{Value, json};
use std::collections::{BTreeMap, HashSet};
use std::hash::{Hash, Hasher};
use std::path::PathBuf;
use std::time::Instant;

pub mod explore;
pub mod isolate;

#[derive(Clone, Copy, Debug, PartialEq, Eq)]
pub enum Tier {
    Quick,
    Thorough,
}

impl Tier {
    pub fn as_str(&self) -> &'static str {
        match self {
            Tier::Quick => "quick",
            Tier::Thorough => "thorough",
        }
    }
    /// pick by tier
    pub fn pick<T>(&self, quick: T, thorough: T) -> T {
        match self {
            Tier::Quick => quick,
            Tier::Thorough => thorough,
        }
    }
}

/// Everything a check binary learns from its invocation:
/// `<bin> <property> <quick|thorough> [--replay <file>] [--worker …]`
pub struct Ctx {
    pub property: String,
    pub tier: Tier,
    pub seed: u64,
    pub replay: Option<PathBuf>,
    pub verif_dir: PathBuf,
    pub start: Instant,
    pub extra_args: Vec<String>,
}

impl Ctx {
    pub fn from_args() -> Ctx {
        let args: Vec<String> = std::env::args().collect();
        if args.len() < 3 {
            eprintln!("usage: {} <property> <quick|thorough> [--replay <file>]", args[0]);
            std::process::exit(2);
        }
        let tier = match args[2].as_str() {
            "quick" => Tier::Quick,
            "thorough" => Tier::Thorough,
            other => {
                eprintln!("unknown tier {other}");
                std::process::exit(2);
            }
        };
        let mut replay = None;
        let mut extra = vec![];
        let mut i = 3;
        while i < args.len() {
            if args[i] == "--replay" && i + 1 < args.len() {
                replay = Some(PathBuf::from(&args[i + 1]));
                i += 2;
            } else {
                extra.push(args[i].clone());
                i += 1;
            }
        }
        let seed = std::env::var("VERIF_SEED")
            .ok()
            .and_then(|s| s.trim().parse::<u64>().ok())
            .unwrap_or(0);
        let verif_dir = PathBuf::from(std::env::var("VERIF_DIR").unwrap_or_else(|_| "/verif".into()));
        Ctx {
            property: args[1].clone(),
            tier,
            seed,
            replay,
            verif_dir,
            start: Instant::now(),
            extra_args: extra,
        }
    }

    pub fn threads(&self) -> usize {
        std::env::var("VERIF_THREADS")
            .ok()
            .and_then(|s| s.parse().ok())
            .unwrap_or_else(|| std::thread::available_parallelism().map(|n| n.get()).unwrap_or(4))
    }

    pub fn elapsed_s(&self) -> f64 {
        self.start.elapsed().as_secs_f64()
    }

    /// scratch directory on tmpfs, unique per process; removed by [`Report::finish`]
    pub fn scratch(&self) -> PathBuf {
        let base = if std::path::Path::new("/dev/shm").is_dir() { "/dev/shm" } else { "/tmp" };
        let p = PathBuf::from(format!("{}/mc-{}-{}", base, self.property, std::process::id()));
        std::fs::create_dir_all(&p).expect("scratch dir");
        p
    }
}

#[derive(Clone, Debug)]
pub struct Violation {
    /// classifier key: names the failing call site / input class (stable across runs)
    pub key: String,
    pub what: String,
    /// everything needed to re-run this one case
    pub replay: Value,
}

pub fn hash64<T: Hash + ?Sized>(t: &T) -> u64 {
    // FNV-1a over the std Hash stream: stable across runs (no random keys)
    struct Fnv(u64);
    impl Hasher for Fnv {
        fn finish(&self) -> u64 {
            self.0
        }
        fn write(&mut self, bytes: &[u8]) {
            for b in bytes {
                self.0 ^= *b as u64;
                self.0 = self.0.wrapping_mul(0x100000001b3);
            }
        }
    }
    let mut h = Fnv(0xcbf29ce484222325);
    t.hash(&mut h);
    h.finish()
}

/// splitmix64 — for order permutation only, never for choosing *what* is enumerated
pub fn mix(seed: u64, i: u64) -> u64 {
    let mut z = seed.wrapping_add(i.wrapping_mul(0x9E3779B97F4A7C15)).wrapping_add(0x9E3779B97F4A7C15);
    z = (z ^ (z >> 30)).wrapping_mul(0xBF58476D1CE4E5B9);
    z = (z ^ (z >> 27)).wrapping_mul(0x94D049BB133111EB);
    z ^ (z >> 31)
}

pub struct Report {
    pub level: &'static str,
    pub rule: String,
    pub evaluations: u64,
    pub nontrivial: HashSet<u64>,
    pub samples: Vec<Value>,
    pub max_samples: usize,
    pub states: Option<u64>,
    pub transitions: Option<u64>,
    pub traces_validated: Option<u64>,
    pub exhaustive: bool,
    pub extras: BTreeMap<String, Value>,
    pub assumptions: Vec<String>,
    pub violations: Vec<Violation>,
    pub outcomes: BTreeMap<String, u64>,
    pub machinery_errors: Vec<String>,
    /// occurrences per classifier key (only the first few per key are kept in `violations`)
    pub violation_counts: BTreeMap<String, u64>,
}

impl Report {
    pub fn new(level: &'static str, rule: &str) -> Report {
        Report {
            level,
            rule: rule.to_string(),
            evaluations: 0,
            nontrivial: HashSet::new(),
            samples: vec![],
            max_samples: 6,
            states: None,
            transitions: None,
            traces_validated: None,
            exhaustive: true,
            extras: BTreeMap::new(),
            assumptions: vec![],
            violations: vec![],
            outcomes: BTreeMap::new(),
            machinery_errors: vec![],
            violation_counts: BTreeMap::new(),
        }
    }

    pub fn eval(&mut self) {
        self.evaluations += 1;
    }
    /// count one case as distinct & non-trivial; `canon` identifies the case
    pub fn nontrivial<T: Hash + ?Sized>(&mut self, canon: &T) {
        self.nontrivial.insert(hash64(canon));
    }
    pub fn outcome(&mut self, name: &str) {
        *self.outcomes.entry(name.to_string()).or_insert(0) += 1;
    }
    pub fn outcome_n(&mut self, name: &str, n: u64) {
        *self.outcomes.entry(name.to_string()).or_insert(0) += n;
    }
    pub fn sample(&mut self, v: Value) {
        if self.samples.len() < self.max_samples {
            self.samples.push(v);
        }
    }
    pub fn extra(&mut self, k: &str, v: Value) {
        self.extras.insert(k.to_string(), v);
    }
    pub fn add_extra(&mut self, k: &str, n: u64) {
        let cur = self.extras.get(k).and_then(|v| v.as_u64()).unwrap_or(0);
        self.extras.insert(k.to_string(), json!(cur + n));
    }
    pub fn assume(&mut self, s: &str) {
        self.assumptions.push(s.to_string());
    }
    pub fn violation(&mut self, key: &str, what: String, replay: Value) {
        self.push_violation(Violation { key: key.to_string(), what, replay });
    }
    pub fn push_violation(&mut self, v: Violation) {
        let c = self.violation_counts.entry(v.key.clone()).or_insert(0);
        *c += 1;
        if *c <= 6 {
            self.violations.push(v);
        }
    }
    pub fn machinery_error(&mut self, s: String) {
        self.machinery_errors.push(s);
    }

    /// merge another (per-thread / per-part) report into this one
    pub fn merge(&mut self, o: Report) {
        self.evaluations += o.evaluations;
        self.nontrivial.extend(o.nontrivial);
        for s in o.samples {
            self.sample(s);
        }
        if let Some(s) = o.states {
            self.states = Some(self.states.unwrap_or(0) + s);
        }
        if let Some(s) = o.transitions {
            self.transitions = Some(self.transitions.unwrap_or(0) + s);
        }
        if let Some(s) = o.traces_validated {
            self.traces_validated = Some(self.traces_validated.unwrap_or(0) + s);
        }
        self.exhaustive &= o.exhaustive;
        for (k, v) in o.extras {
            match (self.extras.get(&k).and_then(|x| x.as_u64()), v.as_u64()) {
                (Some(a), Some(b)) => {
                    self.extras.insert(k, json!(a + b));
                }
                _ => {
                    self.extras.insert(k, v);
                }
            }
        }
        for a in o.assumptions {
            if !self.assumptions.contains(&a) {
                self.assumptions.push(a);
            }
        }
        for v in o.violations {
            let kept = self.violations.iter().filter(|x| x.key == v.key).count();
            if kept < 6 {
                self.violations.push(v);
            }
        }
        for (k, v) in o.violation_counts {
            *self.violation_counts.entry(k).or_insert(0) += v;
        }
        for (k, v) in o.outcomes {
            *self.outcomes.entry(k).or_insert(0) += v;
        }
        self.machinery_errors.extend(o.machinery_errors);
    }

    /// Writes evidence + replay files, prints KNOWN-FINDING / VIOLATION lines, exits.
    /// exit 0: property held on everything explored (known findings included)
    /// exit 1: at least one violation not listed as known
    /// exit 2: the machinery itself failed — no verdict
    pub fn finish(mut self, ctx: &Ctx) -> ! {
        let known = load_known(ctx);
        // group violations by key, keep order of first appearance
        let mut by_key: Vec<(String, Vec<Violation>)> = vec![];
        for v in self.violations.drain(..) {
            if let Some(e) = by_key.iter_mut().find(|(k, _)| *k == v.key) {
                e.1.push(v);
            } else {
                by_key.push((v.key.clone(), vec![v]));
            }
        }
        let mut unknown = 0u64;
        let mut known_hits = 0u64;
        let counts = self.violation_counts.clone();
        let count_of = |key: &str, kept: usize| counts.get(key).copied().unwrap_or(0).max(kept as u64);
        let mut lines = vec![];
        let replay_dir = ctx.verif_dir.join("replays").join(&ctx.property);
        for (key, vs) in &by_key {
            let is_known = known
                .iter()
                .any(|k| k.property == ctx.property && &k.key == key && k.status == "known");
            if is_known {
                known_hits += count_of(key, vs.len());
                lines.push(format!(
                    "KNOWN-FINDING: property={} key={} occurrences={} first: {}",
                    ctx.property,
                    key,
                    count_of(key, vs.len()),
                    one_line(&vs[0].what)
                ));
            } else {
                unknown += count_of(key, vs.len());
                let _ = std::fs::create_dir_all(&replay_dir);
                let fname = format!("{}.json", sanitize(key));
                let path = replay_dir.join(fname);
                let doc = json!({
                    "property": ctx.property,
                    "key": key,
                    "tier": ctx.tier.as_str(),
                    "part": std::env::var("VERIF_PART").ok(),
                    "occurrences": count_of(key, vs.len()),
                    "what": vs[0].what,
                    "replay": vs[0].replay,
                    "more": vs.iter().skip(1).take(4).map(|v| json!({"what": v.what, "replay": v.replay})).collect::<Vec<_>>(),
                    "how_to_rerun": format!("cd /verif && ./check {} {} --replay {}", ctx.property, ctx.tier.as_str(), path.display()),
                });
                // a --replay run re-reports what it reproduces but never overwrites the stored counterexamples
                if ctx.replay.is_none() {
                    let _ = std::fs::write(&path, serde_json::to_string_pretty(&doc).unwrap());
                }
                eprintln!("violation key={} ({} occurrences): {}", key, count_of(key, vs.len()), one_line(&vs[0].what));
                lines.push(format!("VIOLATION property={} replay={}", ctx.property, path.display()));
            }
        }

        let distinct = self.nontrivial.len() as u64;
        let mut coverage = serde_json::Map::new();
        coverage.insert("evaluations".into(), json!(self.evaluations));
        coverage.insert("distinct_nontrivial".into(), json!(distinct));
        coverage.insert("rule".into(), json!(self.rule));
        coverage.insert("samples".into(), Value::Array(self.samples.clone()));
        coverage.insert("exhaustive".into(), json!(self.exhaustive));
        if let Some(s) = self.states {
            coverage.insert("states".into(), json!(s));
        }
        if let Some(s) = self.transitions {
            coverage.insert("transitions".into(), json!(s));
        }
        if let Some(s) = self.traces_validated {
            coverage.insert("traces_validated_against_impl".into(), json!(s));
        }
        coverage.insert("outcomes".into(), json!(self.outcomes));
        coverage.insert("distinct_outcomes".into(), json!(self.outcomes.len()));
        coverage.insert("known_finding_occurrences".into(), json!(known_hits));
        for (k, v) in &self.extras {
            coverage.insert(k.clone(), v.clone());
        }
        let ev = json!({
            "property_id": ctx.property,
            "tier": ctx.tier.as_str(),
            "seed": ctx.seed,
            "level": self.level,
            "coverage": Value::Object(coverage),
            "assumptions": self.assumptions,
            "wall_s": (ctx.elapsed_s() * 1000.0).round() / 1000.0,
            "violations": unknown,
        });
        let ev = if std::env::var("VERIF_EVIDENCE_MERGE").as_deref() == Ok("1") && ctx.replay.is_none() {
            merge_evidence(ctx, ev)
        } else {
            ev
        };
        if ctx.replay.is_none() {
            let evdir = ctx.verif_dir.join("evidence");
            let _ = std::fs::create_dir_all(&evdir);
            let path = evdir.join(format!("{}.json", ctx.property));
            if let Err(e) = std::fs::write(&path, serde_json::to_string_pretty(&ev).unwrap() + "\n") {
                eprintln!("cannot write evidence {}: {e}", path.display());
                std::process::exit(2);
            }
        }
        let scratch = ctx.scratch();
        let _ = std::fs::remove_dir_all(&scratch);

        for l in &lines {
            println!("{l}");
        }
        eprintln!(
            "[{}] {} tier={} evaluations={} distinct_nontrivial={} exhaustive={} outcomes={:?} wall={:.1}s",
            ctx.property,
            self.level,
            ctx.tier.as_str(),
            self.evaluations,
            distinct,
            self.exhaustive,
            self.outcomes,
            ctx.elapsed_s()
        );
        // A violation that is not a listed finding is a concrete, replayable counterexample: it
        // decides the run (exit 1) even when a self-check of the harness also failed - on a changed
        // tree the failed self-check is usually a consequence of the same change. Without such a
        // violation a failed self-check means "no verdict" (exit 2).
        for e in &self.machinery_errors {
            eprintln!("MACHINERY-ERROR: {e}");
        }
        if unknown > 0 {
            std::process::exit(1);
        }
        if !self.machinery_errors.is_empty() {
            std::process::exit(2);
        }
        if self.evaluations == 0 || distinct < 2 {
            eprintln!("MACHINERY-ERROR: vacuous run (evaluations={}, distinct_nontrivial={})", self.evaluations, distinct);
            std::process::exit(2);
        }
        std::process::exit(0);
    }
}

/// A property served by several binaries (parts): the later parts add what they covered to the
/// evidence file the first part wrote.
fn merge_evidence(ctx: &Ctx, new: Value) -> Value {
    let path = ctx.verif_dir.join("evidence").join(format!("{}.json", ctx.property));
    let Ok(txt) = std::fs::read_to_string(&path) else {
        return new;
    };
    let Ok(mut old) = serde_json::from_str::<Value>(&txt) else {
        return new;
    };
    let part = std::env::var("VERIF_PART").unwrap_or_else(|_| "part".into());
    let add = |a: &Value, b: &Value| json!(a.as_u64().unwrap_or(0) + b.as_u64().unwrap_or(0));
    let nc = new["coverage"].clone();
    {
        let oc = old["coverage"].as_object_mut().expect("coverage object");
        for k in ["evaluations", "distinct_nontrivial", "known_finding_occurrences"] {
            let v = add(oc.get(k).unwrap_or(&Value::Null), &nc[k]);
            oc.insert(k.to_string(), v);
        }
        for k in ["states", "transitions", "traces_validated_against_impl"] {
            if oc.contains_key(k) || !nc[k].is_null() {
                let v = add(oc.get(k).unwrap_or(&Value::Null), &nc[k]);
                oc.insert(k.to_string(), v);
            }
        }
        let ex = oc.get("exhaustive").and_then(|v| v.as_bool()).unwrap_or(true) && nc["exhaustive"].as_bool().unwrap_or(true);
        oc.insert("exhaustive".into(), json!(ex));
        let rule = format!("{} || [{part}] {}", oc.get("rule").and_then(|v| v.as_str()).unwrap_or(""), nc["rule"].as_str().unwrap_or(""));
        oc.insert("rule".into(), json!(rule));
        let mut samples = oc.get("samples").and_then(|v| v.as_array()).cloned().unwrap_or_default();
        samples.extend(nc["samples"].as_array().cloned().unwrap_or_default());
        oc.insert("samples".into(), Value::Array(samples));
        let mut outcomes = oc.get("outcomes").and_then(|v| v.as_object()).cloned().unwrap_or_default();
        for (k, v) in nc["outcomes"].as_object().cloned().unwrap_or_default() {
            outcomes.insert(format!("{part}:{k}"), v);
        }
        oc.insert("distinct_outcomes".into(), json!(outcomes.len()));
        oc.insert("outcomes".into(), Value::Object(outcomes));
        oc.insert(format!("part:{part}"), nc.clone());
    }
    let mut assumptions = old["assumptions"].as_array().cloned().unwrap_or_default();
    for a in new["assumptions"].as_array().cloned().unwrap_or_default() {
        if !assumptions.contains(&a) {
            assumptions.push(a);
        }
    }
    old["assumptions"] = Value::Array(assumptions);
    old["wall_s"] = json!(old["wall_s"].as_f64().unwrap_or(0.0) + new["wall_s"].as_f64().unwrap_or(0.0));
    old["violations"] = add(&old["violations"], &new["violations"]);
    old
}

fn one_line(s: &str) -> String {
    let s: String = s.chars().map(|c| if c == '\n' { ' ' } else { c }).collect();
    if s.len() > 300 { format!("{}…", &s[..s.char_indices().take(300).last().map(|x| x.0).unwrap_or(0)]) } else { s }
}

fn sanitize(s: &str) -> String {
    s.chars()
        .map(|c| if c.is_ascii_alphanumeric() || c == '-' || c == '_' || c == '.' { c } else { '_' })
        .collect()
}

pub struct Known {
    pub property: String,
    pub key: String,
    pub status: String,
}

fn load_known(ctx: &Ctx) -> Vec<Known> {
    let path = ctx.verif_dir.join("known_findings.json");
    let Ok(txt) = std::fs::read_to_string(&path) else {
        return vec![];
    };
    let Ok(v) = serde_json::from_str::<Value>(&txt) else {
        eprintln!("MACHINERY-ERROR: known_findings.json does not parse");
        std::process::exit(2);
    };
    let mut out = vec![];
    if let Some(arr) = v.get("findings").and_then(|a| a.as_array()) {
        for e in arr {
            out.push(Known {
                property: e["property"].as_str().unwrap_or("").to_string(),
                key: e["key"].as_str().unwrap_or("").to_string(),
                status: e["status"].as_str().unwrap_or("").to_string(),
            });
        }
    }
    out
}

/// Load the `replay` value of a replay file written by [`Report::finish`].
pub fn load_replay(path: &std::path::Path) -> Value {
    let txt = std::fs::read_to_string(path).unwrap_or_else(|e| {
        eprintln!("cannot read replay file {}: {e}", path.display());
        std::process::exit(2)
    });
    let v: Value = serde_json::from_str(&txt).unwrap_or_else(|e| {
        eprintln!("replay file does not parse: {e}");
        std::process::exit(2)
    });
    v.get("replay").cloned().unwrap_or(v)
}

/// Deterministic parallel map: results are returned in input order whatever the thread count.
pub fn par_map<I, O, F>(items: &[I], threads: usize, f: F) -> Vec<O>
where
    I: Sync,
    O: Send,
    F: Fn(usize, &I) -> O + Sync,
{
    use std::sync::atomic::{AtomicUsize, Ordering};
    let next = AtomicUsize::new(0);
    let n = items.len();
    let threads = threads.max(1).min(n.max(1));
    let mut slots: Vec<Option<O>> = (0..n).map(|_| None).collect();
    let chunks: Vec<Vec<(usize, O)>> = std::thread::scope(|s| {
        let hs: Vec<_> = (0..threads)
            .map(|_| {
                s.spawn(|| {
                    let mut out = vec![];
                    loop {
                        let i = next.fetch_add(1, Ordering::Relaxed);
                        if i >= n {
                            break;
                        }
                        out.push((i, f(i, &items[i])));
                    }
                    out
                })
            })
            .collect();
        hs.into_iter().map(|h| h.join().expect("worker thread panicked")).collect()
    });
    for c in chunks {
        for (i, o) in c {
            slots[i] = Some(o);
        }
    }
    slots.into_iter().map(|o| o.unwrap()).collect()
}

/// Run `f`, turning a panic into `Err(message)`. The default panic hook is silenced while
/// sweeps run (see [`quiet_panics`]).
pub fn catch<T>(f: impl FnOnce() -> T) -> Result<T, String> {
    match std::panic::catch_unwind(std::panic::AssertUnwindSafe(f)) {
        Ok(v) => Ok(v),
        Err(e) => Err(if let Some(s) = e.downcast_ref::<&str>() {
            s.to_string()
        } else if let Some(s) = e.downcast_ref::<String>() {
            s.clone()
        } else {
            "panic (non-string payload)".to_string()
        }),
    }
}

/// Replace the panic hook by one that records location only into a thread-local (no stderr spam).
pub fn quiet_panics() {
    std::panic::set_hook(Box::new(|info| {
        let loc = info.location().map(|l| format!("{}:{}", l.file(), l.line())).unwrap_or_default();
        if std::env::var_os("VERIF_LOUD_PANICS").is_some() {
            eprintln!("[panic] {loc} on thread {:?}: {}", std::thread::current().name(), info);
        }
        LAST_PANIC_LOC.with(|c| *c.borrow_mut() = loc);
    }));
}

thread_local! {
    pub static LAST_PANIC_LOC: std::cell::RefCell<String> = const { std::cell::RefCell::new(String::new()) };
}

pub fn last_panic_location() -> String {
    LAST_PANIC_LOC.with(|c| c.borrow().clone())
}

/// All subsets of `0..n` as bitmasks (n ≤ 20).
pub fn subsets(n: usize) -> impl Iterator<Item = u32> {
    assert!(n <= 20);
    0u32..(1u32 << n)
}

/// All permutations of `0..n` (Heap's algorithm), n ≤ 8.
pub fn permutations(n: usize) -> Vec<Vec<usize>> {
    assert!(n <= 8);
    let mut out = vec![];
    let mut a: Vec<usize> = (0..n).collect();
    fn rec(k: usize, a: &mut Vec<usize>, out: &mut Vec<Vec<usize>>) {
        if k <= 1 {
            out.push(a.clone());
            return;
        }
        for i in 0..k {
            rec(k - 1, a, out);
            if k % 2 == 0 {
                a.swap(i, k - 1);
            } else {
                a.swap(0, k - 1);
            }
        }
    }
    rec(n, &mut a, &mut out);
    out.sort();
    out.dedup();
    out
}

/// All sequences of length ≤ `max_len` over `0..alphabet` (shortest first, lexicographic).
pub fn sequences(alphabet: usize, max_len: usize) -> Vec<Vec<usize>> {
    let mut out = vec![vec![]];
    let mut frontier = vec![vec![]];
    for _ in 0..max_len {
        let mut next = vec![];
        for s in &frontier {
            for a in 0..alphabet {
                let mut t: Vec<usize> = s.clone();
                t.push(a);
                next.push(t);
            }
        }
        out.extend(next.iter().cloned());
        frontier = next;
    }
    out
}
