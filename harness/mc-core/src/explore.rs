//! Explicit-state exploration by replay.
//!
//! A state *is* the event history that reaches it: successors are produced by replaying the
//! history on a fresh instance of the real system and applying one more event. Histories that
//! reach the same canonical state are merged (only one representative is extended).

use crate::{Report, Violation, par_map};
use serde::Serialize;
use serde_json::json;
use std::collections::HashSet;
use std::fmt::Debug;
use std::time::{Duration, Instant};

#[derive(Clone, Debug, Default)]
pub struct RunResult {
    /// canonical form of the state reached (property-relevant, order-free)
    pub canon: String,
    pub violations: Vec<Violation>,
    /// this history exercised the behaviour the property is about
    pub nontrivial: bool,
    /// coarse label of what happened (for the distinct-outcomes vacuity counter)
    pub outcome: String,
    /// the last event was not applicable in the state reached (history is pruned)
    pub disabled: bool,
}

pub struct Explorer<'a, E> {
    pub threads: usize,
    pub budget: Option<Duration>,
    pub run: &'a (dyn Fn(&[E]) -> RunResult + Sync),
}

#[derive(Default, Debug)]
pub struct Stats {
    pub states: u64,
    pub transitions: u64,
    pub depth_completed: usize,
    pub capped: bool,
}

impl<'a, E: Clone + Debug + Send + Sync + Serialize> Explorer<'a, E> {
    /// Breadth-first exploration of all histories `prefix ++ s`, `s` over `alphabet`, |s| ≤ depth,
    /// for every prefix in `prefixes` (prepared non-initial states).
    pub fn bfs(&self, prefixes: &[Vec<E>], alphabet: &[E], depth: usize, rep: &mut Report) -> Stats {
        let t0 = Instant::now();
        let mut seen: HashSet<String> = HashSet::new();
        let mut stats = Stats::default();
        let mut frontier: Vec<Vec<E>> = vec![];
        // depth 0: the prefixes themselves
        let res = par_map(prefixes, self.threads, |_, h| (self.run)(h));
        for (h, r) in prefixes.iter().zip(res) {
            stats.transitions += 1;
            self.account(h, &r, rep);
            if seen.insert(r.canon.clone()) {
                stats.states += 1;
                frontier.push(h.clone());
            }
        }
        self.determinism_probe(prefixes.first(), rep);
        for d in 1..=depth {
            let mut cands: Vec<Vec<E>> = vec![];
            for h in &frontier {
                for e in alphabet {
                    let mut n = h.clone();
                    n.push(e.clone());
                    cands.push(n);
                }
            }
            if let Some(b) = self.budget
                && t0.elapsed() > b
            {
                stats.capped = true;
                break;
            }
            // run in slices so that a budget can stop between slices
            let mut next = vec![];
            let mut capped = false;
            for chunk in cands.chunks(self.threads * 8) {
                if let Some(b) = self.budget
                    && t0.elapsed() > b
                {
                    capped = true;
                    break;
                }
                let res = par_map(chunk, self.threads, |_, h| (self.run)(h));
                for (h, r) in chunk.iter().zip(res) {
                    if r.disabled {
                        continue;
                    }
                    stats.transitions += 1;
                    self.account(h, &r, rep);
                    if seen.insert(r.canon.clone()) {
                        stats.states += 1;
                        next.push(h.clone());
                    }
                }
            }
            if capped {
                stats.capped = true;
                break;
            }
            stats.depth_completed = d;
            if d == depth {
                self.determinism_probe(next.last().or(frontier.last()), rep);
            }
            frontier = next;
            if frontier.is_empty() {
                stats.depth_completed = depth;
                break;
            }
        }
        rep.states = Some(rep.states.unwrap_or(0) + stats.states);
        rep.transitions = Some(rep.transitions.unwrap_or(0) + stats.transitions);
        rep.traces_validated = Some(rep.traces_validated.unwrap_or(0) + stats.transitions);
        if stats.capped {
            rep.exhaustive = false;
        }
        stats
    }

    /// All histories within `bound` edits of `nominal`. `edit` enumerates the single edits of a
    /// history (insert / drop / duplicate / swap / fault …); it is applied `bound` times.
    pub fn ball(
        &self,
        nominal: &[E],
        edits: &(dyn Fn(&[E]) -> Vec<Vec<E>> + Sync),
        bound: usize,
        rep: &mut Report,
    ) -> Stats {
        let t0 = Instant::now();
        let mut stats = Stats::default();
        let key = |h: &Vec<E>| serde_json::to_string(h).unwrap();
        let mut seen_hist: HashSet<String> = HashSet::new();
        let mut seen_state: HashSet<String> = HashSet::new();
        let mut layer: Vec<Vec<E>> = vec![nominal.to_vec()];
        seen_hist.insert(key(&layer[0]));
        for b in 0..=bound {
            let mut capped = false;
            for chunk in layer.chunks(self.threads * 8) {
                if let Some(bu) = self.budget
                    && t0.elapsed() > bu
                {
                    capped = true;
                    break;
                }
                let res = par_map(chunk, self.threads, |_, h| (self.run)(h));
                for (h, r) in chunk.iter().zip(res) {
                    stats.transitions += 1;
                    self.account(h, &r, rep);
                    if seen_state.insert(r.canon.clone()) {
                        stats.states += 1;
                    }
                }
            }
            if capped {
                stats.capped = true;
                break;
            }
            stats.depth_completed = b;
            if b == 0 {
                self.determinism_probe(Some(&nominal.to_vec()), rep);
            }
            if b == bound {
                self.determinism_probe(layer.last(), rep);
                break;
            }
            let mut next = vec![];
            for h in &layer {
                for n in edits(h) {
                    if seen_hist.insert(key(&n)) {
                        next.push(n);
                    }
                }
            }
            layer = next;
        }
        rep.states = Some(rep.states.unwrap_or(0) + stats.states);
        rep.transitions = Some(rep.transitions.unwrap_or(0) + stats.transitions);
        rep.traces_validated = Some(rep.traces_validated.unwrap_or(0) + stats.transitions);
        if stats.capped {
            rep.exhaustive = false;
        }
        stats
    }

    fn account(&self, h: &[E], r: &RunResult, rep: &mut Report) {
        rep.eval();
        rep.outcome(&r.outcome);
        if r.nontrivial {
            rep.nontrivial(&r.canon);
            if rep.samples.len() < rep.max_samples && (rep.evaluations % 7 == 1 || rep.samples.is_empty()) {
                rep.sample(json!({"history": h, "outcome": r.outcome}));
            }
        }
        for v in &r.violations {
            rep.push_violation(v.clone());
        }
    }

    /// the same history replayed twice must reach the same canonical state
    fn determinism_probe(&self, h: Option<&Vec<E>>, rep: &mut Report) {
        if let Some(h) = h {
            let a = (self.run)(h);
            let b = (self.run)(h);
            if a.canon != b.canon {
                rep.machinery_error(format!(
                    "replay divergence: history {} reached two different canonical states:\n{}\n---\n{}",
                    serde_json::to_string(h).unwrap(),
                    a.canon,
                    b.canon
                ));
            }
            rep.add_extra("determinism_probes", 1);
        }
    }
}

/// The standard single-edit neighbourhood of a history: drop, duplicate, swap adjacent, and
/// insert any event of `ins` at any position ≥ `from`.
pub fn standard_edits<E: Clone>(h: &[E], ins: &[E], from: usize) -> Vec<Vec<E>> {
    let mut out = vec![];
    for i in from..h.len() {
        let mut d = h.to_vec();
        d.remove(i);
        out.push(d);
        let mut d = h.to_vec();
        d.insert(i, h[i].clone());
        out.push(d);
        if i + 1 < h.len() {
            let mut d = h.to_vec();
            d.swap(i, i + 1);
            out.push(d);
        }
    }
    for i in from..=h.len() {
        for e in ins {
            let mut d = h.to_vec();
            d.insert(i, e.clone());
            out.push(d);
        }
    }
    out
}
