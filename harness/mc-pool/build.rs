//! Source inclusion for C18 (see /verif/DESIGN.md §1, "access to crate-private code").
//!
//! 1. Copies the working-tree `resource_pool.rs` into OUT_DIR with exactly one code rewrite — the
//!    `sync::{Condvar, Mutex}` import becomes `loom::sync::{Condvar, Mutex}` — so that the real
//!    source is compiled against loom's controlled scheduler. Every rewrite is exact-match-or-fail:
//!    if the file no longer has the expected shape the build fails (machinery exit 2, no verdict).
//! 2. Reads `compute_cache` in the two prover services and emits the ORDER in which the refresher
//!    talks to the pool (`set_discriminant`, `clear`, refill …) as a constant, so the harness'
//!    refresher follows the real call order. Any other change of those statements fails the build.

use std::{env, fs, path::PathBuf, process::exit};

const POOL_SRC: &str = "/repo/internal/mithril-resource-pool/src/resource_pool.rs";
const PROVER_SRC: &str = "/repo/mithril-aggregator/src/services/prover.rs";
const PROVER_LEGACY_SRC: &str = "/repo/mithril-aggregator/src/services/prover_legacy.rs";

fn fail(msg: String) -> ! {
    eprintln!("mc-pool build.rs: {msg}");
    println!("cargo:warning=mc-pool build.rs: {msg}");
    exit(1)
}

fn read(path: &str) -> String {
    println!("cargo:rerun-if-changed={path}");
    fs::read_to_string(path).unwrap_or_else(|e| fail(format!("cannot read {path}: {e}")))
}

/// replace `from` by `to`; `from` must occur exactly once
fn rewrite_once(src: &str, from: &str, to: &str, what: &str) -> String {
    let n = src.matches(from).count();
    if n != 1 {
        fail(format!(
            "{what}: expected exactly one occurrence of {from:?} in {POOL_SRC}, found {n}; the source \
             changed shape, adapt harness/mc-pool/build.rs"
        ));
    }
    src.replacen(from, to, 1)
}

fn loomify_pool_source() -> String {
    let src = read(POOL_SRC);

    // (a) the one code rewrite: std::sync → loom::sync for Condvar and Mutex
    let from = "use std::{\n    collections::VecDeque,\n    ops::{Deref, DerefMut},\n    sync::{Condvar, Mutex},\n    time::Duration,\n};\n";
    let to = "use std::{\n    collections::VecDeque,\n    ops::{Deref, DerefMut},\n    time::Duration,\n};\nuse loom::sync::{Condvar, Mutex};\n";
    let src = rewrite_once(&src, from, to, "sync import");
    // no other path to std's primitives may remain
    for forbidden in ["std::sync", "sync::Mutex", "sync::Condvar", "sync::RwLock", "sync::atomic", "parking_lot", "std::thread"] {
        if src.contains(forbidden) {
            fail(format!("{POOL_SRC} mentions {forbidden:?}: a synchronisation primitive would escape loom"));
        }
    }

    // (b) cut the unit tests: everything from the first `#[cfg(test)]` to the end of the file must
    // be cfg(test) items only (one-line items and the `mod tests { … }` block), nothing else
    let marker = "\n#[cfg(test)]\n";
    let Some(cut) = src.find(marker) else {
        fail(format!("no `#[cfg(test)]` section found in {POOL_SRC}; adapt build.rs"));
    };
    let (head, tail) = src.split_at(cut + 1);
    let mut lines = tail.lines().peekable();
    let mut in_mod = false;
    let mut expect_item = false;
    while let Some(l) = lines.next() {
        if in_mod {
            if l == "}" {
                in_mod = false;
            } else if !(l.is_empty() || l.starts_with(' ') || l.starts_with('\t')) {
                fail(format!("unexpected top-level line inside the test module of {POOL_SRC}: {l:?}"));
            }
        } else if l == "#[cfg(test)]" {
            expect_item = true;
        } else if expect_item {
            expect_item = false;
            if l.starts_with("mod ") && l.ends_with('{') {
                in_mod = true;
            } else if !(l.ends_with(';') || l.ends_with("{}")) {
                fail(format!("cfg(test) item of {POOL_SRC} is not a one-liner or a module: {l:?}"));
            }
        } else if !l.is_empty() {
            fail(format!("non-test code after the first `#[cfg(test)]` in {POOL_SRC}: {l:?}"));
        }
    }
    if in_mod || expect_item {
        fail(format!("unterminated cfg(test) section in {POOL_SRC}"));
    }

    // (c) comment-only: inner doc comments are not allowed in an `include!`d file
    let mut out = String::with_capacity(head.len() + 64);
    let mut leading = true;
    for l in head.lines() {
        if leading && l.starts_with("//!") {
            out.push_str("// ");
            out.push_str(&l[3..]);
        } else {
            if !l.trim().is_empty() {
                leading = false;
            }
            out.push_str(l);
        }
        out.push('\n');
    }
    // the functions the harness drives must still be there
    for needed in [
        "pub fn acquire_resource(&self, timeout: Duration) -> StdResult<ResourcePoolItem<'_, T>>",
        "pub fn give_back_resource(&self, resource: T, discriminant: u64) -> StdResult<()>",
        "pub fn give_back_resource_pool_item(",
        "pub fn reset_available_resources(&self) -> StdResult<()>",
        "pub fn clear(&self)",
        "pub fn set_discriminant(&self, discriminant: u64) -> StdResult<()>",
        "pub fn discriminant(&self) -> StdResult<u64>",
        "pub fn count(&self) -> StdResult<usize>",
        "impl<T: Reset + Send + Sync> Drop for ResourcePoolItem<'_, T>",
    ] {
        if !out.contains(needed) {
            fail(format!("{POOL_SRC} no longer contains `{needed}`; adapt the C18 harness"));
        }
    }
    out
}

/// The statements of `compute_cache` that talk to the pool, and the token the harness uses for each.
const REFRESH_STATEMENTS: [(&str, &str); 4] = [
    ("let discriminant_new = self.mk_map_pool.discriminant()? + 1;", "ReadNext"),
    ("self.mk_map_pool.set_discriminant(discriminant_new)?;", "SetDiscriminant"),
    ("self.mk_map_pool.clear();", "Clear"),
    (".map(|mk_map| self.mk_map_pool.give_back_resource(mk_map, discriminant_new))", "Refill"),
];

fn refresh_protocol(path: &str) -> Vec<&'static str> {
    let src = read(path);
    let start = src
        .find("async fn compute_cache(&self, up_to: BlockNumber) -> StdResult<()> {")
        .unwrap_or_else(|| fail(format!("{path}: compute_cache not found; adapt the C18 refresher model")));
    // body = up to the first line that closes the method (4 spaces + '}')
    let body_end = src[start..]
        .find("\n    }\n")
        .unwrap_or_else(|| fail(format!("{path}: end of compute_cache not found")));
    let body = &src[start..start + body_end];
    let mut found: Vec<(usize, &'static str)> = vec![];
    for (stmt, token) in REFRESH_STATEMENTS {
        let n = body.matches(stmt).count();
        if n != 1 {
            fail(format!(
                "{path}: compute_cache must contain `{stmt}` exactly once (found {n}); the refresher protocol \
                 changed, adapt the C18 refresher model in harness/mc-pool"
            ));
        }
        found.push((body.find(stmt).unwrap(), token));
    }
    // every use of the pool in compute_cache must be one of the known statements (+ size())
    let uses = body.matches("mk_map_pool").count();
    let sizes = body.matches("self.mk_map_pool.size()").count();
    if uses != REFRESH_STATEMENTS.len() + sizes {
        fail(format!(
            "{path}: compute_cache uses the pool {uses} times, {} known; adapt the C18 refresher model",
            REFRESH_STATEMENTS.len() + sizes
        ));
    }
    found.sort();
    found.into_iter().map(|(_, t)| t).collect()
}

/// the way proof computations use the pool: acquire, then give the item back (or drop it on error)
fn user_protocol(path: &str) {
    let src = read(path);
    for stmt in [
        "self.mk_map_pool.acquire_resource(acquire_timeout)?;",
        "self.mk_map_pool.give_back_resource_pool_item(mk_map)?;",
    ] {
        if src.matches(stmt).count() != 1 {
            fail(format!("{path}: expected `{stmt}` exactly once; the user protocol changed, adapt the C18 user model"));
        }
    }
}

fn main() {
    println!("cargo:rerun-if-changed=build.rs");
    let out_dir = PathBuf::from(env::var("OUT_DIR").expect("OUT_DIR"));

    let pool = loomify_pool_source();
    fs::write(out_dir.join("resource_pool_loom.rs"), pool).expect("write resource_pool_loom.rs");

    let p1 = refresh_protocol(PROVER_SRC);
    let p2 = refresh_protocol(PROVER_LEGACY_SRC);
    if p1 != p2 {
        fail(format!("the two prover services refresh the pool in different orders: {p1:?} vs {p2:?}; adapt the C18 harness"));
    }
    if p1.iter().position(|t| *t == "ReadNext") > p1.iter().position(|t| *t == "SetDiscriminant")
        || p1.iter().position(|t| *t == "ReadNext") > p1.iter().position(|t| *t == "Refill")
    {
        fail(format!("compute_cache uses discriminant_new before defining it? order = {p1:?}"));
    }
    user_protocol(PROVER_SRC);
    user_protocol(PROVER_LEGACY_SRC);
    let tokens: Vec<String> = p1.iter().map(|t| format!("RefreshToken::{t}")).collect();
    let code = format!(
        "/// order of the pool calls in `compute_cache` (extracted from {PROVER_SRC} and {PROVER_LEGACY_SRC})\n\
         pub const REFRESH_PROTOCOL: [RefreshToken; {}] = [{}];\n",
        tokens.len(),
        tokens.join(", ")
    );
    fs::write(out_dir.join("refresh_protocol.rs"), code).expect("write refresh_protocol.rs");
}
