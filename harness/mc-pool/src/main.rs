//! mc-pool: serves C18 (see /verif/DESIGN.md §4)
mod c18;

fn main() {
    let ctx = mc_core::Ctx::from_args();
    mc_core::quiet_panics();
    match ctx.property.as_str() {
        "C18" => c18::run(&ctx),
        other => {
            eprintln!("mc-pool does not serve {other}");
            std::process::exit(2);
        }
    }
}
