//! C18 — a pooled Merkle-map cache never serves data from a superseded generation.
//!
//! Two parts, both executed on the real `resource_pool.rs` of the working tree:
//!
//! * [`seq`]  — every operation sequence up to a length (acquire, the three ways of giving back,
//!   the refresher's steps in the order `compute_cache` performs them, a third party's give-back,
//!   reset) on the crate `mithril-resource-pool` as built normally, against a boring reference
//!   (a `Vec` of what should be in the pool + the generation counters of the harness).
//! * [`conc`] — all thread interleavings up to a preemption bound (loom) of the same source file
//!   compiled against `loom::sync::{Mutex, Condvar}` (see `build.rs`): proof computations that
//!   overlap a cache refresh, concurrent give-backs, waiters on an empty pool.
//!
//! The oracle never looks at the pool's labels: every resource carries the generation it was
//! born in (`born`), stamped by the harness.

use mc_core::{Ctx, Report};
use serde::{Deserialize, Serialize};
use serde_json::json;

pub mod conc;
pub mod seq;

/// One pool call of `compute_cache`; the order is extracted from the prover sources by `build.rs`.
#[derive(Clone, Copy, Debug, PartialEq, Eq, Hash, Serialize, Deserialize)]
pub enum RefreshToken {
    /// `let discriminant_new = pool.discriminant()? + 1;`
    ReadNext,
    /// `pool.set_discriminant(discriminant_new)?;`
    SetDiscriminant,
    /// `pool.clear();`
    Clear,
    /// `size` × `pool.give_back_resource(new_resource, discriminant_new)`
    Refill,
}
include!(concat!(env!("OUT_DIR"), "/refresh_protocol.rs"));

/// classifier keys (one per root cause / failing clause)
pub mod key {
    /// a resource of a superseded generation was re-admitted / served, and it had been handed out
    /// under a label newer than its own generation (label read at acquire ≠ generation popped)
    pub const RELABELLED: &str = "C18/stale-generation-relabelled-at-acquire";
    /// a resource of a superseded generation was re-admitted / served although it was handed out
    /// under the label of its own generation (the give-back did not compare, or compared wrongly)
    pub const STALE: &str = "C18/stale-generation-served";
    pub const OVERFULL: &str = "C18/pool-overfull";
    pub const LOST_WAKEUP: &str = "C18/lost-wakeup";
    pub const ACQUIRE_FAILS: &str = "C18/acquire-fails-on-non-empty-pool";
    pub const DROPPED: &str = "C18/current-generation-resource-dropped";
    pub const CONTENT: &str = "C18/pool-content-differs-from-reference";
    pub const PANIC: &str = "C18/panic-in-pool";
    pub const API_ERROR: &str = "C18/unexpected-error";
}

/// Violations of both parts, gathered so that the simplest counterexample of each key comes first.
#[derive(Default)]
pub struct Findings {
    /// (key, complexity (smaller = simpler), occurrences, what, replay)
    pub items: Vec<(String, usize, u64, String, serde_json::Value)>,
}

impl Findings {
    pub fn add(&mut self, key: &str, complexity: usize, occurrences: u64, what: String, replay: serde_json::Value) {
        self.items.push((key.to_string(), complexity, occurrences, what, replay));
    }
    pub fn into_report(mut self, rep: &mut Report) {
        self.items.sort_by(|a, b| (&a.0, a.1).cmp(&(&b.0, b.1)));
        let mut counts: std::collections::BTreeMap<String, u64> = Default::default();
        for (k, _, n, what, replay) in self.items {
            *counts.entry(k.clone()).or_insert(0) += n;
            rep.violation(&k, what, replay);
        }
        for (k, n) in counts {
            rep.violation_counts.insert(k, n);
        }
    }
}

pub fn run(ctx: &Ctx) -> ! {
    // child process of the loom part: one scenario, result as one JSON line on stdout
    if let Some(p) = ctx.extra_args.iter().position(|a| a == "--loom-child") {
        conc::child_main(ctx, &ctx.extra_args[p + 1..]);
    }

    let mut rep = Report::new(
        "model_checking",
        "sequential: every enabled operation sequence up to the stated length on pools of the stated sizes is run on \
         the real crate, followed by completing a refresh in progress and draining the pool; a history is non-trivial \
         when a resource is given back (any way) after a refresher step happened since it was acquired; distinct = \
         distinct (configuration, canonical end state, outcome). concurrent: every loom execution of every scenario; \
         an execution is non-trivial when a user's acquire..give-back window overlapped the refresh (or, in the \
         scenarios without refresher, when the two parties were in flight at the same time); distinct = distinct \
         harness-level event traces",
    );
    rep.max_samples = 8;
    rep.extra("refresh_protocol_extracted_from_prover", json!(REFRESH_PROTOCOL));

    if let Some(path) = &ctx.replay {
        let v = mc_core::load_replay(path);
        let mut found = Findings::default();
        match v["part"].as_str() {
            Some("seq") => seq::replay(ctx, &v, &mut rep, &mut found),
            Some("loom") => conc::replay(ctx, &v, &mut rep, &mut found),
            _ => {
                eprintln!("replay file has no part=seq|loom");
                std::process::exit(2);
            }
        }
        found.into_report(&mut rep);
        rep.nontrivial(&0u8);
        rep.nontrivial(&1u8);
        rep.finish(ctx);
    }

    let mut found = Findings::default();
    seq::explore(ctx, &mut rep, &mut found);
    conc::explore(ctx, &mut rep, &mut found);
    found.into_report(&mut rep);

    rep.assume(
        "loom's Condvar::wait_timeout never times out: the time-out branch of acquire_resource is exercised only \
         sequentially (empty pool => error); concurrently, waiters are modelled only where a notification is due and \
         a deadlock reported by loom stands for a lost wake-up",
    );
    rep.assume(
        "the concurrent part compiles a copy of resource_pool.rs whose only code change is the import of Mutex/Condvar \
         from loom::sync instead of std::sync (build.rs, exact-match-or-fail); loom's model of these primitives and its \
         DPOR/preemption-bounded search are trusted",
    );
    rep.assume(
        "the refresher performs the pool calls of compute_cache in the order extracted from prover.rs/prover_legacy.rs at \
         build time, users do acquire -> use -> give back (item / drop / explicit with the item's own label); the \
         harness stamps every resource with the generation it was born in and never hands a stale resource back under \
         a label other than the one the pool itself put on the item",
    );
    rep.assume(
        "a resource handed out while a refresh is still in progress may belong to the previous generation (weakest \
         reading of 'handed out afterwards'); only acquisitions that start after the refresh completed, and the final \
         drain, are judged",
    );
    rep.finish(ctx)
}
