//! Concurrent part of C18: loom explores all interleavings (up to a preemption bound) of the REAL
//! `resource_pool.rs`, compiled by `build.rs` against `loom::sync::{Mutex, Condvar}`.
//!
//! Each scenario runs in a child process (a loom failure panics inside loom's scheduler and may
//! abort); the child prints one JSON line. Oracle violations do not panic: they are recorded and
//! the exploration continues, so every execution of every scenario is judged and counted. Only a
//! deadlock (lost wake-up) stops a scenario early — loom reports it by panicking.

use super::{Findings, REFRESH_PROTOCOL, RefreshToken, key};
use mc_core::{Ctx, Report, hash64, par_map};
use serde::{Deserialize, Serialize};
use serde_json::{Value, json};
use std::collections::{BTreeMap, HashSet};
use std::process::{Command, Stdio};
use std::sync::Arc;
use std::sync::Mutex as StdMutex;
use std::sync::atomic::{AtomicU64 as StdAtomicU64, Ordering as StdOrdering};
use std::time::Duration;

/// the working-tree source of the pool, compiled against loom (see build.rs)
#[allow(dead_code, unused_imports, clippy::all)]
pub mod pool_src {
    include!(concat!(env!("OUT_DIR"), "/resource_pool_loom.rs"));
}
use pool_src::{Reset, ResourcePool};

use loom::sync::atomic::{AtomicU64, Ordering::SeqCst};

/// Pooled resource: identity + the generation it was born in, stamped by the harness.
#[derive(Debug)]
pub struct Res {
    pub id: u32,
    pub born: u64,
}
impl Reset for Res {}

#[derive(Clone, Copy, Debug, PartialEq, Eq, Hash, Serialize, Deserialize)]
pub enum Way {
    /// `give_back_resource_pool_item(item)` — what the proof computations do on success
    Item,
    /// `drop(item)` — what they do on an error path
    Drop,
    /// `give_back_resource(resource, item.discriminant())`
    Explicit,
}
const WAYS: [Way; 3] = [Way::Item, Way::Drop, Way::Explicit];

#[derive(Clone, Debug, PartialEq, Eq, Hash, Serialize, Deserialize)]
pub enum Scenario {
    /// pool of `size` holding `size` resources of generation 0; users U1, U2 (acquire → use → give
    /// back by `w1`/`w2`) and the refresher R to generation 1, all concurrent. `use_yields`: the use
    /// phase is a `yield_now` (a long proof computation: others run meanwhile without costing a
    /// preemption) or nothing.
    UsersVsRefresh { size: usize, w1: Way, w2: Way, use_yields: bool },
    /// U2 computes two proofs in a row (acquire → use → give back, twice), U1 one, R refreshes
    RepeatUserVsRefresh { size: usize, w1: Way, w2: Way },
    /// pool of `size` holding `size - 1` resources; two parties concurrently hand over one more
    /// resource of the generation in force each (`give_back_resource(new, pool.discriminant())`)
    ConcurrentGiveBacks { size: usize },
    /// pool of `size` holding `size` resources, `size + 1` users, no refresher: somebody has to wait
    /// and must be woken by a give-back
    UsersShareResources { size: usize, way: Way },
    /// empty pool as the prover creates it; `waiters` users block in acquire; R refreshes to generation 1
    WaitersAndRefill { size: usize, waiters: usize },
}

/// ---------- per-execution / per-scenario bookkeeping (invisible to loom, never blocks) ----------
#[derive(Default)]
struct Exec {
    trace: Vec<String>,
    violations: Vec<(String, String)>,
    relabelled: HashSet<u32>,
    /// resources given back (any way) after the refresh superseding them had begun: a foreign label
    /// seen on them later is a consequence of that give-back, not a cause
    returned_superseded: HashSet<u32>,
    overlap: bool,
    labels: Vec<String>,
    /// 0 = refresh not started, 1 = in progress, 2 = completed (observation only)
    refresh_phase: u8,
    in_flight: u32,
}

#[derive(Default)]
struct Totals {
    executions: u64,
    nontrivial: HashSet<u64>,
    outcomes: BTreeMap<String, u64>,
    /// key -> (occurrences (executions), what, trace of the first one)
    found: BTreeMap<String, (u64, String, Vec<String>)>,
    sample: Option<Vec<String>>,
}

static EXEC: StdMutex<Option<Exec>> = StdMutex::new(None);
static TOTALS: StdMutex<Option<Totals>> = StdMutex::new(None);
static EXECUTIONS: StdAtomicU64 = StdAtomicU64::new(0);

fn with_exec<T>(f: impl FnOnce(&mut Exec) -> T) -> T {
    let mut g = EXEC.lock().unwrap_or_else(|e| e.into_inner());
    f(g.get_or_insert_with(Exec::default))
}
fn trace(s: String) {
    with_exec(|e| e.trace.push(s));
}
fn violation(key: &str, what: String) {
    with_exec(|e| e.violations.push((key.to_string(), what)));
}
fn label(s: String) {
    with_exec(|e| e.labels.push(s));
}
fn exec_begin() {
    EXECUTIONS.fetch_add(1, StdOrdering::SeqCst);
    *EXEC.lock().unwrap_or_else(|e| e.into_inner()) = Some(Exec::default());
}
fn exec_end() {
    let e = EXEC.lock().unwrap_or_else(|e| e.into_inner()).take().unwrap_or_default();
    let mut g = TOTALS.lock().unwrap_or_else(|e| e.into_inner());
    let t = g.get_or_insert_with(Totals::default);
    t.executions += 1;
    let mut labels = e.labels.clone();
    labels.sort();
    labels.dedup();
    *t.outcomes.entry(labels.join(",")).or_insert(0) += 1;
    if e.overlap {
        t.nontrivial.insert(hash64(&e.trace));
        if t.sample.is_none() && e.relabelled.is_empty() && e.violations.is_empty() {
            t.sample = Some(e.trace.clone());
        }
    }
    let mut seen: Vec<&str> = vec![];
    for (k, what) in &e.violations {
        if seen.contains(&k.as_str()) {
            continue;
        }
        seen.push(k);
        let f = t.found.entry(k.clone()).or_insert_with(|| (0, what.clone(), e.trace.clone()));
        f.0 += 1;
        // keep the shortest trace as the example
        if e.trace.len() < f.2.len() {
            f.1 = what.clone();
            f.2 = e.trace.clone();
        }
    }
}

const ACQUIRE_TIMEOUT: Duration = Duration::from_millis(1000); // as the prover services

fn stale_key(id: u32) -> &'static str {
    if with_exec(|e| e.relabelled.contains(&id)) { key::RELABELLED } else { key::STALE }
}

fn observe_count(pool: &ResourcePool<Res>, size: usize, who: &str, after: &str) {
    match pool.count() {
        Ok(n) => {
            if n > size {
                trace(format!("{who} observes count() = {n} after {after}"));
                violation(key::OVERFULL, format!("{who} observes count() = {n} > size = {size} after {after}"));
            }
        }
        Err(e) => violation(key::API_ERROR, format!("count() failed: {e:#}")),
    }
}

/// One proof computation, as `compute_proof` / `compute_transactions_proofs` use the pool:
/// acquire → work on the resource → give it back.
fn user(pool: &ResourcePool<Res>, completed: &AtomicU64, size: usize, name: &str, way: Way, use_yields: bool) {
    // the oracle's clock: which refresh had completed before this acquisition started
    let completed_before = completed.load(SeqCst);
    let phase_at_acquire = with_exec(|e| {
        e.in_flight += 1;
        e.refresh_phase
    });
    let item = match pool.acquire_resource(ACQUIRE_TIMEOUT) {
        Ok(item) => item,
        Err(e) => {
            // loom never times out: any error is unexpected here
            violation(key::API_ERROR, format!("{name}: acquire_resource failed: {e:#}"));
            return;
        }
    };
    let (id, born, lab) = (item.id, item.born, item.discriminant());
    trace(format!("{name} acquires: served resource #{id} of generation {born}, item label {lab}"));
    if lab != born {
        // classification only: in these scenarios generation g is refreshed under discriminant g
        with_exec(|e| {
            if !e.returned_superseded.contains(&id) {
                e.relabelled.insert(id);
            }
        });
    }
    if born < completed_before {
        violation(
            stale_key(id),
            format!(
                "{name} started acquire_resource after the refresh to generation {completed_before} had completed and was \
                 served resource #{id} of generation {born} (item label {lab})"
            ),
        );
        label("a-user-is-served-stale".to_string());
    } else if born < with_exec(|e| if e.refresh_phase > 0 { 1 } else { 0 }) {
        label("a-user-is-served-previous-generation-during-refresh".to_string());
    }
    if use_yields {
        loom::thread::yield_now();
    }
    let phase_at_give_back = with_exec(|e| {
        if e.refresh_phase > 0 && born == 0 {
            e.returned_superseded.insert(id);
        }
        e.refresh_phase
    });
    if phase_at_acquire < 2 && phase_at_give_back > 0 {
        with_exec(|e| e.overlap = true);
    }
    let r = match way {
        Way::Item => pool.give_back_resource_pool_item(item),
        Way::Drop => {
            drop(item);
            Ok(())
        }
        Way::Explicit => {
            let mut item = item;
            let res = std::mem::replace(&mut *item, Res { id: u32::MAX, born: 0 });
            let lab = item.discriminant();
            std::mem::forget(item); // the empty shell is not a resource
            pool.give_back_resource(res, lab)
        }
    };
    if let Err(e) = r {
        violation(key::API_ERROR, format!("{name}: give back failed: {e:#}"));
    }
    trace(format!("{name} gives #{id} back ({way:?}, label {lab})"));
    with_exec(|e| e.in_flight -= 1);
    observe_count(pool, size, name, "its give-back");
}

/// `compute_cache`: the pool calls in the order extracted from the prover sources.
fn refresher(pool: &ResourcePool<Res>, completed: &AtomicU64, size: usize, generation: u64, first_id: u32) {
    let mut d_new = 0u64;
    for tok in REFRESH_PROTOCOL {
        match tok {
            RefreshToken::ReadNext => match pool.discriminant() {
                Ok(d) => d_new = d + 1,
                Err(e) => violation(key::API_ERROR, format!("discriminant() failed: {e:#}")),
            },
            RefreshToken::SetDiscriminant => {
                if let Err(e) = pool.set_discriminant(d_new) {
                    violation(key::API_ERROR, format!("set_discriminant failed: {e:#}"));
                }
                with_exec(|e| e.refresh_phase = e.refresh_phase.max(1));
                trace(format!("R set_discriminant({d_new})"));
            }
            RefreshToken::Clear => {
                pool.clear();
                with_exec(|e| e.refresh_phase = e.refresh_phase.max(1));
                trace("R clear()".into());
            }
            RefreshToken::Refill => {
                for i in 0..size {
                    let id = first_id + i as u32;
                    if let Err(e) = pool.give_back_resource(Res { id, born: generation }, d_new) {
                        violation(key::API_ERROR, format!("refill give_back_resource failed: {e:#}"));
                    }
                    with_exec(|e| e.refresh_phase = e.refresh_phase.max(1));
                    trace(format!("R refill: give_back_resource(#{id} of generation {generation}, {d_new})"));
                }
            }
        }
    }
    with_exec(|e| e.refresh_phase = 2);
    trace(format!("R completed the refresh to generation {generation}"));
    completed.store(generation, SeqCst);
}

/// after all threads joined: size bound, and everything still in the pool is handed out and judged
fn quiescence(pool: &ResourcePool<Res>, completed: &AtomicU64, size: usize) {
    let done = completed.load(SeqCst);
    observe_count(pool, size, "main (all threads joined)", "quiescence");
    let mut drained = vec![];
    let mut gens = vec![];
    for _ in 0..size + 4 {
        match pool.count() {
            Ok(0) | Err(_) => break,
            Ok(_) => {}
        }
        match pool.acquire_resource(ACQUIRE_TIMEOUT) {
            Ok(item) => {
                let (id, born, lab) = (item.id, item.born, item.discriminant());
                gens.push(born);
                if born < done {
                    trace(format!("main drains the pool: served resource #{id} of generation {born}"));
                    violation(
                        stale_key(id),
                        format!(
                            "after the refresh to generation {done} completed and every thread finished, the pool hands out \
                             resource #{id} of generation {born} (item label {lab})"
                        ),
                    );
                }
                drained.push(item);
            }
            Err(e) => {
                violation(key::ACQUIRE_FAILS, format!("drain: acquire failed on a non-empty pool: {e:#}"));
                break;
            }
        }
    }
    gens.sort();
    label(if gens.iter().any(|g| *g < done) {
        "end:stale-resource-in-pool".to_string()
    } else if gens.len() > size {
        "end:overfull".to_string()
    } else {
        format!("end:{}-of-{}-resources-of-current-generation", gens.len(), size)
    });
    for item in drained {
        std::mem::forget(item);
    }
}

fn initial(size: usize, n: usize) -> ResourcePool<Res> {
    ResourcePool::new(size, (0..n as u32).map(|id| Res { id, born: 0 }).collect())
}

/// the closure loom runs once per execution
fn model(sc: Scenario) -> impl Fn() + Send + Sync + 'static {
    move || {
        exec_begin();
        match sc.clone() {
            Scenario::UsersVsRefresh { size, w1, w2, use_yields } => {
                let pool = Arc::new(initial(size, size));
                let completed = Arc::new(AtomicU64::new(0));
                let mut hs = vec![];
                for (name, way) in [("U1", w1), ("U2", w2)] {
                    let (p, c) = (pool.clone(), completed.clone());
                    hs.push(loom::thread::spawn(move || user(&p, &c, size, name, way, use_yields)));
                }
                let (p, c) = (pool.clone(), completed.clone());
                hs.push(loom::thread::spawn(move || refresher(&p, &c, size, 1, 100)));
                for h in hs {
                    h.join().unwrap();
                }
                quiescence(&pool, &completed, size);
            }
            Scenario::RepeatUserVsRefresh { size, w1, w2 } => {
                let pool = Arc::new(initial(size, size));
                let completed = Arc::new(AtomicU64::new(0));
                let mut hs = vec![];
                let (p, c) = (pool.clone(), completed.clone());
                hs.push(loom::thread::spawn(move || user(&p, &c, size, "U1", w1, true)));
                let (p, c) = (pool.clone(), completed.clone());
                hs.push(loom::thread::spawn(move || {
                    user(&p, &c, size, "U2", w2, true);
                    user(&p, &c, size, "U2'", w2, false);
                }));
                let (p, c) = (pool.clone(), completed.clone());
                hs.push(loom::thread::spawn(move || refresher(&p, &c, size, 1, 100)));
                for h in hs {
                    h.join().unwrap();
                }
                quiescence(&pool, &completed, size);
            }
            Scenario::ConcurrentGiveBacks { size } => {
                let pool = Arc::new(initial(size, size - 1));
                let completed = Arc::new(AtomicU64::new(0));
                let mut hs = vec![];
                for (name, id) in [("G1", 50u32), ("G2", 51u32)] {
                    let p = pool.clone();
                    hs.push(loom::thread::spawn(move || {
                        let others = with_exec(|e| {
                            e.in_flight += 1;
                            e.in_flight
                        });
                        let d = p.discriminant().unwrap_or(0);
                        if let Err(e) = p.give_back_resource(Res { id, born: 0 }, d) {
                            violation(key::API_ERROR, format!("{name}: give_back_resource failed: {e:#}"));
                        }
                        trace(format!("{name} give_back_resource(#{id} of generation 0, {d})"));
                        with_exec(|e| {
                            if others > 1 || e.in_flight > 1 {
                                e.overlap = true;
                            }
                            e.in_flight -= 1;
                        });
                        observe_count(&p, size, name, "its give-back");
                    }));
                }
                for h in hs {
                    h.join().unwrap();
                }
                quiescence(&pool, &completed, size);
            }
            Scenario::UsersShareResources { size, way } => {
                let pool = Arc::new(initial(size, size));
                let completed = Arc::new(AtomicU64::new(0));
                let mut hs = vec![];
                for name in ["U1", "U2", "U3"].into_iter().take(size + 1) {
                    let (p, c) = (pool.clone(), completed.clone());
                    hs.push(loom::thread::spawn(move || {
                        let busy = with_exec(|e| e.in_flight);
                        if busy as usize >= size {
                            with_exec(|e| e.overlap = true); // starts its acquire while every resource may be out
                        }
                        user(&p, &c, size, name, way, true)
                    }));
                }
                for h in hs {
                    h.join().unwrap();
                }
                quiescence(&pool, &completed, size);
            }
            Scenario::WaitersAndRefill { size, waiters } => {
                let pool = Arc::new(initial(size, 0));
                let completed = Arc::new(AtomicU64::new(0));
                let mut hs = vec![];
                for name in ["W1", "W2", "W3"].into_iter().take(waiters) {
                    let (p, c) = (pool.clone(), completed.clone());
                    hs.push(loom::thread::spawn(move || user(&p, &c, size, name, Way::Item, true)));
                }
                let (p, c) = (pool.clone(), completed.clone());
                hs.push(loom::thread::spawn(move || refresher(&p, &c, size, 1, 100)));
                for h in hs {
                    h.join().unwrap();
                }
                quiescence(&pool, &completed, size);
            }
        }
        exec_end();
    }
}

pub fn scenarios(ctx: &Ctx) -> Vec<Scenario> {
    let thorough = ctx.tier.pick(false, true);
    let mut v = vec![];
    for size in [1usize, 2] {
        for w1 in WAYS {
            for w2 in WAYS {
                v.push(Scenario::UsersVsRefresh { size, w1, w2, use_yields: true });
                v.push(Scenario::UsersVsRefresh { size, w1, w2, use_yields: false });
            }
        }
    }
    for size in [1usize, 2] {
        v.push(Scenario::ConcurrentGiveBacks { size });
        for way in WAYS {
            v.push(Scenario::UsersShareResources { size, way });
        }
        v.push(Scenario::WaitersAndRefill { size, waiters: 1 });
        v.push(Scenario::WaitersAndRefill { size, waiters: 2 });
    }
    if thorough {
        // (size 2 with 3 waiters is 8.8 million executions / 15 min at bound 3: left out)
        v.push(Scenario::WaitersAndRefill { size: 1, waiters: 3 });
        for size in [1usize, 2] {
            for w1 in WAYS {
                for w2 in WAYS {
                    v.push(Scenario::RepeatUserVsRefresh { size, w1, w2 });
                }
            }
        }
    }
    v
}

pub fn preemption_bound(ctx: &Ctx) -> usize {
    ctx.tier.pick(2, 3)
}

#[derive(Serialize, Deserialize, Debug)]
pub struct ChildResult {
    pub executions: u64,
    pub completed: bool,
    pub loom_panic: Option<String>,
    pub nontrivial_distinct: u64,
    pub outcomes: BTreeMap<String, u64>,
    /// key -> (executions violating, what, trace)
    pub found: BTreeMap<String, (u64, String, Vec<String>)>,
    pub last_trace: Vec<String>,
    pub sample: Option<Vec<String>>,
    pub wall_s: f64,
}

/// Run one scenario under loom in this process.
fn run_scenario(sc: &Scenario, bound: usize) -> ChildResult {
    let t0 = std::time::Instant::now();
    *TOTALS.lock().unwrap() = Some(Totals::default());
    EXECUTIONS.store(0, StdOrdering::SeqCst);
    let mut b = loom::model::Builder::new();
    // own every knob: nothing comes from LOOM_* environment variables
    b.preemption_bound = Some(bound);
    b.max_branches = 20_000;
    b.max_threads = 5;
    b.max_duration = None;
    b.max_permutations = None;
    b.checkpoint_file = None;
    b.location = false;
    b.log = false;
    let f = model(sc.clone());
    let r = std::panic::catch_unwind(std::panic::AssertUnwindSafe(|| b.check(f)));
    let loom_panic = r.err().map(|e| {
        if let Some(s) = e.downcast_ref::<&str>() {
            s.to_string()
        } else if let Some(s) = e.downcast_ref::<String>() {
            s.clone()
        } else {
            "panic (non-string payload)".to_string()
        }
    });
    let last_trace = EXEC.lock().unwrap_or_else(|e| e.into_inner()).take().map(|e| e.trace).unwrap_or_default();
    let t = TOTALS.lock().unwrap_or_else(|e| e.into_inner()).take().unwrap_or_default();
    ChildResult {
        executions: EXECUTIONS.load(StdOrdering::SeqCst),
        completed: loom_panic.is_none(),
        loom_panic,
        nontrivial_distinct: t.nontrivial.len() as u64,
        outcomes: t.outcomes,
        found: t.found,
        last_trace,
        sample: t.sample,
        wall_s: t0.elapsed().as_secs_f64(),
    }
}

/// `mc-pool C18 <tier> --loom-child <bound> <scenario json>`
pub fn child_main(_ctx: &Ctx, args: &[String]) -> ! {
    let bound: usize = args.first().and_then(|s| s.parse().ok()).unwrap_or(2);
    let sc: Scenario = serde_json::from_str(args.get(1).map(|s| s.as_str()).unwrap_or("")).unwrap_or_else(|e| {
        eprintln!("loom child: bad scenario: {e}");
        std::process::exit(2)
    });
    let r = run_scenario(&sc, bound);
    println!("RESULT {}", serde_json::to_string(&r).unwrap());
    std::process::exit(0)
}

fn spawn_child(ctx: &Ctx, sc: &Scenario, bound: usize) -> Result<ChildResult, String> {
    let exe = std::env::current_exe().map_err(|e| format!("current_exe: {e}"))?;
    let out = Command::new(exe)
        .arg(&ctx.property)
        .arg(ctx.tier.as_str())
        .arg("--loom-child")
        .arg(bound.to_string())
        .arg(serde_json::to_string(sc).unwrap())
        .env_remove("LOOM_LOG")
        .env_remove("LOOM_LOCATION")
        .env_remove("LOOM_CHECKPOINT_FILE")
        .stdin(Stdio::null())
        .stdout(Stdio::piped())
        .stderr(Stdio::piped())
        .output()
        .map_err(|e| format!("spawn: {e}"))?;
    let stdout = String::from_utf8_lossy(&out.stdout);
    for l in stdout.lines() {
        if let Some(j) = l.strip_prefix("RESULT ") {
            return serde_json::from_str(j).map_err(|e| format!("child result does not parse: {e}"));
        }
    }
    let stderr = String::from_utf8_lossy(&out.stderr);
    let tail: Vec<&str> = stderr.lines().rev().take(5).collect();
    Err(format!("child died without a result (status {:?}); stderr tail: {}", out.status, tail.into_iter().rev().collect::<Vec<_>>().join(" | ")))
}

fn account(rep: &mut Report, found: &mut Findings, sc: &Scenario, bound: usize, r: &ChildResult, per_scenario: &mut Vec<Value>) {
    rep.evaluations += r.executions;
    for i in 0..r.nontrivial_distinct {
        rep.nontrivial(&("loom", sc, i));
    }
    for (k, v) in &r.outcomes {
        rep.outcome_n(&format!("loom:{k}"), *v);
    }
    let replay = json!({"part": "loom", "scenario": sc, "preemption_bound": bound});
    for (k, (n, what, tr)) in &r.found {
        found.add(
            k,
            100 + tr.len(),
            *n,
            format!(
                "[loom, preemption bound {bound}, scenario {}] {what}. Interleaving (harness-level events of the first \
                 shortest violating execution, {n} violating executions of {}): {}",
                serde_json::to_string(sc).unwrap(),
                r.executions,
                tr.join(" ; ")
            ),
            replay.clone(),
        );
    }
    if let Some(p) = &r.loom_panic {
        if p.contains("deadlock") {
            found.add(
                key::LOST_WAKEUP,
                100 + r.last_trace.len(),
                1,
                format!(
                    "[loom, preemption bound {bound}, scenario {}] every remaining thread is blocked although a notification \
                     was due (loom: {p}). Events so far: {}",
                    serde_json::to_string(sc).unwrap(),
                    r.last_trace.join(" ; ")
                ),
                replay.clone(),
            );
        } else if p.contains("exceeded maximum number of branches") || p.contains("Model exceeded") || p.contains("[loom internal bug]") {
            rep.machinery_error(format!("loom gave up on scenario {sc:?}: {p}"));
        } else {
            found.add(
                key::PANIC,
                100 + r.last_trace.len(),
                1,
                format!(
                    "[loom, preemption bound {bound}, scenario {}] panic: {p}. Events so far: {}",
                    serde_json::to_string(sc).unwrap(),
                    r.last_trace.join(" ; ")
                ),
                replay.clone(),
            );
        }
    }
    per_scenario.push(json!({"scenario": sc, "executions": r.executions, "distinct_nontrivial_traces": r.nontrivial_distinct,
        "explored_to_the_end": r.completed, "violating_keys": r.found.keys().collect::<Vec<_>>()}));
}

pub fn explore(ctx: &Ctx, rep: &mut Report, found: &mut Findings) {
    let t0 = std::time::Instant::now();
    let bound = preemption_bound(ctx);
    let mut scs = scenarios(ctx);
    // longest first, so that the slowest scenario does not start last
    scs.sort_by_key(|s| !matches!(s, Scenario::WaitersAndRefill { waiters: 3, .. }));
    let results = par_map(&scs, ctx.threads(), |_, sc| spawn_child(ctx, sc, bound));
    let mut per_scenario = vec![];
    let mut total_exec = 0u64;
    let mut sampled = 0;
    let mut slowest = 0f64;
    for (sc, r) in scs.iter().zip(results) {
        match r {
            Ok(r) => {
                total_exec += r.executions;
                slowest = slowest.max(r.wall_s);
                account(rep, found, sc, bound, &r, &mut per_scenario);
                if let Some(s) = &r.sample
                    && sampled < 3
                    && matches!(sc, Scenario::UsersVsRefresh { use_yields: true, .. } | Scenario::WaitersAndRefill { .. })
                    && (sampled == 0 || matches!(sc, Scenario::WaitersAndRefill { waiters: 2, .. }))
                {
                    sampled += 1;
                    rep.sample(json!({"part": "loom", "scenario": sc, "one_execution": s}));
                }
            }
            Err(e) => rep.machinery_error(format!("loom scenario {sc:?}: {e}")),
        }
    }
    // determinism probe: the first scenario twice gives the same numbers
    if let Some(sc) = scs.first() {
        let a = spawn_child(ctx, sc, bound);
        let b = spawn_child(ctx, sc, bound);
        match (a, b) {
            (Ok(a), Ok(b)) if a.executions == b.executions && a.outcomes == b.outcomes => {}
            _ => rep.machinery_error("loom exploration is not reproducible on the probe scenario".into()),
        }
    }
    rep.extra(
        "concurrent",
        json!({
            "engine": "loom 0.7.2 (DPOR, bounded preemptions) on resource_pool.rs compiled against loom::sync",
            "preemption_bound": bound,
            "scenarios": scs.len(),
            "executions": total_exec,
            "slowest_scenario_s": (slowest * 100.0).round() / 100.0,
            "wall_s": (t0.elapsed().as_secs_f64() * 100.0).round() / 100.0,
            "per_scenario": per_scenario,
        }),
    );
}

pub fn replay(ctx: &Ctx, v: &Value, rep: &mut Report, found: &mut Findings) {
    let sc: Scenario = serde_json::from_value(v["scenario"].clone()).unwrap_or_else(|e| {
        eprintln!("replay: bad scenario: {e}");
        std::process::exit(2)
    });
    let bound = v["preemption_bound"].as_u64().unwrap_or(2) as usize;
    match spawn_child(ctx, &sc, bound) {
        Ok(r) => {
            let mut per = vec![];
            account(rep, found, &sc, bound, &r, &mut per);
            eprintln!("replayed {sc:?}: {} executions, violating keys {:?}, loom panic {:?}", r.executions, r.found.keys().collect::<Vec<_>>(), r.loom_panic);
        }
        Err(e) => rep.machinery_error(format!("loom scenario {sc:?}: {e}")),
    }
}
